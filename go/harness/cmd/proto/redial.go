package main

import (
	"bytes"
	"encoding/json"
	"fmt"
	"io"
	"math/rand"
	"net"
	"os"
	"sort"
	"strings"
	"sync"
	"sync/atomic"
	"time"

	"ergo.services/ergo/gen"
	"ergo.services/ergo/net/proto"
	"verifharness/util"
)

// ---------------------------------------------------------------------------------------
// redial: the DIALING side of a pool link (Join with a dial function). The receiver's view of a
// link is a sequence of epochs; the stream of an epoch = tail handed over by the handshake
// (Join / dial result) ++ bytes read from the socket until the link drops. The frames are real
// ones: a sender-side connection writes them into a capture link first; the harness then plays
// the peer of the receiving connection byte by byte (tail / socket split, chunking, drops,
// re-dials that return a new pipe and a new tail).
// ---------------------------------------------------------------------------------------

type rdEpoch struct {
	First      int    `json:"first"`       // index (in the captured stream) of the first frame written on this epoch's link
	Frames     int    `json:"frames"`      // complete frames that reach the receiver in this epoch
	Extra      int    `json:"extra"`       // bytes of the following frame that still reach it before the drop (n>0 bytes, -1 all but one, -2 half)
	TailFrames int    `json:"tail_frames"` // the tail = that many frames of the epoch ...
	TailExtra  int    `json:"tail_extra"`  // ... plus bytes of the next one (same encoding as Extra; clipped to the epoch)
	Back       int    `json:"back"`        // messages the receiving node sends to its peer during the epoch
	Policy     string `json:"policy"`      // how the socket bytes are written: byte | random | coalesce | frames
}

type rdCase struct {
	PoolCfg int       `json:"pool_cfg"`
	Pairs   []c13Pair `json:"pairs"`
	Msgs    []int     `json:"msgs"` // pair of every message, in sending order
	Big     []bool    `json:"big"`  // message carries a payload of several KB (crosses the pooled 4 KiB buffer)
	Epochs  []rdEpoch `json:"epochs"`
	Seed    int64     `json:"seed"`
	Tags    []string  `json:"tags"`
	Note    string    `json:"note,omitempty"`
}

type rdEpochObs struct {
	Off          int   // byte offset of the epoch's stream in the captured stream
	Tail         int   // bytes handed over as tail
	Chunks       []int // successful writes into the socket, in order (their sum = bytes the receiver read before the drop)
	ClosedByPeer bool  // the receiving connection closed the link itself
	BackSent     int
	BackGot      int
}

type rdObs struct {
	Frames     [][]byte
	Epochs     []rdEpochObs
	Dials      int  // calls of the dial function
	Left       bool // the link left the pool (Join goroutine ended) at the end
	MessagesIn int
	Delivered  []int
	Anomaly    []string
	Log        []string
}

// captureConn: the sender's "TCP link" of stage 1
type captureConn struct {
	mu     sync.Mutex
	data   []byte
	closed chan struct{}
	once   sync.Once
}
type rdAddr struct{}

func (rdAddr) Network() string { return "verif" }
func (rdAddr) String() string  { return "verif" }

func newCapture() *captureConn { return &captureConn{closed: make(chan struct{})} }
func (s *captureConn) Read(b []byte) (int, error) {
	<-s.closed
	return 0, io.EOF
}
func (s *captureConn) Write(b []byte) (int, error) {
	s.mu.Lock()
	s.data = append(s.data, b...)
	s.mu.Unlock()
	return len(b), nil
}
func (s *captureConn) Close() error                       { s.once.Do(func() { close(s.closed) }); return nil }
func (s *captureConn) LocalAddr() net.Addr                { return rdAddr{} }
func (s *captureConn) RemoteAddr() net.Addr               { return rdAddr{} }
func (s *captureConn) SetDeadline(t time.Time) error      { return nil }
func (s *captureConn) SetReadDeadline(t time.Time) error  { return nil }
func (s *captureConn) SetWriteDeadline(t time.Time) error { return nil }
func (s *captureConn) bytes() []byte {
	s.mu.Lock()
	defer s.mu.Unlock()
	return append([]byte(nil), s.data...)
}

// backTap drains what the receiving connection writes on a link (net.Pipe is synchronous)
type backTap struct {
	mu   sync.Mutex
	data []byte
}

func (t *backTap) run(c net.Conn) {
	tmp := make([]byte, 1<<15)
	for {
		n, err := c.Read(tmp)
		if n > 0 {
			t.mu.Lock()
			t.data = append(t.data, tmp[:n]...)
			t.mu.Unlock()
		}
		if err != nil {
			return
		}
	}
}
func (t *backTap) frames() [][]byte {
	t.mu.Lock()
	defer t.mu.Unlock()
	return splitFrames(append([]byte(nil), t.data...))
}

// rdConn: the receiving connection's end of a link; tells when serve() has started on it (serve removes
// the read deadline first) and when the connection code closed it
type rdConn struct {
	net.Conn
	closed *atomic.Bool
	served *atomic.Bool
}

func (c rdConn) Close() error {
	c.closed.Store(true)
	return c.Conn.Close()
}
func (c rdConn) SetReadDeadline(t time.Time) error {
	c.served.Store(true)
	return c.Conn.SetReadDeadline(t)
}

type rdDialResp struct {
	conn net.Conn
	tail []byte
	err  error
}

// deadlines: generous for what must happen; after a few losses of messages that will never arrive
// (a defect is present) the waits for those are shortened so that the run still ends
var rdLosses int32

func rdLossDeadline() time.Duration { return rdDeadline(5 * time.Second) }

// rdDeadline: a wait for something that must happen expires only when a defect is present; after two
// such expiries of a run all further waits are short (the failing inputs are already on record)
func rdDeadline(base time.Duration) time.Duration {
	if atomic.LoadInt32(&rdLosses) >= 2 {
		return 300 * time.Millisecond
	}
	return base
}

func rdWait(d time.Duration, cond func() bool) bool {
	deadline := time.Now().Add(d)
	for i := 0; ; i++ {
		if cond() {
			return true
		}
		if time.Now().After(deadline) {
			if cond() {
				return true
			}
			atomic.AddInt32(&rdLosses, 1)
			return false
		}
		if i < 50 {
			time.Sleep(50 * time.Microsecond)
		} else {
			time.Sleep(500 * time.Microsecond)
		}
	}
}

func rdValue(c rdCase, i int) string {
	k := c.Msgs[i]
	seq := 0
	for j := 0; j < i; j++ {
		if c.Msgs[j] == k {
			seq++
		}
	}
	v := fmt.Sprintf("rd-pair-%d-seq-%d-%s", k, seq, strings.Repeat("y", (i*29+k*7)%70))
	if i < len(c.Big) && c.Big[i] {
		v += strings.Repeat(fmt.Sprintf("-payload%d", i), 420+i*5)
	}
	return v
}

// resolve the "extra bytes of a frame" encoding against the real frame length: always a proper prefix
func rdExtra(code int, flen int) int {
	n := code
	switch {
	case code == 0:
		return 0
	case code == -1:
		n = flen - 1
	case code == -2:
		n = flen / 2
	}
	if n > flen-1 {
		n = flen - 1
	}
	if n < 0 {
		n = 0
	}
	return n
}

func rdChunks(r *rand.Rand, policy string, data []byte, frameEnds []int) []int {
	var out []int
	rest := len(data)
	pos := 0
	for rest > 0 {
		k := rest
		switch policy {
		case "byte":
			k = 1
		case "random":
			switch r.Intn(5) {
			case 0:
				k = 1 + r.Intn(imin(rest, 9))
			case 1:
				k = 1 + r.Intn(imin(rest, 64))
			case 2:
				k = 1 + r.Intn(rest)
			case 3:
				k = imin(rest, 7+r.Intn(3))
			default:
				k = imin(rest, 4090+r.Intn(12))
			}
		case "frames":
			// up to the next frame end of the captured stream
			k = rest
			for _, e := range frameEnds {
				if e > pos {
					k = imin(rest, e-pos)
					break
				}
			}
		}
		out = append(out, k)
		pos += k
		rest -= k
	}
	return out
}

func runRdCase(c rdCase) (o rdObs) {
	p, err := newPair(pairCfg{Pool: c.PoolCfg, Important: false, Policy: "asis", Seed: c.Seed, PoolDSN: []string{"verif:1", "verif:2"}})
	if err != nil {
		panic(err)
	}
	// ---- stage 1: the sender writes the frames into a capture link
	capt := newCapture()
	if err := p.connA.Join(capt, "cid", nil, nil); err != nil {
		panic(err)
	}
	var sent []string
	for i := range c.Msgs {
		pr := &c.Pairs[c.Msgs[i]]
		v := rdValue(c, i)
		m := msgSpec{Kind: pr.Kind, From: pr.From, To: pr.To, Alias: pr.Alias, Name: pr.Name, Keep: pr.Keep, Ref: [3]uint64{uint64(i) + 1, 2, 3}}
		if err := safeSend(p.connA, &m, v); err != nil {
			panic(fmt.Sprintf("stage 1 send failed: %v", err))
		}
		sent = append(sent, v)
	}
	var frames [][]byte
	if !rdWait(rdDeadline(20*time.Second), func() bool {
		b := capt.bytes()
		frames = splitFrames(b)
		n := 0
		for _, f := range frames {
			n += len(f)
		}
		return len(frames) == len(sent) && n == len(b)
	}) {
		panic("stage 1: the sender did not produce its frames")
	}
	for i, f := range frames {
		if !bytes.HasSuffix(f, edfBytes(sent[i])) {
			panic("stage 1: frame order differs from sending order on a single link")
		}
	}
	p.connA.Terminate(nil)
	capt.Close()
	o.Frames = frames
	offs := make([]int, len(frames)+1)
	for i, f := range frames {
		offs[i+1] = offs[i] + len(f)
	}
	stream := bytes.Join(frames, nil)

	// ---- stage 2: the receiving connection, dialing side
	p.coreB.result = func(cl *Call) error {
		cl.Val = -1
		if s, ok := cl.value.(string); ok {
			for i := range sent {
				if sent[i] == s {
					cl.Val = i
				}
			}
		}
		return nil
	}
	dialReq := make(chan struct{}, 16)
	dialResp := make(chan rdDialResp)
	done := make(chan struct{})
	var dials int32
	dial := func(dsn, id string) (net.Conn, []byte, error) {
		atomic.AddInt32(&dials, 1)
		select {
		case dialReq <- struct{}{}:
		case <-done:
			return nil, nil, fmt.Errorf("harness finished")
		}
		select {
		case r := <-dialResp:
			return r.conn, r.tail, r.err
		case <-done:
			return nil, nil, fmt.Errorf("harness finished")
		}
	}
	left := make(chan struct{})
	joined := false
	defer func() {
		close(done)
		p.connB.Terminate(nil)
		if joined {
			rdWait(rdDeadline(10*time.Second), func() bool {
				select {
				case <-left:
					return true
				default:
					return false
				}
			})
		}
	}()

	rng := rand.New(rand.NewSource(c.Seed*7907 + 13))
	expect := 0 // Route* calls that must have happened: frames that reached the receiver completely
	backTotal := 0
	var backVals []string
	answered := true // the pending dial request (if any) has been answered
	for e, ep := range c.Epochs {
		eo := rdEpochObs{}
		if ep.First > len(frames) {
			ep.First = len(frames)
		}
		nfr := ep.Frames
		if ep.First+nfr > len(frames) {
			nfr = len(frames) - ep.First
		}
		start := offs[ep.First]
		end := offs[ep.First+nfr]
		if ep.First+nfr < len(frames) {
			end += rdExtra(ep.Extra, len(frames[ep.First+nfr]))
		}
		tf := ep.TailFrames
		if tf > nfr {
			tf = nfr
		}
		tailEnd := offs[ep.First+tf]
		if ep.First+tf < len(frames) {
			tailEnd += rdExtra(ep.TailExtra, len(frames[ep.First+tf]))
		}
		if tailEnd > end {
			tailEnd = end
		}
		eo.Off, eo.Tail = start, tailEnd-start
		tail := append([]byte(nil), stream[start:tailEnd]...)
		if len(tail) == 0 && rng.Intn(2) == 0 {
			tail = nil
		}
		b1, h1 := net.Pipe()
		var closedByB, servedByB atomic.Bool
		bt := &backTap{}
		go bt.run(h1)
		bconn := rdConn{Conn: b1, closed: &closedByB, served: &servedByB}
		if e == 0 {
			if err := p.connB.Join(bconn, "cid", dial, tail); err != nil {
				panic(err)
			}
			joined = true
			go func() {
				proto.Create().Serve(p.connB, nil) // returns when every Join goroutine has ended
				close(left)
			}()
		} else {
			dialResp <- rdDialResp{conn: bconn, tail: tail}
			answered = true
		}
		// the Join goroutine has taken the link over (a send issued earlier would still go to the old socket:
		// messages written while a link is down are lost with it)
		if !rdWait(rdDeadline(10*time.Second), func() bool { return servedByB.Load() }) {
			o.Anomaly = append(o.Anomaly, fmt.Sprintf("epoch %d: serve() did not start on the link within 10 s", e))
		}
		// socket bytes
		sock := stream[tailEnd:end]
		var ends []int
		for i := ep.First; i <= len(frames); i++ {
			if offs[i] > tailEnd {
				ends = append(ends, offs[i]-tailEnd)
			}
		}
		pos := 0
		for _, k := range rdChunks(rng, ep.Policy, sock, ends) {
			h1.SetWriteDeadline(time.Now().Add(rdDeadline(10 * time.Second)))
			if _, err := h1.Write(sock[pos : pos+k]); err != nil {
				break
			}
			eo.Chunks = append(eo.Chunks, k)
			pos += k
		}
		reached := pos == len(sock)
		if reached {
			expect += nfr
			ok := rdWait(rdDeadline(10*time.Second), func() bool { return p.coreB.count() >= expect || closedByB.Load() })
			if !ok || p.coreB.count() < expect {
				o.Anomaly = append(o.Anomaly, fmt.Sprintf("epoch %d: %d Route* calls expected, %d seen", e, expect, p.coreB.count()))
			}
		} else {
			// the receiver closed the link while the peer was still writing: count what it did read
			for i := ep.First; i < len(frames) && offs[i+1] <= tailEnd+pos; i++ {
				expect++
			}
			o.Anomaly = append(o.Anomaly, fmt.Sprintf("epoch %d: the receiving connection closed the link after %d of %d socket bytes", e, pos, len(sock)))
		}
		// traffic in the other direction on the (possibly re-dialed) link
		for k := 0; k < ep.Back && !closedByB.Load(); k++ {
			v := fmt.Sprintf("back-%d-%d", e, k)
			from := gen.PID{Node: nodeB, ID: 3000 + uint64(e), Creation: creationB}
			to := gen.PID{Node: nodeA, ID: 4000 + uint64(k), Creation: creationA}
			if err := p.connB.SendPID(from, to, gen.MessageOptions{KeepNetworkOrder: true}, v); err != nil {
				o.Anomaly = append(o.Anomaly, fmt.Sprintf("epoch %d: send from the receiving node failed: %v", e, err))
				continue
			}
			eo.BackSent++
			backTotal++
			backVals = append(backVals, v)
			want := eo.BackSent
			got := func() int {
				n := 0
				for _, f := range bt.frames() {
					for _, bv := range backVals {
						if bytes.HasSuffix(f, edfBytes(bv)) {
							n++
						}
					}
				}
				return n
			}
			rdWait(rdLossDeadline(), func() bool { return got() >= want })
			eo.BackGot = got()
		}
		if ep.Back > 0 {
			// (a late arrival of an earlier message of this epoch counts)
			n := 0
			for _, f := range bt.frames() {
				for _, bv := range backVals {
					if bytes.HasSuffix(f, edfBytes(bv)) {
						n++
					}
				}
			}
			eo.BackGot = n
		}
		if os.Getenv("VERIF_RD_DEBUG") == "2" {
			bt.mu.Lock()
			fmt.Fprintf(os.Stderr, "epoch %d back tap: %d bytes %q\n", e, len(bt.data), bt.data)
			bt.mu.Unlock()
		}
		// the drop
		eo.ClosedByPeer = closedByB.Load()
		h1.Close()
		o.Epochs = append(o.Epochs, eo)
		// what follows is one of two positive events: a dial request, or the link leaves the pool
		ev := ""
		select {
		case <-dialReq:
			ev = "dial"
			answered = false
		case <-left:
			ev = "left"
		case <-time.After(rdDeadline(15 * time.Second)):
			atomic.AddInt32(&rdLosses, 1)
			ev = "stuck"
			o.Anomaly = append(o.Anomaly, fmt.Sprintf("epoch %d: neither a re-dial nor the end of the link within 15 s", e))
		}
		if ev != "dial" {
			o.Left = ev == "left"
			break
		}
		if e == len(c.Epochs)-1 {
			break
		}
	}
	if !answered {
		// no further epoch: the dial fails, the link leaves the pool
		select {
		case dialResp <- rdDialResp{err: fmt.Errorf("no route")}:
		case <-time.After(rdDeadline(10 * time.Second)):
			atomic.AddInt32(&rdLosses, 1)
		}
		// (pool_dsn has two entries: the loop tries the other one too)
		for k := 0; k < 4 && !o.Left; k++ {
			select {
			case <-dialReq:
				select {
				case dialResp <- rdDialResp{err: fmt.Errorf("no route")}:
				case <-time.After(rdDeadline(10 * time.Second)):
					atomic.AddInt32(&rdLosses, 1)
				}
			case <-left:
				o.Left = true
			case <-time.After(rdDeadline(15 * time.Second)):
				atomic.AddInt32(&rdLosses, 1)
				o.Anomaly = append(o.Anomaly, "the link did not leave the pool after the failed re-dial")
				k = 4
			}
		}
	}
	// barrier: serve() has returned for good; every frame it cut has been pushed to a receive queue, and
	// each produces one Route* call
	if o.Left {
		in := int(p.connB.Node().Info().MessagesIn)
		if !rdWait(rdDeadline(10*time.Second), func() bool { return p.coreB.count() >= in }) {
			o.Anomaly = append(o.Anomaly, fmt.Sprintf("%d frames cut, %d Route* calls", in, p.coreB.count()))
		}
	}
	o.MessagesIn = int(p.connB.Node().Info().MessagesIn)
	o.Dials = int(atomic.LoadInt32(&dials))
	for _, cl := range p.coreB.snapshot() {
		o.Delivered = append(o.Delivered, cl.Val)
	}
	o.Log = p.logB.list()
	return o
}

// reachedFrames: indices of the frames whose bytes reached the receiver completely within one epoch
// (tail + what it read from the socket before the drop), from the observed byte counts
func rdReached(o rdObs) []int {
	offs := make([]int, len(o.Frames)+1)
	for i, f := range o.Frames {
		offs[i+1] = offs[i] + len(f)
	}
	var out []int
	for _, e := range o.Epochs {
		got := e.Tail
		for _, k := range e.Chunks {
			got += k
		}
		for i := range o.Frames {
			if offs[i] >= e.Off && offs[i+1] <= e.Off+got {
				out = append(out, i)
			}
		}
	}
	return out
}

func monitorRd(c rdCase, o rdObs) []string {
	var fails []string
	seen := map[int]int{}
	for _, d := range o.Delivered {
		if d < 0 {
			fails = append(fails, "unknown: a value arrived that was never sent")
			continue
		}
		seen[d]++
	}
	var dup []int
	for d, n := range seen {
		if n > 1 {
			dup = append(dup, d)
		}
	}
	sort.Ints(dup)
	if len(dup) > 0 {
		fails = append(fails, fmt.Sprintf("dup: messages %v delivered more than once (delivered: %v)", dup, o.Delivered))
	}
	for k, pr := range c.Pairs {
		if !pr.Keep {
			continue
		}
		last := -1
		for _, d := range o.Delivered {
			if d >= 0 && c.Msgs[d] == k {
				if d <= last {
					fails = append(fails, fmt.Sprintf("order: pair %d (%s from %d to %d): message %d delivered after message %d (delivered: %v)", k, pr.Kind, pr.From, pr.To, d, last, o.Delivered))
					break
				}
				last = d
			}
		}
	}
	reached := rdReached(o)
	for _, i := range reached {
		if seen[i] == 0 {
			fails = append(fails, fmt.Sprintf("lost: message %d reached the receiver's link completely (tail + socket bytes before the drop) and was not delivered (delivered: %v)", i, o.Delivered))
		}
	}
	inReached := map[int]bool{}
	for _, i := range reached {
		inReached[i] = true
	}
	for d := range seen {
		if !inReached[d] {
			fails = append(fails, fmt.Sprintf("extra: message %d delivered although its frame never reached the receiver completely", d))
		}
	}
	for e, eo := range o.Epochs {
		if eo.BackGot != eo.BackSent {
			fails = append(fails, fmt.Sprintf("back: epoch %d: the receiving node sent %d messages over the link (send returned nil, link up), %d arrived at the peer", e, eo.BackSent, eo.BackGot))
		}
	}
	return fails
}

func coqRd(c rdCase, o rdObs) string {
	var fr, eps, keeps []string
	for _, f := range o.Frames {
		fr = append(fr, coqBytes(f))
	}
	toZ := func(l []int) string {
		z := make([]int64, 0, len(l))
		for _, v := range l {
			z = append(z, int64(v))
		}
		return util.ZList(z)
	}
	for _, e := range o.Epochs {
		eps = append(eps, fmt.Sprintf("mk_repoch %d %d %s %d %d", e.Off, e.Tail, toZ(e.Chunks), e.BackSent, e.BackGot))
	}
	for _, p := range c.Pairs {
		keeps = append(keeps, util.B(p.Keep))
	}
	return fmt.Sprintf("mk_rcase %s %s %s %s %d %s %d %s", util.List(fr), toZ(c.Msgs), util.List(keeps), util.List(eps),
		o.Dials, util.B(o.Left), o.MessagesIn, toZ(o.Delivered))
}

// ---------------------------------------------------------------------------------------
// generator and corpus
// ---------------------------------------------------------------------------------------

func genRdCase(r *rand.Rand, i int) rdCase {
	c := rdCase{PoolCfg: 1 + r.Intn(3), Seed: int64(i)*131 + int64(r.Intn(1000))}
	np := 1 + r.Intn(3)
	for k := 0; k < np; k++ {
		p := c13Pair{}
		p.Kind = []string{"send_pid", "send_pid", "send_pid", "send_name", "send_alias", "call_pid", "call_alias", "response", "send_event"}[r.Intn(9)]
		p.From = 1000 + uint64((i*3+k)%255) + 255*uint64(r.Intn(4))
		p.To = 1000 + uint64((i*7+k*5+11)%255) + 255*uint64(r.Intn(4))
		p.Alias = [3]uint64{genID(r), 1000 + uint64((i*5+k)%255) + 255*uint64(r.Intn(3)), genID(r)}
		p.Name = fmt.Sprintf("srv%d", k)
		p.Keep = r.Intn(10) != 0
		c.Pairs = append(c.Pairs, p)
	}
	n := 6 + r.Intn(11)
	for m := 0; m < n; m++ {
		if r.Intn(3) == 0 {
			c.Msgs = append(c.Msgs, r.Intn(np))
		} else {
			c.Msgs = append(c.Msgs, m%np)
		}
		c.Big = append(c.Big, r.Intn(14) == 0)
	}
	extra := func() int {
		switch r.Intn(9) {
		case 0, 1, 2:
			return 0
		case 3:
			return 1
		case 4:
			return 5 + r.Intn(4) // inside / at the end of the 8-byte header
		case 5:
			return 9 + r.Intn(20)
		case 6:
			return -1
		default:
			return -2
		}
	}
	ne := 1 + r.Intn(4)
	if r.Intn(4) != 0 && ne == 1 {
		ne = 2
	}
	pos := 0
	for e := 0; e < ne; e++ {
		ep := rdEpoch{First: pos, Back: r.Intn(3)}
		ep.Policy = []string{"random", "random", "coalesce", "frames", "byte"}[r.Intn(5)]
		remaining := n - pos
		ep.Frames = r.Intn(imin(remaining, 6) + 1)
		if e == ne-1 && r.Intn(3) != 0 {
			ep.Frames = remaining
		}
		if e > 0 && ep.Frames == 0 && r.Intn(4) != 0 && remaining > 0 {
			ep.Frames = 1 // (refused re-dials are a minority)
		}
		ep.Extra = extra()
		// tail: empty, a few frames, ends inside a frame, the whole epoch
		switch r.Intn(6) {
		case 0:
		case 1:
			ep.TailFrames, ep.TailExtra = ep.Frames, ep.Extra
		default:
			ep.TailFrames = r.Intn(ep.Frames + 1)
			ep.TailExtra = extra()
		}
		if ep.Policy == "byte" {
			// keep the number of one-byte writes small
			if ep.Frames > 2 {
				ep.TailFrames = imax(ep.TailFrames, ep.Frames-2)
			}
		}
		c.Epochs = append(c.Epochs, ep)
		pos += ep.Frames
		if ep.Extra != 0 {
			pos++ // the frame cut by the drop is lost with the link
		}
		pos += []int{0, 0, 0, 1, 2}[r.Intn(5)] // frames written by the sender that never left its side
		if pos > n {
			pos = n
		}
		if e > 0 && ep.Frames == 0 {
			break // a re-dialed link without a frame is a refused join: no further re-dial
		}
	}
	return c
}

func imax(a, b int) int {
	if a > b {
		return a
	}
	return b
}

func corpusRd() []rdCase {
	one := []c13Pair{{Kind: "send_pid", From: 1001, To: 1002, Keep: true}}
	msgs := func(n int) []int { return make([]int, n) }
	// the seeded scenario: Join with tail = m0 m1, m2..m4 over the socket, drop, re-dial returns tail = m5, m6 m7 over the new socket
	c1 := rdCase{PoolCfg: 1, Pairs: one, Msgs: msgs(8), Seed: 1, Note: "tail of two frames, re-dial with a tail of one frame",
		Epochs: []rdEpoch{{First: 0, Frames: 5, TailFrames: 2, Policy: "frames", Back: 1}, {First: 5, Frames: 3, TailFrames: 1, Policy: "frames", Back: 1}}}
	// tails that end inside a frame, drop inside a frame, three epochs
	c2 := rdCase{PoolCfg: 2, Pairs: one, Msgs: msgs(10), Seed: 2, Note: "tails end inside a frame (header and body), the drop cuts a frame",
		Epochs: []rdEpoch{{First: 0, Frames: 3, Extra: -2, TailFrames: 1, TailExtra: 5, Policy: "random"},
			{First: 4, Frames: 2, Extra: 7, TailFrames: 0, TailExtra: -1, Policy: "coalesce", Back: 1},
			{First: 7, Frames: 3, TailFrames: 2, TailExtra: 11, Policy: "byte", Back: 2}}}
	// re-dial with an EMPTY tail after a join with a tail (the old tail must not come back)
	c3 := rdCase{PoolCfg: 1, Pairs: one, Msgs: msgs(6), Seed: 3, Note: "re-dial returns an empty tail",
		Epochs: []rdEpoch{{First: 0, Frames: 3, TailFrames: 3, Policy: "frames"}, {First: 3, Frames: 3, TailFrames: 0, Policy: "coalesce", Back: 1}}}
	// whole epoch in the tail, nothing on the socket; then a refused re-dial (no frame): no third dial
	c4 := rdCase{PoolCfg: 1, Pairs: one, Msgs: msgs(6), Seed: 4, Note: "re-dialed link closed without a frame: refused join, the link leaves the pool",
		Epochs: []rdEpoch{{First: 0, Frames: 2, TailFrames: 2, Policy: "frames"}, {First: 2, Frames: 2, TailFrames: 1, Policy: "frames"}, {First: 4, Frames: 0, Extra: 6, TailExtra: 3, Policy: "coalesce"},
			{First: 5, Frames: 1, Policy: "frames"}}}
	// first link without a frame is re-dialed (redialed == false)
	c5 := rdCase{PoolCfg: 3, Pairs: []c13Pair{{Kind: "send_name", From: 1020, To: 0, Name: "srv0", Keep: true}, {Kind: "send_alias", From: 1021, Alias: [3]uint64{5, 1275, 9}, Keep: true}},
		Msgs: []int{0, 1, 0, 1, 0, 1, 0, 1}, Big: []bool{false, false, true, false, false, false, false, false}, Seed: 5, Note: "first link drops before a frame, two pairs, a frame above 4 KiB split between tail and socket",
		Epochs: []rdEpoch{{First: 0, Frames: 0, Extra: 4, TailExtra: 2, Policy: "coalesce"}, {First: 1, Frames: 4, TailFrames: 1, TailExtra: -2, Policy: "random", Back: 1}, {First: 5, Frames: 3, TailFrames: 3, Policy: "frames", Back: 1}}}
	return []rdCase{c1, c2, c3, c4, c5}
}

func runRedial(n int, outPath, replay string) {
	out := util.NewOut("proto-redial")
	var cases []rdCase
	if replay != "" {
		raw, err := os.ReadFile(replay)
		if err != nil {
			panic(err)
		}
		var w struct {
			Case rdCase `json:"case"`
		}
		if err := json.Unmarshal(raw, &w); err != nil || len(w.Case.Epochs) == 0 {
			var c rdCase
			if err2 := json.Unmarshal(raw, &c); err2 != nil {
				panic(err2)
			}
			w.Case = c
		}
		cases = append(cases, w.Case)
	} else {
		cases = append(cases, corpusRd()...)
		r := util.Rng(1213)
		for i := 0; len(cases) < n; i++ {
			cases = append(cases, genRdCase(r, i))
		}
	}
	for _, c := range cases {
		if len(c.Tags) == 0 {
			c.Tags = []string{"redial"}
		}
		for len(c.Big) < len(c.Msgs) {
			c.Big = append(c.Big, false)
		}
		o := runRdCase(c)
		idx := out.Add(coqRd(c, o), c)
		for _, f := range monitorRd(c, o) {
			out.Monitor = append(out.Monitor, util.MonitorFail{Case: idx, What: f, Tags: c.Tags})
		}
		if os.Getenv("VERIF_RD_DEBUG") != "" {
			fmt.Fprintf(os.Stderr, "case %d: delivered %v dials %d left %v in %d anomalies %v epochs %+v\n", idx, o.Delivered, o.Dials, o.Left, o.MessagesIn, o.Anomaly, o.Epochs)
		}
		out.Stats[fmt.Sprintf("epochs/%d", len(o.Epochs))]++
		nonEmptyTails, partialTails, cutFrames := 0, 0, 0
		offs := map[int]bool{0: true}
		t := 0
		for _, f := range o.Frames {
			t += len(f)
			offs[t] = true
		}
		for _, e := range o.Epochs {
			if e.Tail > 0 {
				nonEmptyTails++
			}
			if !offs[e.Off+e.Tail] {
				partialTails++
			}
			got := e.Tail
			for _, k := range e.Chunks {
				got += k
			}
			if !offs[e.Off+got] {
				cutFrames++
			}
			out.Stats["back-messages"] += e.BackSent
		}
		out.Stats["tails-non-empty"] += nonEmptyTails
		out.Stats["tails-ending-inside-a-frame"] += partialTails
		out.Stats["drops-inside-a-frame"] += cutFrames
		if len(o.Epochs) > 1 && nonEmptyTails > 0 {
			out.Stats["cases-with-redial-and-tail"]++
		}
		if len(o.Epochs) < len(c.Epochs) || (len(o.Epochs) > 1 && o.Dials < len(o.Epochs)) {
			out.Stats["refused-redial"]++
		}
		out.Stats["messages-delivered"] += len(o.Delivered)
		out.Stats["messages-sent"] += len(c.Msgs)
		out.Stats["anomalies"] += len(o.Anomaly)
		for _, b := range c.Big {
			if b {
				out.Stats["big-frames"]++
			}
		}
	}
	out.Stats["runs"] = len(cases)
	if outPath != "" {
		out.Write(outPath)
	} else {
		enc := json.NewEncoder(os.Stdout)
		enc.Encode(out.Monitor)
		enc.Encode(out.Stats)
	}
}
