package main

import (
	"bytes"
	"compress/gzip"
	"compress/lzw"
	"compress/zlib"
	"encoding/binary"
	"encoding/json"
	"errors"
	"fmt"
	"io"
	"math/rand"
	"os"
	"sort"
	"strings"
	"sync"
	"time"

	"ergo.services/ergo/gen"
	"ergo.services/ergo/lib"
	"ergo.services/ergo/net/edf"
	"verifharness/util"
)

// ---------------------------------------------------------------------------------------
// case description (inputs only; enough to re-run the case)
// ---------------------------------------------------------------------------------------

type compSpec struct {
	Enable    bool   `json:"enable"`
	Type      string `json:"type"` // gzip | zlib | lzw
	Level     int    `json:"level"`
	Threshold int    `json:"threshold"`
}

type msgSpec struct {
	Kind      string    `json:"kind"`
	From      uint64    `json:"from"`
	To        uint64    `json:"to"`
	Name      string    `json:"name"`
	Alias     [3]uint64 `json:"alias"`
	Prio      int       `json:"prio"`
	Important bool      `json:"important"`
	Keep      bool      `json:"keep"`
	Ref       [3]uint64 `json:"ref"`
	Code      int       `json:"code"` // response_error: code to send (0..3, 255)
	Comp      compSpec  `json:"comp"`
	PayKind   string    `json:"pay_kind"` // bytes | string | error
	PaySize   int       `json:"pay_size"`
	PayMode   string    `json:"pay_mode"` // random | zeros | text
	PaySeed   int64     `json:"pay_seed"`
	Result    int       `json:"result"` // what the receiving core answers: 0..3, 255 = custom error
}

type c12Case struct {
	Cfg  pairCfg   `json:"cfg"`
	Msgs []msgSpec `json:"msgs"`
	Tags []string  `json:"tags"`
	Note string    `json:"note,omitempty"`
}

var kindCtor = map[string]string{
	"send_pid": "RSendPid", "send_name": "RSendName", "send_alias": "RSendAlias", "send_event": "RSendEvent",
	"send_exit": "RSendExit", "response": "RResponse", "response_error": "RResponseError",
	"call_pid": "RCallPid", "call_name": "RCallName", "call_alias": "RCallAlias",
	"term_pid": "RTermPid", "term_name": "RTermName", "term_alias": "RTermAlias", "term_event": "RTermEvent",
}

var allKinds = []string{"send_pid", "send_name", "send_alias", "send_event", "send_exit", "response", "response_error",
	"call_pid", "call_name", "call_alias", "term_pid", "term_name", "term_alias", "term_event"}

func isErrorKind(k string) bool {
	return k == "send_exit" || strings.HasPrefix(k, "term_")
}
func hasImportant(k string) bool {
	return k == "send_pid" || k == "send_name" || k == "send_alias" || k == "call_pid" || k == "call_name" || k == "call_alias"
}
func hasKeep(k string) bool { // kinds whose order bytes depend on options.KeepNetworkOrder
	return !isErrorKind(k)
}

// ---------------------------------------------------------------------------------------
// values
// ---------------------------------------------------------------------------------------

func customErr(i int) error { return fmt.Errorf("custom failure number %d", i) }

func (m *msgSpec) value(idx int) any {
	r := rand.New(rand.NewSource(m.PaySeed))
	switch m.PayKind {
	case "bool":
		return m.PaySeed%2 == 0 // two bytes of EDF: the shortest value there is
	case "error":
		switch m.PaySize % 4 {
		case 0:
			return gen.TerminateReasonNormal
		case 1:
			return gen.TerminateReasonKill
		case 2:
			return gen.ErrProcessTerminated
		}
		return fmt.Errorf("reason %d of message %d %s", m.PaySeed, idx, strings.Repeat("x", m.PaySize))
	}
	b := make([]byte, m.PaySize)
	switch m.PayMode {
	case "random":
		r.Read(b)
	case "zeros":
		for i := range b {
			b[i] = byte(idx)
		}
	default:
		const words = "the quick brown fox jumps over the lazy dog "
		off := r.Intn(len(words))
		for i := range b {
			b[i] = words[(i+off)%len(words)]
		}
	}
	// make the value unique inside the case
	if len(b) >= 2 {
		b[0] = 'A' + byte(idx%26)
		b[1] = 'a' + byte(idx/26%26)
	}
	if m.PayKind == "string" {
		return string(b)
	}
	return b
}

func edfBytes(v any) []byte {
	buf := lib.TakeBuffer()
	defer lib.ReleaseBuffer(buf)
	if err := edf.Encode(v, buf, edf.Options{Cache: new(sync.Map)}); err != nil {
		panic(err)
	}
	return append([]byte(nil), buf.B...)
}

func resultErr(code int, idx int) error {
	switch code {
	case 0:
		return nil
	case 1:
		return gen.ErrProcessUnknown
	case 2:
		return gen.ErrProcessMailboxFull
	case 3:
		return gen.ErrProcessTerminated
	}
	return customErr(idx)
}

// ---------------------------------------------------------------------------------------
// generator
// ---------------------------------------------------------------------------------------

var boundaryIDs = []uint64{0, 1, 254, 255, 256, 509, 510, 1000, 1020, 1021, 1275, 65535, 65536, 1<<32 - 1, 1 << 32, 1<<63 - 1, 1 << 63, 1<<64 - 1, 1<<64 - 256}

func genID(r *rand.Rand) uint64 {
	switch r.Intn(4) {
	case 0:
		return boundaryIDs[r.Intn(len(boundaryIDs))]
	case 1:
		return 1000 + uint64(r.Intn(2000))
	case 2:
		return uint64(r.Intn(255)) * 255
	}
	return r.Uint64()
}

// sizes around the interesting boundaries: empty, tiny, the pooled buffer (4096) and its growths
func genSize(r *rand.Rand, big bool) int {
	if !big {
		switch r.Intn(5) {
		case 0:
			return r.Intn(3)
		case 1:
			return r.Intn(40)
		case 2:
			return 200 + r.Intn(100)
		default:
			return r.Intn(700)
		}
	}
	switch r.Intn(7) {
	case 0:
		return 4096 - 60 + r.Intn(70)
	case 1:
		return 8192 - 60 + r.Intn(70)
	case 2:
		return 16384 - 60 + r.Intn(70)
	case 3:
		return 5000 + r.Intn(5000)
	case 4:
		return 17000 + r.Intn(3000)
	case 5:
		if r.Intn(4) == 0 {
			return 33000 + r.Intn(500)
		}
	}
	return 3000 + r.Intn(3000)
}

func genName(r *rand.Rand, cache bool) string {
	if cache && r.Intn(2) == 0 {
		return []string{"cached_one", "cached_two", "cached_ev"}[r.Intn(3)]
	}
	switch r.Intn(6) {
	case 0:
		return ""
	case 1:
		return strings.Repeat("n", 255)
	case 2:
		return "x"
	}
	n := 1 + r.Intn(30)
	b := make([]byte, n)
	for i := range b {
		b[i] = "abcdefghijklmnopqrstuvwxyz_0123456789"[r.Intn(37)]
	}
	return string(b)
}

func genC12Case(r *rand.Rand, i int) c12Case {
	c := c12Case{}
	c.Cfg.Pool = 1 + r.Intn(3)
	c.Cfg.Important = r.Intn(8) != 0
	c.Cfg.ANoImp = r.Intn(3) == 0
	c.Cfg.Policy = []string{"byte", "random", "random", "coalesce", "coalesce", "asis"}[r.Intn(6)]
	c.Cfg.Cache = r.Intn(3) == 0
	c.Cfg.Seed = r.Int63n(1 << 40)
	big := r.Intn(11) == 0 // payloads over several growths of the 4 KiB pooled buffer
	if c.Cfg.Policy == "byte" && big {
		c.Cfg.Policy = "random"
	}
	nm := 1 + r.Intn(6)
	if big {
		nm = 2 + r.Intn(3)
	}
	// the size limit: none, or around the sizes that will be sent
	limitMode := r.Intn(4)
	comp := compSpec{}
	if r.Intn(2) == 0 {
		comp.Enable = true
		comp.Type = []string{"gzip", "zlib", "lzw", ""}[r.Intn(4)]
		comp.Level = r.Intn(3)
	}
	var sizes []int
	for k := 0; k < nm; k++ {
		m := msgSpec{}
		m.Kind = allKinds[r.Intn(len(allKinds))]
		if r.Intn(3) == 0 {
			m.Kind = []string{"send_pid", "send_name", "send_alias", "call_pid"}[r.Intn(4)]
		}
		m.From, m.To = genID(r), genID(r)
		m.Alias = [3]uint64{genID(r), genID(r), genID(r)}
		m.Name = genName(r, c.Cfg.Cache)
		m.Prio = r.Intn(3)
		m.Keep = r.Intn(4) != 0
		m.Ref = [3]uint64{r.Uint64(), genID(r), genID(r)}
		if hasImportant(m.Kind) && c.Cfg.Important && r.Intn(2) == 0 {
			m.Important = true
		}
		m.Result = []int{0, 0, 0, 1, 2, 3, 255}[r.Intn(7)]
		m.Comp = comp
		if comp.Enable {
			m.Comp.Threshold = []int{0, 1, 40, 100, 1024, 5000}[r.Intn(6)]
		}
		m.PayKind = []string{"bytes", "string"}[r.Intn(2)]
		m.PayMode = []string{"random", "zeros", "text"}[r.Intn(3)]
		m.PaySeed = r.Int63n(1 << 30)
		m.PaySize = genSize(r, big)
		if isErrorKind(m.Kind) {
			m.PayKind = "error"
			m.PaySize = r.Intn(60)
			m.Comp = compSpec{} // SendExit / SendTerminate* never compress
		}
		if m.Kind == "response_error" {
			m.Code = []int{0, 1, 2, 3, 255}[r.Intn(5)]
			m.PayKind = "error"
			m.PaySize = 3 + 4*r.Intn(10) // custom text
		}
		sizes = append(sizes, m.PaySize)
		c.Msgs = append(c.Msgs, m)
	}
	makeUnique(c.Msgs)
	if limitMode == 0 && r.Intn(2) == 0 {
		// exactly at the limit, one below, one above (uncompressed length of one of the frames)
		k := r.Intn(len(c.Msgs))
		c.Cfg.MaxAB = plainFrameLen(&c.Msgs[k], k, c.Cfg.Cache) + r.Intn(3) - 1
		if c.Cfg.MaxAB < 16 {
			c.Cfg.MaxAB = 16
		}
		return c
	}
	switch limitMode {
	case 0:
		s := sizes[r.Intn(len(sizes))]
		c.Cfg.MaxAB = s + r.Intn(80) // around one of the frames (header + fields are 17..70 bytes)
		if c.Cfg.MaxAB < 64 {
			c.Cfg.MaxAB = 64
		}
	case 1:
		c.Cfg.MaxAB = 64 + r.Intn(40000)
	}
	return c
}

// plainFrameLen: header + fixed fields + EDF payload of the frame a message produces when not compressed.
func plainFrameLen(m *msgSpec, idx int, cache bool) int {
	nameLen := 1 + len(m.Name)
	if cache && cachedNames[gen.Atom(m.Name)] > 0 {
		nameLen = 2
	}
	fixed := map[string]int{"send_pid": 33, "send_name": 25 + nameLen, "send_alias": 49, "send_event": 25 + nameLen, "send_exit": 25,
		"response": 49, "response_error": 50, "call_pid": 49, "call_name": 41 + nameLen, "call_alias": 65,
		"term_pid": 17, "term_name": 9 + nameLen, "term_alias": 33, "term_event": 9 + nameLen}[m.Kind]
	if m.Kind == "response_error" && m.Code != 255 {
		return fixed
	}
	return fixed + len(edfBytes(m.value(idx)))
}

// makeUnique changes payload sizes until no two messages of a case carry equal values (the
// harness recognises a received value by equality with a sent one).
func makeUnique(ms []msgSpec) {
	for i := range ms {
		for tries := 0; tries < 50; tries++ {
			dup := false
			vi := ms[i].value(i)
			for j := 0; j < i; j++ {
				if valueEqual(vi, ms[j].value(j)) {
					dup = true
				}
			}
			if !dup {
				break
			}
			if ms[i].PayKind == "error" {
				ms[i].PaySize = ms[i].PaySize | 3 // custom text, carries the index
				if tries > 0 {
					ms[i].PaySize += 4
				}
			} else {
				ms[i].PaySize = 2 + i + tries
			}
		}
	}
}

// directed cases kept from the defects found while building the harness
func corpusC12() []c12Case {
	imp := func(size int, idx int) msgSpec {
		return msgSpec{Kind: "send_pid", From: 1001, To: 1002, Important: true, Keep: true, Ref: [3]uint64{uint64(0x1111111100000000) + uint64(idx), 0, 0},
			PayKind: "bytes", PayMode: "random", PaySeed: int64(idx + 1), PaySize: size}
	}
	c1 := c12Case{Cfg: pairCfg{Pool: 1, Important: true, Policy: "coalesce", Seed: 5},
		Msgs: []msgSpec{imp(9000, 0), imp(6000, 1), imp(6000, 2)}, Note: "ack ref after buffer release: 9000,6000,6000 coalesced"}
	c2 := c12Case{Cfg: pairCfg{Pool: 1, Important: true, Policy: "coalesce", Seed: 6},
		Msgs: []msgSpec{imp(5000, 0), imp(5000, 1), imp(100, 2), imp(4100, 3)}, Note: "ack ref after buffer release: mixed sizes"}
	nm := msgSpec{Kind: "send_name", From: 1020, Name: "srv", Important: true, Keep: true, Ref: [3]uint64{77, 0, 0}, PayKind: "string", PayMode: "text", PaySize: 7000, PaySeed: 3}
	nm2 := nm
	nm2.Ref = [3]uint64{78, 0, 0}
	nm2.PaySeed = 4
	nm2.Result = 2
	c3 := c12Case{Cfg: pairCfg{Pool: 2, Important: true, Policy: "coalesce", Seed: 7}, Msgs: []msgSpec{nm, nm2, nm}, Note: "important by name, coalesced"}
	c3.Msgs[2].Ref = [3]uint64{79, 0, 0}
	c3.Msgs[2].PaySeed = 9
	ev := msgSpec{Kind: "send_event", From: 1003, Name: "", Keep: true, Ref: [3]uint64{1234567, 0, 0}, PayKind: "bool"}
	c4 := c12Case{Cfg: pairCfg{Pool: 1, Important: true, Policy: "asis", Seed: 8}, Msgs: []msgSpec{ev}, Note: "event with empty name and a two-byte value: shortest event frame (28 bytes = the receiver's guard)"}
	return []c12Case{c1, c2, c3, c4}
}

// ---------------------------------------------------------------------------------------
// execution on the real connection code
// ---------------------------------------------------------------------------------------

type c12Obs struct {
	Rets      []int // 0 ok, 1 too large, 2 other error
	RetTxt    []string
	Payloads  [][]byte // EDF bytes of every value (harness' own encoding)
	ResultPay [][]byte // EDF bytes of the custom error the receiving core answers with
	RawRef0   []uint64 // bytes 17..25 of the frame as found on the wire (kinds where they may be stale)
	TapAB     [][]byte
	ChunksAB  [][]int
	TapBA     [][]byte
	CallsB    []Call
	CallsA    []Call
	ZTable    []zEntry
	LogB      []string
	LogA      []string
	Hung      string
	Ambiguous bool
}

type zEntry struct {
	Type   int
	Inner  []byte
	Stream []byte
}

func compOf(c compSpec) gen.Compression {
	g := gen.Compression{Enable: c.Enable, Level: gen.CompressionLevel(c.Level), Threshold: c.Threshold}
	switch c.Type {
	case "zlib":
		g.Type = gen.CompressionTypeZLIB
	case "lzw":
		g.Type = gen.CompressionTypeLZW
	case "gzip":
		g.Type = gen.CompressionTypeGZIP
	default:
		g.Type = ""
	}
	return g
}

func sendOne(conn gen.Connection, m *msgSpec, v any) error {
	from := gen.PID{Node: nodeA, ID: m.From, Creation: creationA}
	to := gen.PID{Node: nodeB, ID: m.To, Creation: creationB}
	name := gen.ProcessID{Node: nodeB, Name: gen.Atom(m.Name)}
	alias := gen.Alias{Node: nodeB, ID: m.Alias, Creation: creationB}
	o := gen.MessageOptions{Priority: gen.MessagePriority(m.Prio), KeepNetworkOrder: m.Keep, ImportantDelivery: m.Important,
		Compression: compOf(m.Comp), Ref: gen.Ref{Node: nodeA, Creation: creationA, ID: m.Ref}}
	switch m.Kind {
	case "send_pid":
		return conn.SendPID(from, to, o, v)
	case "send_name":
		return conn.SendProcessID(from, name, o, v)
	case "send_alias":
		return conn.SendAlias(from, alias, o, v)
	case "send_event":
		return conn.SendEvent(from, o, gen.MessageEvent{Event: gen.Event{Node: nodeA, Name: gen.Atom(m.Name)}, Timestamp: int64(m.Ref[0]), Message: v})
	case "send_exit":
		return conn.SendExit(from, to, v.(error))
	case "response":
		o.Ref.Node, o.Ref.Creation = nodeB, creationB
		return conn.SendResponse(from, to, o, v)
	case "response_error":
		o.Ref.Node, o.Ref.Creation = nodeB, creationB
		return conn.SendResponseError(from, to, o, responseErrValue(m, v))
	case "call_pid":
		return conn.CallPID(from, to, o, v)
	case "call_name":
		return conn.CallProcessID(from, name, o, v)
	case "call_alias":
		return conn.CallAlias(from, alias, o, v)
	case "term_pid":
		return conn.SendTerminatePID(gen.PID{Node: nodeA, ID: m.To, Creation: creationB}, v.(error))
	case "term_name":
		return conn.SendTerminateProcessID(gen.ProcessID{Node: nodeA, Name: gen.Atom(m.Name)}, v.(error))
	case "term_alias":
		return conn.SendTerminateAlias(gen.Alias{Node: nodeA, ID: m.Alias, Creation: creationB}, v.(error))
	case "term_event":
		return conn.SendTerminateEvent(gen.Event{Node: nodeA, Name: gen.Atom(m.Name)}, v.(error))
	}
	panic("unknown kind " + m.Kind)
}

func responseErrValue(m *msgSpec, v any) error {
	switch m.Code {
	case 0:
		return nil
	case 1:
		return gen.ErrProcessUnknown
	case 2:
		return gen.ErrProcessMailboxFull
	case 3:
		return gen.ErrProcessTerminated
	}
	return v.(error)
}

func runC12Case(c c12Case) (obs c12Obs) {
	p, err := newPair(c.Cfg)
	if err != nil {
		panic(err)
	}
	defer p.close()
	gated := c.Cfg.Policy == "coalesce"
	for i := 0; i < c.Cfg.Pool; i++ {
		if _, err := p.addLink(gated); err != nil {
			panic(err)
		}
	}
	values := make([]any, len(c.Msgs))
	for i := range c.Msgs {
		values[i] = c.Msgs[i].value(i)
		if c.Msgs[i].Kind == "response_error" && c.Msgs[i].Code != 255 {
			obs.Payloads = append(obs.Payloads, nil)
		} else {
			obs.Payloads = append(obs.Payloads, edfBytes(values[i]))
		}
		if c.Msgs[i].Result == 255 {
			obs.ResultPay = append(obs.ResultPay, edfBytes(customErr(i)))
		} else {
			obs.ResultPay = append(obs.ResultPay, nil)
		}
	}
	match := func(v any, kind string) int {
		for i := range values {
			if kindRoute(c.Msgs[i].Kind) == kind && valueEqual(values[i], v) {
				return i
			}
		}
		return -1
	}
	p.coreB.result = func(cl *Call) error {
		cl.Val = match(cl.value, cl.Kind)
		if cl.Kind == "response_error" {
			cl.Val = -1
			if cl.Code == 255 {
				for i := range c.Msgs {
					if e, ok := values[i].(error); ok && c.Msgs[i].Kind == "response_error" && c.Msgs[i].Code == 255 && e.Error() == cl.Err {
						cl.Val = i
					}
				}
			}
			return nil
		}
		if cl.Val >= 0 {
			return resultErr(c.Msgs[cl.Val].Result, cl.Val)
		}
		return nil
	}
	p.coreA.result = func(cl *Call) error {
		cl.Val = -1
		if cl.Kind == "response_error" && cl.Code == 255 {
			for i := range c.Msgs {
				if c.Msgs[i].Result == 255 && customErr(i).Error() == cl.Err {
					cl.Val = i
				}
			}
		}
		return nil
	}

	expectB, expectA := 0, 0
	for i := range c.Msgs {
		m := &c.Msgs[i]
		done := make(chan error, 1)
		go func() {
			defer func() {
				if r := recover(); r != nil {
					done <- fmt.Errorf("panic: %v", r)
				}
			}()
			done <- sendOne(p.connA, m, values[i])
		}()
		var e error
		select {
		case e = <-done:
		case <-time.After(5 * time.Second):
			obs.Hung = fmt.Sprintf("send %d (%s) did not return", i, m.Kind)
			e = errors.New("hung")
		}
		switch {
		case e == nil:
			obs.Rets = append(obs.Rets, 0)
			obs.RetTxt = append(obs.RetTxt, "")
			expectB++
			if m.Important && (strings.HasPrefix(m.Kind, "send_") || m.Result != 0) {
				expectA++
			}
		case e == gen.ErrTooLarge:
			obs.Rets = append(obs.Rets, 1)
			obs.RetTxt = append(obs.RetTxt, e.Error())
		default:
			obs.Rets = append(obs.Rets, 2)
			obs.RetTxt = append(obs.RetTxt, e.Error())
			if strings.HasPrefix(e.Error(), "panic") || e.Error() == "hung" {
				p.poisoned = true
			}
		}
	}
	if gated {
		p.tapsStable(50 * time.Millisecond)
		for _, l := range p.links {
			l.ab.release()
		}
	}
	p.quiesce(expectB, expectA, 3*time.Second)

	for _, l := range p.links {
		t, ch := l.ab.snapshot()
		obs.TapAB = append(obs.TapAB, t)
		obs.ChunksAB = append(obs.ChunksAB, ch)
		t2, _ := l.ba.snapshot()
		obs.TapBA = append(obs.TapBA, t2)
	}
	obs.CallsB = p.coreB.snapshot()
	obs.CallsA = p.coreA.snapshot()
	obs.LogA, obs.LogB = p.logA.list(), p.logB.list()

	// split the taps into frames (by the length field only), look inside compressed frames with the
	// Go standard library, and pick up the bytes the sender left in the optional reference slot
	obs.RawRef0 = make([]uint64, len(c.Msgs))
	for _, t := range obs.TapAB {
		for _, fr := range splitFrames(t) {
			inner := fr
			if len(fr) >= 13 && fr[7] == 200 {
				d, err := stdDecompress(int(fr[8]), fr[13:])
				if err != nil {
					continue
				}
				obs.ZTable = append(obs.ZTable, zEntry{Type: int(fr[8]), Inner: d, Stream: fr[13:]})
				inner = d
			}
			if len(inner) < 26 {
				continue
			}
			switch inner[7] {
			case 101, 102, 103, 104:
				best, bl := -1, -1
				for i := range c.Msgs {
					if typeBytesOf(c.Msgs[i].Kind, inner[7]) && bytes.HasSuffix(inner, obs.Payloads[i]) && len(obs.Payloads[i]) > bl {
						best, bl = i, len(obs.Payloads[i])
					}
				}
				if best >= 0 {
					obs.RawRef0[best] = binary.BigEndian.Uint64(inner[17:25])
				}
			}
		}
	}
	// a message refused after compression left nothing on the wire: learn its compressed form from a
	// second, unlimited connection. The 8 stale bytes of a non-important message differ between the
	// two attempts, so a refusal within a few bytes of the limit cannot be judged: such cases are skipped.
	for i := range c.Msgs {
		m := &c.Msgs[i]
		if obs.Rets[i] != 1 || !m.Comp.Enable {
			continue
		}
		fr := probeFrame(c, m, values[i])
		if fr == nil || len(fr) < 13 || fr[7] != 200 {
			continue
		}
		d, err := stdDecompress(int(fr[8]), fr[13:])
		if err != nil {
			continue
		}
		obs.ZTable = append(obs.ZTable, zEntry{Type: int(fr[8]), Inner: d, Stream: fr[13:]})
		if typeBytesOf(m.Kind, d[7]) && !m.Important && len(d) >= 25 {
			obs.RawRef0[i] = binary.BigEndian.Uint64(d[17:25])
			if diff := len(fr) - c.Cfg.MaxAB; diff > -24 && diff < 24 {
				obs.Ambiguous = true
			}
		}
	}
	return obs
}

func probeFrame(c c12Case, m *msgSpec, v any) []byte {
	p, err := newPair(pairCfg{Pool: 1, Important: c.Cfg.Important, Policy: "asis", Cache: c.Cfg.Cache, Seed: 1})
	if err != nil {
		return nil
	}
	defer p.close()
	if _, err := p.addLink(false); err != nil {
		return nil
	}
	if err := sendOne(p.connA, m, v); err != nil {
		return nil
	}
	p.quiesce(1, 0, time.Second)
	tap, _ := p.links[0].ab.snapshot()
	frs := splitFrames(tap)
	if len(frs) != 1 {
		return nil
	}
	return frs[0]
}

func typeBytesOf(kind string, t byte) bool {
	switch kind {
	case "send_pid":
		return t == 101
	case "send_name":
		return t == 102 || t == 103
	case "send_alias":
		return t == 104
	}
	return false
}

func kindRoute(k string) string { return k }

func splitFrames(t []byte) [][]byte {
	var out [][]byte
	for len(t) >= 8 {
		l := int(binary.BigEndian.Uint32(t[2:6]))
		if l < 8 || l > len(t) {
			break
		}
		out = append(out, t[:l])
		t = t[l:]
	}
	return out
}

func stdDecompress(id int, stream []byte) ([]byte, error) {
	var rd io.Reader
	var err error
	switch id {
	case 100:
		rd = lzw.NewReader(bytes.NewReader(stream), lzw.LSB, 8)
	case 101:
		rd, err = zlib.NewReader(bytes.NewReader(stream))
	case 102:
		rd, err = gzip.NewReader(bytes.NewReader(stream))
	default:
		return nil, fmt.Errorf("unknown compression id %d", id)
	}
	if err != nil {
		return nil, err
	}
	return io.ReadAll(rd)
}

// ---------------------------------------------------------------------------------------
// Go-side monitor: the property stated directly on the observations
// ---------------------------------------------------------------------------------------

func expectedCallB(m *msgSpec, idx int) Call {
	c := Call{Kind: m.Kind, Val: idx}
	switch m.Kind {
	case "send_pid":
		c.From, c.To, c.Prio = m.From, m.To, m.Prio
	case "send_name":
		c.From, c.Name, c.Prio = m.From, m.Name, m.Prio
	case "send_alias":
		c.From, c.Alias, c.Prio = m.From, m.Alias, m.Prio
	case "send_event":
		c.From, c.Name, c.Prio, c.Ref = m.From, m.Name, m.Prio, [3]uint64{m.Ref[0], 0, 0}
	case "send_exit":
		c.From, c.To = m.From, m.To
	case "response":
		c.From, c.To, c.Prio, c.Ref = m.From, m.To, m.Prio, m.Ref
	case "response_error":
		c.From, c.To, c.Prio, c.Ref, c.Code = m.From, m.To, m.Prio, m.Ref, m.Code
		if m.Code != 255 {
			c.Val = -1
		}
	case "call_pid":
		c.From, c.To, c.Prio, c.Ref = m.From, m.To, m.Prio, m.Ref
	case "call_name":
		c.From, c.Name, c.Prio, c.Ref = m.From, m.Name, m.Prio, m.Ref
	case "call_alias":
		c.From, c.Alias, c.Prio, c.Ref = m.From, m.Alias, m.Prio, m.Ref
	case "term_pid":
		c.To = m.To
	case "term_name", "term_event":
		c.Name = m.Name
	case "term_alias":
		c.Alias = m.Alias
	}
	return c
}

func callKey(c Call) string {
	return fmt.Sprintf("%s|%d|%d|%s|%v|%d|%v|%d|%d|%s", c.Kind, c.From, c.To, c.Name, c.Alias, c.Prio, c.Ref, c.Code, c.Val, c.Meta)
}

func monitorC12(c c12Case, o c12Obs, values []any) []string {
	var fails []string
	if o.Hung != "" {
		fails = append(fails, o.Hung)
	}
	var wantB, wantA []string
	for i := range c.Msgs {
		m := &c.Msgs[i]
		if o.Rets[i] == 2 {
			fails = append(fails, fmt.Sprintf("send %d (%s) failed: %s", i, m.Kind, o.RetTxt[i]))
			continue
		}
		if o.Rets[i] != 0 {
			continue
		}
		e := expectedCallB(m, i)
		if isErrorKind(m.Kind) || m.Kind == "response_error" {
			code, txt := codeOf(errValueOf(m, values[i]))
			e.Code, e.Err = code, txt
			if m.Kind != "response_error" {
				// reason errors: compared by value index only
				e.Code, e.Err = 0, ""
			}
		}
		wantB = append(wantB, callKey(e))
		if m.Important {
			send := strings.HasPrefix(m.Kind, "send_")
			if send || m.Result != 0 {
				a := Call{Kind: "response_error", To: m.From, Prio: m.Prio, Code: m.Result, Val: -1}
				if m.Kind == "send_pid" || m.Kind == "call_pid" {
					a.From = m.To
				}
				if send {
					a.Ref = [3]uint64{m.Ref[0], 0, 0}
				} else {
					a.Ref = m.Ref
				}
				if m.Result == 255 {
					a.Val = i
				}
				wantA = append(wantA, callKey(a))
			}
		}
	}
	var gotB, gotA []string
	for _, cl := range o.CallsB {
		k := cl
		if isErrorKind(k.Kind) {
			k.Code, k.Err = 0, ""
		}
		gotB = append(gotB, callKey(k))
	}
	for _, cl := range o.CallsA {
		gotA = append(gotA, callKey(cl))
	}
	fails = append(fails, diffMultiset("receiving node", wantB, gotB)...)
	fails = append(fails, diffMultiset("sending node (acknowledgements)", wantA, gotA)...)
	return fails
}

func errValueOf(m *msgSpec, v any) error {
	if m.Kind == "response_error" {
		return responseErrValue(m, v)
	}
	if e, ok := v.(error); ok {
		return e
	}
	return nil
}

func diffMultiset(where string, want, got []string) []string {
	cnt := map[string]int{}
	for _, w := range want {
		cnt[w]++
	}
	for _, g := range got {
		cnt[g]--
	}
	var keys []string
	for k := range cnt {
		keys = append(keys, k)
	}
	sort.Strings(keys)
	var out []string
	for _, k := range keys {
		if cnt[k] > 0 {
			out = append(out, fmt.Sprintf("%s: expected call missing (x%d): %s", where, cnt[k], k))
		} else if cnt[k] < 0 {
			out = append(out, fmt.Sprintf("%s: unexpected call (x%d): %s", where, -cnt[k], k))
		}
	}
	return out
}

// ---------------------------------------------------------------------------------------
// Coq term of a case
// ---------------------------------------------------------------------------------------

// coqBytes prints a byte string as `pk len [[i; ..]; ..]`: primitive 63-bit integers holding 7 bytes
// each (least significant byte first), at most 200 per inner list.
func coqBytes(b []byte) string {
	var sb strings.Builder
	fmt.Fprintf(&sb, "(pk %d [", len(b))
	n := 0
	for i := 0; i < len(b); i += 7 {
		var v uint64
		for k := 0; k < 7 && i+k < len(b); k++ {
			v |= uint64(b[i+k]) << (8 * uint(k))
		}
		switch {
		case n == 0:
			sb.WriteString("[")
		case n%200 == 0:
			sb.WriteString("]; [")
		default:
			sb.WriteString("; ")
		}
		fmt.Fprintf(&sb, "%d%%uint63", v)
		n++
	}
	if n > 0 {
		sb.WriteString("]")
	}
	sb.WriteString("])")
	return sb.String()
}

func zTriple(a [3]uint64) string {
	return fmt.Sprintf("(%d, %d, %d)", a[0], a[1], a[2])
}

func compID(c compSpec) int {
	switch c.Type {
	case "lzw":
		return 100
	case "zlib":
		return 101
	}
	return 102
}

func coqCall(c Call) string {
	ctor := kindCtor[c.Kind]
	if ctor == "" {
		ctor = "RAny"
	}
	if c.Kind != "response_error" {
		c.Code = 0
	}
	return fmt.Sprintf("mk_ocall %s %d %d %s %s %d %s %d %s", ctor, c.From, c.To, coqBytes([]byte(c.Name)), zTriple(c.Alias), c.Prio, zTriple(c.Ref), c.Code, util.Z(int64(c.Val)))
}

func coqC12(c c12Case, o c12Obs) string {
	var reqs []string
	for i := range c.Msgs {
		m := &c.Msgs[i]
		cache := 0
		if c.Cfg.Cache {
			cache = int(cachedNames[gen.Atom(m.Name)])
		}
		reqs = append(reqs, fmt.Sprintf("mk_sreq %s %d %d %s %d %s %d %s %s %s %d (mk_comp %s %d %d) %s %d %d %s %d",
			kindCtor[m.Kind], m.From, m.To, coqBytes([]byte(m.Name)), cache, zTriple(m.Alias), m.Prio, util.B(m.Important), util.B(m.Keep),
			zTriple(m.Ref), m.Code, util.B(m.Comp.Enable), compID(m.Comp), m.Comp.Threshold, coqBytes(o.Payloads[i]),
			o.RawRef0[i], m.Result, coqBytes(o.ResultPay[i]), o.Rets[i]))
	}
	var zt []string
	for _, z := range o.ZTable {
		zt = append(zt, fmt.Sprintf("(%d, %s, %s)", z.Type, coqBytes(z.Inner), coqBytes(z.Stream)))
	}
	var taps, chunks, tapsBA, cb, ca []string
	for i := range o.TapAB {
		taps = append(taps, coqBytes(o.TapAB[i]))
		var l []int64
		for _, k := range o.ChunksAB[i] {
			l = append(l, int64(k))
		}
		chunks = append(chunks, util.ZList(l))
		tapsBA = append(tapsBA, coqBytes(o.TapBA[i]))
	}
	for _, cl := range o.CallsB {
		cb = append(cb, coqCall(cl))
	}
	for _, cl := range o.CallsA {
		ca = append(ca, coqCall(cl))
	}
	return fmt.Sprintf("mk_pcase %d %d %s %s %s %s %s %s %s %s", c.Cfg.Pool, c.Cfg.MaxAB, util.B(c.Cfg.Important),
		util.List(reqs), util.List(zt), util.List(taps), util.List(chunks), util.List(tapsBA), util.List(cb), util.List(ca))
}

// ---------------------------------------------------------------------------------------
// sub-command
// ---------------------------------------------------------------------------------------

func tagsC12(c c12Case) []string {
	t := []string{"policy-" + c.Cfg.Policy, fmt.Sprintf("pool-%d", c.Cfg.Pool)}
	imp, big := false, false
	for _, m := range c.Msgs {
		imp = imp || m.Important
		big = big || m.PaySize > 4000
	}
	if imp {
		t = append(t, "important")
	}
	if big {
		t = append(t, "tail-over-pooled-buffer")
	}
	return t
}

func runC12(n int, outPath, replay string) {
	out := util.NewOut("proto-c12")
	var cases []c12Case
	if replay != "" {
		cases = append(cases, loadReplayC12(replay))
	} else {
		cases = append(cases, corpusC12()...)
		r := util.Rng(12)
		for i := 0; len(cases) < n; i++ {
			cases = append(cases, genC12Case(r, i))
		}
	}
	for i, c := range cases {
		c.Tags = tagsC12(c)
		o := runC12Case(c)
		if o.Ambiguous {
			out.Stats["skipped/refusal-within-stale-bytes-of-limit"]++
			continue
		}
		values := make([]any, len(c.Msgs))
		for k := range c.Msgs {
			values[k] = c.Msgs[k].value(k)
		}
		idx := out.Add(coqC12(c, o), c)
		for _, f := range monitorC12(c, o, values) {
			out.Monitor = append(out.Monitor, util.MonitorFail{Case: idx, What: f})
		}
		stats(out, c, o)
		_ = i
	}
	out.Stats["runs"] = len(cases)
	if outPath != "" {
		out.Write(outPath)
	} else {
		enc := json.NewEncoder(os.Stdout)
		enc.Encode(out.Monitor)
		enc.Encode(out.Stats)
	}
}

func stats(out *util.Out, c c12Case, o c12Obs) {
	out.Stats["policy/"+c.Cfg.Policy]++
	out.Stats[fmt.Sprintf("pool/%d", c.Cfg.Pool)]++
	if c.Cfg.MaxAB > 0 {
		out.Stats["maxsize/limited"]++
	} else {
		out.Stats["maxsize/unlimited"]++
	}
	for i, m := range c.Msgs {
		out.Stats["kind/"+m.Kind]++
		switch {
		case m.PaySize == 0:
			out.Stats["size/0"]++
		case m.PaySize < 4000:
			out.Stats["size/<4000"]++
		case m.PaySize < 8200:
			out.Stats["size/4000-8200"]++
		case m.PaySize < 16500:
			out.Stats["size/8200-16500"]++
		default:
			out.Stats["size/>16500"]++
		}
		if m.Comp.Enable {
			out.Stats["comp/"+m.Comp.Type+"-requested"]++
		} else {
			out.Stats["comp/off"]++
		}
		if m.Important {
			out.Stats["important"]++
		}
		switch o.Rets[i] {
		case 0:
			out.Stats["ret/ok"]++
		case 1:
			out.Stats["ret/too-large"]++
		default:
			out.Stats["ret/error"]++
		}
	}
	out.Stats["frames/compressed"] += len(o.ZTable)
	for _, ch := range o.ChunksAB {
		out.Stats["chunks"] += len(ch)
	}
}

func loadReplayC12(path string) c12Case {
	raw, err := os.ReadFile(path)
	if err != nil {
		panic(err)
	}
	var w struct {
		Case c12Case `json:"case"`
	}
	if err := json.Unmarshal(raw, &w); err != nil || len(w.Case.Msgs) == 0 {
		var c c12Case
		if err2 := json.Unmarshal(raw, &c); err2 != nil {
			panic(fmt.Sprintf("cannot read replay: %v %v", err, err2))
		}
		return c
	}
	return w.Case
}
