package main

import (
	"fmt"
	"math/rand"
	"net"
	"reflect"
	"sync"
	"time"

	"ergo.services/ergo/gen"
	"ergo.services/ergo/net/handshake"
	"ergo.services/ergo/net/proto"
)

// ---------------------------------------------------------------------------------------
// no-op gen.Log
// ---------------------------------------------------------------------------------------

type nolog struct {
	mu     sync.Mutex
	errors []string
}

func (l *nolog) Level() gen.LogLevel               { return gen.LogLevelError }
func (l *nolog) SetLevel(level gen.LogLevel) error { return nil }
func (l *nolog) Logger() string                    { return "" }
func (l *nolog) SetLogger(name string)             {}
func (l *nolog) Fields() []gen.LogField            { return nil }
func (l *nolog) AddFields(fields ...gen.LogField)  {}
func (l *nolog) DeleteFields(fields ...string)     {}
func (l *nolog) PushFields() int                   { return 0 }
func (l *nolog) PopFields() int                    { return 0 }
func (l *nolog) Trace(format string, args ...any)  {}
func (l *nolog) Debug(format string, args ...any)  {}
func (l *nolog) Info(format string, args ...any)   {}
func (l *nolog) Warning(format string, args ...any) {
	l.add("W:" + fmt.Sprintf(format, args...))
}
func (l *nolog) Error(format string, args ...any) { l.add("E:" + fmt.Sprintf(format, args...)) }
func (l *nolog) Panic(format string, args ...any) { l.add("P:" + fmt.Sprintf(format, args...)) }
func (l *nolog) add(s string) {
	l.mu.Lock()
	if len(s) > 200 {
		s = s[:200]
	}
	l.errors = append(l.errors, s)
	l.mu.Unlock()
}
func (l *nolog) list() []string {
	l.mu.Lock()
	defer l.mu.Unlock()
	return append([]string(nil), l.errors...)
}

// ---------------------------------------------------------------------------------------
// fake gen.Core: records every Route* call made by the receiving side of a connection
// ---------------------------------------------------------------------------------------

// Call is one Route* invocation observed at a fake core (canonical, comparable form).
type Call struct {
	Kind  string    `json:"kind"`
	From  uint64    `json:"from"`
	To    uint64    `json:"to"`
	Name  string    `json:"name"`
	Alias [3]uint64 `json:"alias"`
	Prio  int       `json:"prio"`
	Ref   [3]uint64 `json:"ref"`
	Code  int       `json:"code"` // response error: 0 nil 1 unknown 2 mailbox full 3 terminated 255 other
	Err   string    `json:"err"`
	Val   int       `json:"val"`  // index of the sent message whose value equals the received one, -1 = none
	Meta  string    `json:"meta"` // node names / creations attached to the ids ("" = as expected)

	value any
}

type fakeCore struct {
	gen.Core // nil: any method the connection calls beyond the overridden ones panics (and is noticed)

	name     gen.Atom
	creation int64
	peer     gen.Atom
	peerCre  int64

	mu      sync.Mutex
	calls   []Call
	refc    uint64
	result  func(c *Call) error // answer of Route* (nil func = nil error)
	block   func(c *Call)       // called outside the mutex before recording (used to stall a worker)
	arrived chan struct{}
}

func newFakeCore(name gen.Atom, creation int64, peer gen.Atom, peerCre int64) *fakeCore {
	return &fakeCore{name: name, creation: creation, peer: peer, peerCre: peerCre, arrived: make(chan struct{}, 1<<16)}
}

func (f *fakeCore) record(c Call) error {
	if f.block != nil {
		f.block(&c)
	}
	var err error
	f.mu.Lock()
	if f.result != nil {
		err = f.result(&c)
	}
	f.calls = append(f.calls, c)
	f.mu.Unlock()
	select {
	case f.arrived <- struct{}{}:
	default:
	}
	return err
}

func (f *fakeCore) snapshot() []Call {
	f.mu.Lock()
	defer f.mu.Unlock()
	return append([]Call(nil), f.calls...)
}

func (f *fakeCore) count() int {
	f.mu.Lock()
	defer f.mu.Unlock()
	return len(f.calls)
}

// meta reports any node name / creation that is not the expected one (remote ids must carry the
// peer's name and creation, local ids this node's).
func (f *fakeCore) metaRemotePID(p gen.PID) string {
	if p.Node != f.peer || p.Creation != f.peerCre {
		return fmt.Sprintf("remote pid has %s/%d;", p.Node, p.Creation)
	}
	return ""
}
func (f *fakeCore) metaLocalPID(p gen.PID) string {
	if p.Node != f.name || p.Creation != f.creation {
		return fmt.Sprintf("local pid has %s/%d;", p.Node, p.Creation)
	}
	return ""
}

func codeOf(err error) (int, string) {
	switch err {
	case nil:
		return 0, ""
	case gen.ErrProcessUnknown:
		return 1, ""
	case gen.ErrProcessMailboxFull:
		return 2, ""
	case gen.ErrProcessTerminated:
		return 3, ""
	}
	return 255, err.Error()
}

func (f *fakeCore) RouteSendPID(from gen.PID, to gen.PID, o gen.MessageOptions, m any) error {
	return f.record(Call{Kind: "send_pid", From: from.ID, To: to.ID, Prio: int(o.Priority), Ref: o.Ref.ID, value: m,
		Meta: f.metaRemotePID(from) + f.metaLocalPID(to) + optMeta(o)})
}
func (f *fakeCore) RouteSendProcessID(from gen.PID, to gen.ProcessID, o gen.MessageOptions, m any) error {
	meta := f.metaRemotePID(from) + optMeta(o)
	if to.Node != f.name {
		meta += "processid node " + string(to.Node) + ";"
	}
	return f.record(Call{Kind: "send_name", From: from.ID, Name: string(to.Name), Prio: int(o.Priority), Ref: o.Ref.ID, value: m, Meta: meta})
}
func (f *fakeCore) RouteSendAlias(from gen.PID, to gen.Alias, o gen.MessageOptions, m any) error {
	meta := f.metaRemotePID(from) + optMeta(o)
	if to.Node != f.name || to.Creation != f.creation {
		meta += fmt.Sprintf("alias has %s/%d;", to.Node, to.Creation)
	}
	return f.record(Call{Kind: "send_alias", From: from.ID, Alias: to.ID, Prio: int(o.Priority), Ref: o.Ref.ID, value: m, Meta: meta})
}
func (f *fakeCore) RouteSendEvent(from gen.PID, token gen.Ref, o gen.MessageOptions, m gen.MessageEvent) error {
	meta := f.metaRemotePID(from) + optMeta(o)
	if m.Event.Node != f.peer {
		meta += "event node " + string(m.Event.Node) + ";"
	}
	if token != (gen.Ref{}) {
		meta += "event token set;"
	}
	return f.record(Call{Kind: "send_event", From: from.ID, Name: string(m.Event.Name), Prio: int(o.Priority),
		Ref: [3]uint64{uint64(m.Timestamp), 0, 0}, value: m.Message, Meta: meta})
}
func (f *fakeCore) RouteSendExit(from gen.PID, to gen.PID, reason error) error {
	code, txt := codeOf(reason)
	return f.record(Call{Kind: "send_exit", From: from.ID, To: to.ID, Code: code, Err: txt, value: reason,
		Meta: f.metaRemotePID(from) + f.metaLocalPID(to)})
}
func (f *fakeCore) RouteSendResponse(from gen.PID, to gen.PID, o gen.MessageOptions, m any) error {
	return f.record(Call{Kind: "response", From: from.ID, To: to.ID, Prio: int(o.Priority), Ref: o.Ref.ID, value: m,
		Meta: f.metaRemotePID(from) + f.metaLocalPID(to) + f.metaLocalRef(o.Ref)})
}
func (f *fakeCore) RouteSendResponseError(from gen.PID, to gen.PID, o gen.MessageOptions, err error) error {
	code, txt := codeOf(err)
	return f.record(Call{Kind: "response_error", From: from.ID, To: to.ID, Prio: int(o.Priority), Ref: o.Ref.ID, Code: code, Err: txt,
		Meta: f.metaRemotePID(from) + f.metaLocalPID(to) + f.metaLocalRef(o.Ref), Val: -1})
}
func (f *fakeCore) RouteCallPID(from gen.PID, to gen.PID, o gen.MessageOptions, m any) error {
	return f.record(Call{Kind: "call_pid", From: from.ID, To: to.ID, Prio: int(o.Priority), Ref: o.Ref.ID, value: m,
		Meta: f.metaRemotePID(from) + f.metaLocalPID(to) + f.metaRemoteRef(o.Ref)})
}
func (f *fakeCore) RouteCallProcessID(from gen.PID, to gen.ProcessID, o gen.MessageOptions, m any) error {
	meta := f.metaRemotePID(from) + f.metaRemoteRef(o.Ref)
	if to.Node != f.name {
		meta += "processid node " + string(to.Node) + ";"
	}
	return f.record(Call{Kind: "call_name", From: from.ID, Name: string(to.Name), Prio: int(o.Priority), Ref: o.Ref.ID, value: m, Meta: meta})
}
func (f *fakeCore) RouteCallAlias(from gen.PID, to gen.Alias, o gen.MessageOptions, m any) error {
	meta := f.metaRemotePID(from) + f.metaRemoteRef(o.Ref)
	if to.Node != f.name || to.Creation != f.creation {
		meta += fmt.Sprintf("alias has %s/%d;", to.Node, to.Creation)
	}
	return f.record(Call{Kind: "call_alias", From: from.ID, Alias: to.ID, Prio: int(o.Priority), Ref: o.Ref.ID, value: m, Meta: meta})
}
func (f *fakeCore) RouteTerminatePID(target gen.PID, reason error) error {
	code, txt := codeOf(reason)
	return f.record(Call{Kind: "term_pid", To: target.ID, Code: code, Err: txt, value: reason, Meta: f.metaRemotePID(target)})
}
func (f *fakeCore) RouteTerminateProcessID(target gen.ProcessID, reason error) error {
	code, txt := codeOf(reason)
	meta := ""
	if target.Node != f.peer {
		meta = "processid node " + string(target.Node) + ";"
	}
	return f.record(Call{Kind: "term_name", Name: string(target.Name), Code: code, Err: txt, value: reason, Meta: meta})
}
func (f *fakeCore) RouteTerminateEvent(target gen.Event, reason error) error {
	code, txt := codeOf(reason)
	meta := ""
	if target.Node != f.peer {
		meta = "event node " + string(target.Node) + ";"
	}
	return f.record(Call{Kind: "term_event", Name: string(target.Name), Code: code, Err: txt, value: reason, Meta: meta})
}
func (f *fakeCore) RouteTerminateAlias(target gen.Alias, reason error) error {
	code, txt := codeOf(reason)
	meta := ""
	if target.Node != f.peer || target.Creation != f.peerCre {
		meta = fmt.Sprintf("alias has %s/%d;", target.Node, target.Creation)
	}
	return f.record(Call{Kind: "term_alias", Alias: target.ID, Code: code, Err: txt, value: reason, Meta: meta})
}
func (f *fakeCore) RouteLinkPID(pid gen.PID, target gen.PID) error {
	return f.record(Call{Kind: "link_pid", From: pid.ID, To: target.ID, Meta: f.metaRemotePID(pid) + f.metaLocalPID(target)})
}
func (f *fakeCore) RouteMonitorPID(pid gen.PID, target gen.PID) error {
	return f.record(Call{Kind: "monitor_pid", From: pid.ID, To: target.ID, Meta: f.metaRemotePID(pid) + f.metaLocalPID(target)})
}

func (f *fakeCore) metaLocalRef(r gen.Ref) string {
	if r.Node != f.name || r.Creation != f.creation {
		return fmt.Sprintf("local ref has %s/%d;", r.Node, r.Creation)
	}
	return ""
}
func (f *fakeCore) metaRemoteRef(r gen.Ref) string {
	if r.Node != f.peer || r.Creation != f.peerCre {
		return fmt.Sprintf("remote ref has %s/%d;", r.Node, r.Creation)
	}
	return ""
}
func optMeta(o gen.MessageOptions) string {
	s := ""
	if o.Compression.Enable || o.KeepNetworkOrder || o.ImportantDelivery {
		s += "unexpected options;"
	}
	return s
}

func (f *fakeCore) MakeRef() gen.Ref {
	f.mu.Lock()
	f.refc++
	r := gen.Ref{Node: f.name, Creation: f.creation, ID: [3]uint64{f.refc, 77, 0}}
	f.mu.Unlock()
	return r
}
func (f *fakeCore) Name() gen.Atom                            { return f.name }
func (f *fakeCore) Creation() int64                           { return f.creation }
func (f *fakeCore) PID() gen.PID                              { return gen.PID{Node: f.name, ID: 1, Creation: f.creation} }
func (f *fakeCore) LogLevel() gen.LogLevel                    { return gen.LogLevelError }
func (f *fakeCore) Security() gen.SecurityOptions             { return gen.SecurityOptions{} }
func (f *fakeCore) EnvList() map[gen.Env]any                  { return nil }
func (f *fakeCore) RouteNodeDown(node gen.Atom, reason error) {}

// waitCalls waits until at least n calls were recorded or the timeout expires.
func (f *fakeCore) waitCalls(n int, timeout time.Duration) bool {
	deadline := time.After(timeout)
	for {
		if f.count() >= n {
			return true
		}
		select {
		case <-f.arrived:
		case <-time.After(time.Millisecond):
		case <-deadline:
			return f.count() >= n
		}
	}
}

func valueEqual(a, b any) bool {
	if ea, ok := a.(error); ok {
		eb, ok2 := b.(error)
		if !ok2 {
			return false
		}
		if ea == eb {
			return true
		}
		return ea.Error() == eb.Error()
	}
	return reflect.DeepEqual(a, b)
}

// ---------------------------------------------------------------------------------------
// relay: one direction of one pool link. Bytes written by the sending end are recorded (tap)
// and forwarded in chunks chosen by the policy; the gate can hold a link back.
// ---------------------------------------------------------------------------------------

type relayDir struct {
	mu       sync.Mutex
	cond     *sync.Cond
	pending  []byte
	tap      []byte
	chunks   []int
	gate     bool
	closed   bool
	inflight bool
	policy   string // "byte" | "random" | "coalesce" | "asis" | "frameplus"
	rng      *rand.Rand
	src, dst net.Conn
}

func newRelayDir(src, dst net.Conn, policy string, seed int64, gate bool) *relayDir {
	r := &relayDir{src: src, dst: dst, policy: policy, rng: rand.New(rand.NewSource(seed)), gate: gate}
	r.cond = sync.NewCond(&r.mu)
	go r.reader()
	go r.writer()
	return r
}

func (r *relayDir) reader() {
	tmp := make([]byte, 1<<16)
	for {
		n, err := r.src.Read(tmp)
		r.mu.Lock()
		if n > 0 {
			r.pending = append(r.pending, tmp[:n]...)
			r.tap = append(r.tap, tmp[:n]...)
		}
		if err != nil {
			r.closed = true
		}
		r.cond.Broadcast()
		r.mu.Unlock()
		if err != nil {
			return
		}
	}
}

func (r *relayDir) next(avail int) int {
	switch r.policy {
	case "byte":
		return 1
	case "random":
		switch r.rng.Intn(6) {
		case 0:
			return 1 + r.rng.Intn(imin(avail, 9))
		case 1:
			return 1 + r.rng.Intn(imin(avail, 64))
		case 2:
			return 1 + r.rng.Intn(imin(avail, 5000))
		case 3:
			return 1 + r.rng.Intn(avail)
		case 4:
			return imin(avail, 7+r.rng.Intn(3)) // around the header size
		default:
			return imin(avail, 4090+r.rng.Intn(12)) // around the pooled buffer size
		}
	default: // coalesce, asis
		return avail
	}
}

func (r *relayDir) writer() {
	for {
		r.mu.Lock()
		for (r.gate || len(r.pending) == 0) && !(r.closed && len(r.pending) == 0) {
			if r.closed && r.gate {
				// source closed while gated: nothing more will come; keep holding until released
			}
			r.cond.Wait()
		}
		if len(r.pending) == 0 && r.closed {
			r.mu.Unlock()
			return
		}
		k := r.next(len(r.pending))
		chunk := append([]byte(nil), r.pending[:k]...)
		r.pending = r.pending[k:]
		r.inflight = true
		r.mu.Unlock()

		r.dst.SetWriteDeadline(time.Now().Add(3 * time.Second))
		_, err := r.dst.Write(chunk)

		r.mu.Lock()
		r.inflight = false
		if err == nil {
			r.chunks = append(r.chunks, k)
		} else {
			r.closed = true
			r.pending = nil
		}
		r.cond.Broadcast()
		r.mu.Unlock()
		if err != nil {
			return
		}
	}
}

func (r *relayDir) release() {
	r.mu.Lock()
	r.gate = false
	r.cond.Broadcast()
	r.mu.Unlock()
}
func (r *relayDir) hold() {
	r.mu.Lock()
	r.gate = true
	r.mu.Unlock()
}
func (r *relayDir) idle() bool {
	r.mu.Lock()
	defer r.mu.Unlock()
	return len(r.pending) == 0 && !r.inflight
}
func (r *relayDir) tapLen() int {
	r.mu.Lock()
	defer r.mu.Unlock()
	return len(r.tap)
}
func (r *relayDir) snapshot() (tap []byte, chunks []int) {
	r.mu.Lock()
	defer r.mu.Unlock()
	return append([]byte(nil), r.tap...), append([]int(nil), r.chunks...)
}

// ---------------------------------------------------------------------------------------
// a pair of real proto connections joined through relays
// ---------------------------------------------------------------------------------------

type linkRelay struct {
	ab, ba *relayDir
	a1, a2 net.Conn
	b1, b2 net.Conn
}

type pairCfg struct {
	Pool      int      `json:"pool"`      // configured pool size (both ends)
	MaxAB     int      `json:"max_ab"`    // B's max message size = A's peer max (0 = unlimited)
	Important bool     `json:"important"` // B (the receiver of the traffic) advertises EnableImportantDelivery; A too unless ANoImp
	ANoImp    bool     `json:"a_no_imp,omitempty"` // A advertises EnableImportantDelivery = false: irrelevant for A -> B traffic
	// (A sets the flag by what B announced, B acknowledges by what B itself announced)
	Policy    string   `json:"policy"`    // chunking A->B
	Cache     bool     `json:"cache"`     // atom cache entries for some names
	Seed      int64    `json:"seed"`
	PoolDSN   []string `json:"pool_dsn,omitempty"` // B is the dialing side: addresses its re-dial loop walks through
}

type pair struct {
	cfg   pairCfg
	coreA *fakeCore
	coreB *fakeCore
	logA  *nolog
	logB  *nolog
	connA gen.Connection
	connB gen.Connection
	links []*linkRelay

	poisoned bool // a call into the connection panicked; its locks may be held for ever
}

const (
	nodeA     gen.Atom = "a@x"
	nodeB     gen.Atom = "b@x"
	creationA int64    = 11
	creationB int64    = 22
)

// cached names: name -> cache id (A encodes, B decodes)
var cachedNames = map[gen.Atom]uint16{"cached_one": 300, "cached_two": 2, "cached_ev": 65535}

func newPair(cfg pairCfg) (*pair, error) {
	p := &pair{cfg: cfg}
	p.coreA = newFakeCore(nodeA, creationA, nodeB, creationB)
	p.coreB = newFakeCore(nodeB, creationB, nodeA, creationA)
	p.logA, p.logB = &nolog{}, &nolog{}
	flags := gen.NetworkFlags{Enable: true, EnableImportantDelivery: cfg.Important}
	flagsA := flags
	if cfg.ANoImp {
		flagsA.EnableImportantDelivery = false
	}
	optsA := handshake.ConnectionOptions{PoolSize: cfg.Pool}
	optsB := handshake.ConnectionOptions{PoolSize: cfg.Pool, PoolDSN: cfg.PoolDSN}
	if cfg.Cache {
		enc, dec := &sync.Map{}, &sync.Map{}
		for k, v := range cachedNames {
			enc.Store(k, v)
			dec.Store(v, k)
		}
		optsA.EncodeAtomCache = enc
		optsB.DecodeAtomCache = dec
	}
	var err error
	p.connA, err = proto.Create().NewConnection(p.coreA, gen.HandshakeResult{
		ConnectionID: "cid", Peer: nodeB, PeerCreation: creationB, PeerFlags: flags, NodeFlags: flagsA,
		PeerMaxMessageSize: cfg.MaxAB, NodeMaxMessageSize: 0, Custom: optsA}, p.logA)
	if err != nil {
		return nil, err
	}
	p.connB, err = proto.Create().NewConnection(p.coreB, gen.HandshakeResult{
		ConnectionID: "cid", Peer: nodeA, PeerCreation: creationA, PeerFlags: flagsA, NodeFlags: flags,
		PeerMaxMessageSize: 0, NodeMaxMessageSize: cfg.MaxAB, Custom: optsB}, p.logB)
	if err != nil {
		return nil, err
	}
	return p, nil
}

// addLink joins one more pooled link on both ends. gated: hold the A->B direction.
func (p *pair) addLink(gated bool) (*linkRelay, error) {
	l := &linkRelay{}
	l.a1, l.a2 = net.Pipe()
	l.b1, l.b2 = net.Pipe()
	k := int64(len(p.links))
	l.ab = newRelayDir(l.a2, l.b2, p.cfg.Policy, p.cfg.Seed*31+k, gated)
	l.ba = newRelayDir(l.b2, l.a2, "asis", p.cfg.Seed*37+k, false)
	if err := p.connA.Join(l.a1, "cid", nil, nil); err != nil {
		return nil, err
	}
	if err := p.connB.Join(l.b1, "cid", nil, nil); err != nil {
		return nil, err
	}
	p.links = append(p.links, l)
	return l, nil
}

func (p *pair) close() {
	if !p.poisoned {
		// (after a panic inside send() the pool lock is never released: Terminate would block for ever)
		p.connA.Terminate(nil)
		p.connB.Terminate(nil)
	}
	for _, l := range p.links {
		l.a1.Close()
		l.a2.Close()
		l.b1.Close()
		l.b2.Close()
		l.ab.release()
		l.ba.release()
	}
}

// settle waits until the taps stopped growing and the relays forwarded everything.
func (p *pair) tapsStable(d time.Duration) {
	last := -1
	stable := 0
	deadline := time.Now().Add(d)
	for time.Now().Before(deadline) {
		tot := 0
		for _, l := range p.links {
			tot += l.ab.tapLen() + l.ba.tapLen()
		}
		if tot == last {
			stable++
			if stable >= 3 {
				return
			}
		} else {
			stable = 0
			last = tot
		}
		time.Sleep(500 * time.Microsecond)
	}
}

func (p *pair) relaysIdle() bool {
	for _, l := range p.links {
		if !l.ab.idle() || !l.ba.idle() {
			return false
		}
	}
	return true
}

// quiesce: wait for n calls at B (and m at A), then until nothing moves any more.
func (p *pair) quiesce(nB, nA int, timeout time.Duration) {
	p.coreB.waitCalls(nB, timeout)
	p.coreA.waitCalls(nA, timeout)
	for i := 0; i < 200; i++ {
		p.tapsStable(20 * time.Millisecond)
		if p.relaysIdle() {
			cb, ca := p.coreB.count(), p.coreA.count()
			time.Sleep(time.Millisecond)
			p.tapsStable(10 * time.Millisecond)
			if p.relaysIdle() && cb == p.coreB.count() && ca == p.coreA.count() {
				return
			}
		}
		time.Sleep(time.Millisecond)
	}
}

func imin(a, b int) int {
	if a < b {
		return a
	}
	return b
}
