package main

import (
	"bytes"
	"encoding/json"
	"fmt"
	"math/rand"
	"net"
	"os"
	"sort"
	"strings"
	"sync/atomic"
	"time"

	"ergo.services/ergo/gen"
	"verifharness/util"
)

// ---------------------------------------------------------------------------------------
// C13: order of delivery between pairs of processes over gated pool links
// ---------------------------------------------------------------------------------------

type c13Pair struct {
	Kind  string    `json:"kind"` // send_pid | send_name | send_alias | call_pid | call_alias | response | send_event
	From  uint64    `json:"from"`
	To    uint64    `json:"to"`
	Alias [3]uint64 `json:"alias"`
	Name  string    `json:"name"`
	Keep  bool      `json:"keep"`
	Comp  compSpec  `json:"comp"`           // compression of the sender: its large messages travel as Z frames, the small ones plain
	Imp   bool      `json:"imp,omitempty"`  // sent with the important-delivery flag (the order bytes must not depend on it)
	Huge  bool      `json:"huge,omitempty"` // every second message of the pair is larger than 64 KiB (one frame that does not fit any write buffer)
}

type c13Op struct {
	Op   string `json:"op"` // send | join | drop | release
	Pair int    `json:"pair,omitempty"`
	Link int    `json:"link,omitempty"`
}

type c13Case struct {
	PoolCfg int       `json:"pool_cfg"` // configured pool size: the receiver has 4*PoolCfg decode queues
	Pool    int       `json:"pool"`     // links joined before the first message
	Pairs   []c13Pair `json:"pairs"`
	Ops     []c13Op   `json:"ops"`
	Tags    []string  `json:"tags"`
	Note    string    `json:"note,omitempty"`
}

type c13Obs struct {
	Links              []int // link (by join index) whose tap holds the frame of send k, -1 = not found
	Orders             []int // byte 6 of that frame
	PoolLens           []int
	Delivered          []int // global send index in order of the Route* calls at the receiver, -1 = unknown value
	Lost               int
	ZFrames            int
	Log                []string
	SendErr            []string
	OpenAfterTerminate []int // links A left open when it terminated the connection
}

// safeSend: a panic inside the connection code is an observation, not a crash of the harness
func safeSend(conn gen.Connection, m *msgSpec, v any) (err error) {
	defer func() {
		if r := recover(); r != nil {
			err = fmt.Errorf("panic: %v", r)
		}
	}()
	return sendOne(conn, m, v)
}

// closeNotify tells when the connection code itself closed the link (serve() returned).
type closeNotify struct {
	net.Conn
	closed *atomic.Bool
}

func (c closeNotify) Close() error {
	c.closed.Store(true)
	return c.Conn.Close()
}

func genC13Case(r *rand.Rand, i int) c13Case {
	c := c13Case{}
	c.PoolCfg = 1 + r.Intn(3)
	c.Pool = c.PoolCfg
	scenario := "constant"
	switch r.Intn(10) {
	case 0, 1:
		scenario = "grow"
	case 2:
		scenario = "drop"
	}
	if i%8 == 7 {
		scenario = "grow"
	}
	if scenario == "grow" {
		if c.PoolCfg == 1 {
			c.PoolCfg = 2 + r.Intn(2)
		}
		c.Pool = 1 + r.Intn(c.PoolCfg-1)
	}
	if scenario == "drop" && c.PoolCfg == 1 {
		c.PoolCfg, c.Pool = 2, 2
	}
	np := 1 + r.Intn(3)
	for k := 0; k < np; k++ {
		p := c13Pair{}
		p.Kind = []string{"send_pid", "send_pid", "send_pid", "send_name", "send_alias", "call_pid", "call_alias", "response", "send_event"}[r.Intn(9)]
		// every residue mod 255 on both sides: walk through them with the case number, plus random ones
		switch r.Intn(3) {
		case 0:
			p.From = 1000 + uint64((i*3+k)%255) + 255*uint64(r.Intn(4))
			p.To = 1000 + uint64((i*7+k*5+11)%255) + 255*uint64(r.Intn(4))
		case 1:
			p.From, p.To = genID(r), genID(r)
		default:
			p.From = uint64(r.Intn(255))*255 + uint64(r.Intn(2))*uint64((i+k)%255)
			p.To = uint64(1+r.Intn(8))*255 + uint64(r.Intn(2))*uint64((i+2*k)%255)
		}
		p.Alias = [3]uint64{genID(r), 1000 + uint64((i*5+k)%255) + 255*uint64(r.Intn(3)), genID(r)}
		p.Name = fmt.Sprintf("srv%d", k)
		p.Keep = r.Intn(12) != 0
		p.Imp = r.Intn(3) == 0 && (p.Kind == "send_pid" || p.Kind == "send_name" || p.Kind == "send_alias" || p.Kind == "call_pid" || p.Kind == "call_alias")
		if r.Intn(3) == 0 {
			p.Comp = compSpec{Enable: true, Type: []string{"gzip", "zlib", "lzw"}[r.Intn(3)], Level: r.Intn(3), Threshold: 1024}
		}
		c.Pairs = append(c.Pairs, p)
	}
	n := 4 + r.Intn(6)
	for s := 0; s < n; s++ {
		for k := range c.Pairs {
			c.Ops = append(c.Ops, c13Op{Op: "send", Pair: k})
		}
	}
	if scenario == "constant" && i%10 == 5 {
		// small frames followed at once by frames larger than 64 KiB, same ordered pair, nothing held back:
		// whatever buffers the link's writer keeps, the bytes must leave in the order of the Write calls
		c.Pairs = []c13Pair{{Kind: "send_pid", From: 1000 + uint64(i%250), To: 2000 + uint64(i%97), Keep: true, Huge: true}}
		c.Ops = nil
		for l := 0; l < c.Pool; l++ {
			c.Ops = append(c.Ops, c13Op{Op: "release", Link: l})
		}
		for s := 0; s < 40; s++ {
			c.Ops = append(c.Ops, c13Op{Op: "send", Pair: 0})
		}
		c.Tags = append(c.Tags, "constant-pool", "huge-frames")
		return c
	}
	nops := len(c.Ops)
	switch scenario {
	case "grow":
		at := 1 + r.Intn(nops-1)
		ops := append([]c13Op{}, c.Ops[:at]...)
		ops = append(ops, c13Op{Op: "join"})
		ops = append(ops, c.Ops[at:]...)
		c.Ops = ops
		c.Tags = append(c.Tags, "pool-grows-midstream")
	case "drop":
		// release one link, let it drain, drop it, go on sending
		d := r.Intn(c.Pool)
		at := 1 + r.Intn(nops-1)
		ops := append([]c13Op{}, c.Ops[:at]...)
		ops = append(ops, c13Op{Op: "release", Link: d}, c13Op{Op: "drop", Link: d})
		ops = append(ops, c.Ops[at:]...)
		c.Ops = ops
		c.Tags = append(c.Tags, "pool-shrinks-midstream")
	}
	// release order of the links at the end: reverse (link 0 last) most of the time
	total := c.Pool
	if scenario == "grow" {
		total++
	}
	perm := r.Perm(total)
	if r.Intn(3) != 0 {
		for k := 0; k < total; k++ {
			perm[k] = total - 1 - k
		}
	}
	for _, l := range perm {
		c.Ops = append(c.Ops, c13Op{Op: "release", Link: l})
	}
	return c
}

func corpusC13() []c13Case {
	mk := func(from, to uint64, pool int, note string) c13Case {
		c := c13Case{PoolCfg: pool, Pool: pool, Pairs: []c13Pair{{Kind: "send_pid", From: from, To: to, Keep: true}}, Note: note}
		for s := 0; s < 6; s++ {
			c.Ops = append(c.Ops, c13Op{Op: "send", Pair: 0})
		}
		for l := pool - 1; l >= 0; l-- {
			c.Ops = append(c.Ops, c13Op{Op: "release", Link: l})
		}
		return c
	}
	c1 := mk(1020, 1021, 2, "sender id multiple of 255: order byte 0 used to mean round robin over the links")
	c2 := mk(1021, 1020, 2, "receiver id multiple of 255: order byte 0 used to mean round robin over the decode queues")
	c3 := mk(255*7, 255*9, 3, "both ids multiples of 255")
	g := c13Case{PoolCfg: 2, Pool: 1, Pairs: []c13Pair{{Kind: "send_pid", From: 1001, To: 1002, Keep: true}}, Tags: []string{"pool-grows-midstream"},
		Note: "second link joins after three messages; link 1 released first"}
	for s := 0; s < 6; s++ {
		if s == 3 {
			g.Ops = append(g.Ops, c13Op{Op: "join"})
		}
		g.Ops = append(g.Ops, c13Op{Op: "send", Pair: 0})
	}
	g.Ops = append(g.Ops, c13Op{Op: "release", Link: 1}, c13Op{Op: "release", Link: 0})
	z := mk(1003, 1009, 2, "large messages compressed, small ones plain: both must select the receiver's queue by the receiver id")
	z.Pairs[0].Comp = compSpec{Enable: true, Type: "gzip", Threshold: 1024}
	return []c13Case{c1, c2, c3, g, z}
}

func c13Value(k, seq int, big bool) string {
	v := fmt.Sprintf("pair-%d-seq-%d-%s", k, seq, strings.Repeat("z", (seq*37+k*11)%90))
	if big {
		// above the compression threshold: this one is sent as a compressed frame
		v += strings.Repeat(fmt.Sprintf("-payload%d", seq), 180+seq*7)
	}
	return v
}

func runC13Case(c c13Case) (o c13Obs) {
	p, err := newPair(pairCfg{Pool: c.PoolCfg, Important: true, Policy: "random", Seed: int64(len(c.Ops))*7919 + int64(c.Pool)})
	if err != nil {
		panic(err)
	}
	defer p.close()
	var closedByConn []*atomic.Bool
	join := func() {
		// like pair.addLink, with a close notification on A's end
		if _, err := p.addLink(true); err != nil {
			panic(err)
		}
		closedByConn = append(closedByConn, &atomic.Bool{})
	}
	for i := 0; i < c.Pool; i++ {
		join()
	}
	poolLen := c.Pool
	var sent []string
	hugeSent := map[int]bool{}
	var sentPair []int
	seqs := make([]int, len(c.Pairs))
	p.coreB.result = func(cl *Call) error {
		cl.Val = -1
		s, ok := cl.value.(string)
		if b, isb := cl.value.([]byte); isb {
			s, ok = string(b), true
		}
		if ok {
			for i := range sent {
				if sent[i] == s {
					cl.Val = i
				}
			}
		}
		return nil
	}
	released := map[int]bool{}
	expect := 0
	onLink := map[int]int{} // sends are attributed to links only after the run; count deliveries by waiting for quiescence
	_ = onLink
	for _, op := range c.Ops {
		if p.poisoned {
			break
		}
		switch op.Op {
		case "send":
			pr := &c.Pairs[op.Pair]
			v := c13Value(op.Pair, seqs[op.Pair], pr.Comp.Enable && (seqs[op.Pair]+op.Pair)%2 == 0)
			var payload any = v
			if pr.Huge && seqs[op.Pair]%2 == 1 {
				v += strings.Repeat("h", 70000+seqs[op.Pair])
				payload = []byte(v) // a string may not be longer than 65535 bytes
				hugeSent[len(sent)] = true
			}
			seqs[op.Pair]++
			m := msgSpec{Kind: pr.Kind, From: pr.From, To: pr.To, Alias: pr.Alias, Name: pr.Name, Keep: pr.Keep, Important: pr.Imp, Comp: pr.Comp, Ref: [3]uint64{uint64(len(sent)) + 1, 2, 3}}
			sent = append(sent, v)
			sentPair = append(sentPair, op.Pair)
			o.PoolLens = append(o.PoolLens, poolLen)
			if err := safeSend(p.connA, &m, payload); err != nil {
				o.SendErr = append(o.SendErr, fmt.Sprintf("send %d (%s from %d) failed: %v", len(sent)-1, pr.Kind, pr.From, err))
				if strings.HasPrefix(err.Error(), "panic") {
					p.poisoned = true
				}
			} else {
				expect++
			}
		case "join":
			join()
			poolLen++
		case "release":
			if op.Link < len(p.links) && !released[op.Link] {
				released[op.Link] = true
				waitAllTapped(p, expect)
				p.tapsStable(30 * time.Millisecond)
				want := p.coreB.count() + heldFrames(p, op.Link)
				p.links[op.Link].ab.release()
				waitRelayDrained(p, op.Link, want)
			}
		case "terminate":
			// A terminates the connection: every pooled link that was not lost before must be closed by A
			// (otherwise the peer never sees the connection go down). Probed from the relay's end of A's pipe.
			dropped := map[int]bool{}
			for _, q := range c.Ops {
				if q.Op == "drop" {
					dropped[q.Link] = true
				}
			}
			p.connA.Terminate(nil)
			time.Sleep(3 * time.Millisecond)
			for i, l := range p.links {
				if dropped[i] {
					continue
				}
				l.a2.SetWriteDeadline(time.Now().Add(60 * time.Millisecond))
				_, err := l.a2.Write([]byte{0})
				if err == nil || !strings.Contains(err.Error(), "closed pipe") {
					o.OpenAfterTerminate = append(o.OpenAfterTerminate, i)
				}
			}
		case "quiesce":
			// everything sent so far has left the sender, crossed the relays and been handled
			waitAllTapped(p, expect)
			p.quiesce(expect, 0, 2*time.Second)
		case "drop":
			if op.Link < len(p.links) {
				l := p.links[op.Link]
				l.a2.Close()
				l.b2.Close()
				// the connection notices the closed link in serve() and removes it from the pool
				time.Sleep(8 * time.Millisecond)
				poolLen--
			}
		}
	}
	for i := range p.links {
		if !released[i] {
			waitAllTapped(p, expect)
			p.tapsStable(30 * time.Millisecond)
			want := p.coreB.count() + heldFrames(p, i)
			p.links[i].ab.release()
			waitRelayDrained(p, i, want)
		}
	}
	p.quiesce(expect, 0, 2*time.Second)

	// attribute every send to the link whose tap holds its frame
	o.Links = make([]int, len(sent))
	o.Orders = make([]int, len(sent))
	for i := range o.Links {
		o.Links[i], o.Orders[i] = -1, -1
	}
	for li, l := range p.links {
		tap, _ := l.ab.snapshot()
		for _, fr := range splitFrames(tap) {
			inner := fr
			if len(fr) >= 13 && fr[7] == 200 { // compressed frame: the order byte is in the outer header
				d, err := stdDecompress(int(fr[8]), fr[13:])
				if err != nil {
					continue
				}
				inner = d
				o.ZFrames++
			}
			for i, v := range sent {
				var val any = v
				if hugeSent[i] {
					val = []byte(v)
				}
				if bytes.HasSuffix(inner, edfBytes(val)) {
					o.Links[i] = li
					o.Orders[i] = int(fr[6])
				}
			}
		}
	}
	for _, cl := range p.coreB.snapshot() {
		o.Delivered = append(o.Delivered, cl.Val)
	}
	o.Lost = len(sent) - len(o.Delivered)
	o.Log = append(o.Log, p.logB.list()...)
	_ = sentPair
	return o
}

// waitRelayDrained waits until the released link forwarded everything and the receiver handled it:
// every frame recorded on the link's tap must have produced its Route* call at the receiver (want = calls
// before the release + frames on the tap that were still held). Generous limits: on a loaded machine the
// receiving goroutines may be late by hundreds of milliseconds, and going on too early would let the next
// link's frames overtake (a property of the harness, not of the code).
func waitRelayDrained(p *pair, link int, want int) {
	l := p.links[link]
	deadline := time.Now().Add(10 * time.Second)
	for time.Now().Before(deadline) {
		if l.ab.idle() {
			break
		}
		time.Sleep(200 * time.Microsecond)
	}
	for time.Now().Before(deadline) {
		if p.coreB.count() >= want {
			break
		}
		time.Sleep(200 * time.Microsecond)
	}
	// deliveries of this link: wait until the number of calls is stable
	last, stable := -1, 0
	for i := 0; i < 400 && stable < 4; i++ {
		n := p.coreB.count()
		if n == last {
			stable++
		} else {
			stable, last = 0, n
		}
		time.Sleep(300 * time.Microsecond)
	}
}

// waitAllTapped: every frame sent so far has left the sender's flusher and is recorded on some link's tap.
// (The flusher writes after a timer; "the taps stopped growing for a moment" is not enough: a timer that
// fires 10 ms late would let a link be released - and declared drained - before its frames arrived.)
func waitAllTapped(p *pair, frames int) {
	deadline := time.Now().Add(10 * time.Second)
	for time.Now().Before(deadline) {
		n := 0
		for li := range p.links {
			n += heldFrames(p, li)
		}
		if n >= frames {
			return
		}
		time.Sleep(200 * time.Microsecond)
	}
}

// heldFrames: complete frames on the link's tap (A to B) - the release lets them through
func heldFrames(p *pair, link int) int {
	tap, _ := p.links[link].ab.snapshot()
	return len(splitFrames(tap))
}

func monitorC13(c c13Case, o c13Obs) []string {
	var fails []string
	// per pair: the delivered sequence must be the sent sequence
	nsend := 0
	pairOf := []int{}
	for _, op := range c.Ops {
		if op.Op == "send" {
			pairOf = append(pairOf, op.Pair)
			nsend++
		}
	}
	for k, pr := range c.Pairs {
		if !pr.Keep {
			continue
		}
		var want, got []int
		for i := 0; i < nsend; i++ {
			if pairOf[i] == k {
				want = append(want, i)
			}
		}
		for _, d := range o.Delivered {
			if d >= 0 && pairOf[d] == k {
				got = append(got, d)
			}
		}
		if fmt.Sprint(want) != fmt.Sprint(got) {
			// the same messages in another order (FIFO), or something lost / doubled (integrity)
			kind := "[integrity] "
			if len(want) == len(got) {
				sorted := append([]int(nil), got...)
				sort.Ints(sorted)
				if fmt.Sprint(sorted) == fmt.Sprint(want) {
					kind = "[fifo-order] "
				}
			}
			fails = append(fails, kind+fmt.Sprintf("pair %d (%s from %d to %d/%v): sent in order %v, delivered %v", k, pr.Kind, pr.From, pr.To, pr.Alias[1], want, got))
		}
	}
	for _, d := range o.Delivered {
		if d < 0 {
			fails = append(fails, "a value arrived that was never sent")
		}
	}
	fails = append(fails, o.SendErr...)
	return fails
}

func coqC13(c c13Case, o c13Obs) string {
	var pairs, ops []string
	for _, p := range c.Pairs {
		pairs = append(pairs, fmt.Sprintf("mk_opair %s %d %d %d %s", kindCtor[p.Kind], p.From, p.To, p.Alias[1], util.B(p.Keep)))
	}
	for _, op := range c.Ops {
		switch op.Op {
		case "send":
			ops = append(ops, fmt.Sprintf("OSend %d", op.Pair))
		case "join":
			ops = append(ops, "OJoin")
		case "drop":
			ops = append(ops, fmt.Sprintf("ODrop %d", op.Link))
		case "release":
			ops = append(ops, fmt.Sprintf("ORelease %d", op.Link))
		}
	}
	toZ := func(l []int) string {
		var z []int64
		for _, v := range l {
			z = append(z, int64(v))
		}
		return util.ZList(z)
	}
	return fmt.Sprintf("mk_ocase %d %d %s %s %s %s %s", c.PoolCfg*4, c.Pool, util.List(pairs), util.List(ops), toZ(o.Links), toZ(o.Orders), toZ(o.Delivered))
}

func runC13(n int, outPath, replay string) {
	out := util.NewOut("proto-c13")
	var cases []c13Case
	if replay != "" {
		raw, err := os.ReadFile(replay)
		if err != nil {
			panic(err)
		}
		var w struct {
			Case c13Case `json:"case"`
		}
		if err := json.Unmarshal(raw, &w); err != nil || len(w.Case.Ops) == 0 {
			var c c13Case
			if err2 := json.Unmarshal(raw, &c); err2 != nil {
				panic(err2)
			}
			w.Case = c
		}
		cases = append(cases, w.Case)
		// development aid: VERIF_C13_REPEAT=n runs the replayed case n times and prints the distribution of delivery orders
		if rep := os.Getenv("VERIF_C13_REPEAT"); rep != "" {
			var n int
			fmt.Sscanf(rep, "%d", &n)
			dist := map[string]int{}
			for i := 0; i < n; i++ {
				o := runC13Case(w.Case)
				dist[fmt.Sprint(o.Delivered, o.Links)]++
			}
			for k, v := range dist {
				fmt.Println(v, k)
			}
			return
		}
	} else {
		cases = append(cases, corpusC13()...)
		r := util.Rng(13)
		for i := 0; len(cases) < n; i++ {
			cases = append(cases, genC13Case(r, i))
		}
	}
	resFrom, resTo := map[uint64]bool{}, map[uint64]bool{}
	for _, c := range cases {
		if len(c.Tags) == 0 {
			c.Tags = []string{"constant-pool"}
		}
		o := runC13Case(c)
		idx := out.Add(coqC13(c, o), c)
		for _, f := range monitorC13(c, o) {
			mf := util.MonitorFail{Case: idx, What: f, Tags: []string{"integrity"}}
			if strings.HasPrefix(f, "[fifo-order] ") {
				mf.Tags = []string{"fifo-order"}
			}
			out.Monitor = append(out.Monitor, mf)
		}
		out.Stats[fmt.Sprintf("pool/%d", c.Pool)]++
		sc := "constant-pool"
		for _, t := range c.Tags {
			sc = t
		}
		out.Stats["scenario/"+sc]++
		for _, p := range c.Pairs {
			out.Stats["kind/"+p.Kind]++
			resFrom[p.From%255] = true
			resTo[p.To%255] = true
			if p.From%255 == 0 {
				out.Stats["from-multiple-of-255"]++
			}
			if p.To%255 == 0 {
				out.Stats["to-multiple-of-255"]++
			}
			if !p.Keep {
				out.Stats["keep-order-off"]++
			}
			if p.Imp {
				out.Stats["important-delivery"]++
			}
			if p.Comp.Enable {
				out.Stats["pairs-mixing-compressed-and-plain"]++
			}
		}
		out.Stats["messages"] += len(o.Delivered)
		out.Stats["compressed-frames"] += o.ZFrames
		out.Stats["lost"] += o.Lost
	}
	out.Stats["residues-from"] = len(resFrom)
	out.Stats["residues-to"] = len(resTo)
	out.Stats["runs"] = len(cases)
	if outPath != "" {
		out.Write(outPath)
	} else {
		enc := json.NewEncoder(os.Stdout)
		enc.Encode(out.Monitor)
		enc.Encode(out.Stats)
	}
}

var _ = gen.Atom("")
