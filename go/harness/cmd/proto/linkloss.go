package main

// C12, family "linkloss": a pooled TCP link is lost while the connection stays up (no dial function:
// nobody re-dials it, both sides remove the link from their pool). No link is gated, the stream is
// quiescent when the link is cut, so no frame is in flight on it: every message sent before AND
// after the loss must be delivered exactly once, whichever slot of the pool the lost link occupied
// and whichever slot send() picks afterwards (round robin for unordered senders, order % len for
// ordered ones). The links and order bytes chosen are compared with the model of Join / loss / send()
// (pool_drop: pool[i] = pool[0]; pool = pool[1:]) in Coq (corr_links).

import (
	"encoding/json"
	"fmt"
	"math/rand"
	"os"

	"verifharness/util"
)

func genLinkLoss(r *rand.Rand, i int) c13Case {
	c := c13Case{Tags: []string{"linkloss"}}
	c.PoolCfg = 2 + r.Intn(3)
	c.Pool = c.PoolCfg
	np := 2 + r.Intn(3)
	for k := 0; k < np; k++ {
		p := c13Pair{Kind: []string{"send_pid", "send_pid", "send_name", "send_alias", "call_pid", "send_event"}[r.Intn(6)]}
		// walk through the residues so that every pool slot is selected by some ordered sender
		p.From = 1000 + uint64((i*5+k*3)%255) + 255*uint64(r.Intn(3))
		p.To = 1000 + uint64((i*7+k*5+11)%255) + 255*uint64(r.Intn(3))
		p.Alias = [3]uint64{genID(r), 1000 + uint64((i*5+k)%255), genID(r)}
		p.Name = fmt.Sprintf("srv%d", k)
		p.Keep = k%2 == 0 || r.Intn(3) == 0 // ordered and unordered (round robin) senders in every case
		c.Pairs = append(c.Pairs, p)
	}
	// nothing is held back
	for l := 0; l < c.Pool; l++ {
		c.Ops = append(c.Ops, c13Op{Op: "release", Link: l})
	}
	sends := func(rounds int) {
		for s := 0; s < rounds; s++ {
			for k := range c.Pairs {
				c.Ops = append(c.Ops, c13Op{Op: "send", Pair: k})
			}
		}
	}
	sends(1 + r.Intn(2))
	// lose one link (any slot, most often not the first), possibly a second one later
	alive := r.Perm(c.Pool)
	losses := 1
	if c.Pool >= 3 && r.Intn(3) == 0 {
		losses = 2
	}
	for j := 0; j < losses; j++ {
		d := alive[j]
		if j == 0 && d == 0 && r.Intn(3) != 0 {
			d, alive[0], alive[1] = alive[1], alive[1], 0
		}
		c.Ops = append(c.Ops, c13Op{Op: "quiesce"}, c13Op{Op: "drop", Link: d})
		sends(2 + r.Intn(3))
	}
	c.Ops = append(c.Ops, c13Op{Op: "quiesce"}, c13Op{Op: "terminate"})
	return c
}

func corpusLinkLoss() []c13Case {
	// three links, the second one is lost, unordered and ordered senders go on
	c := c13Case{PoolCfg: 3, Pool: 3, Tags: []string{"linkloss"}, Note: "second of three links lost; round robin and ordered senders afterwards",
		Pairs: []c13Pair{{Kind: "send_pid", From: 1001, To: 1002, Keep: false}, {Kind: "send_pid", From: 1003, To: 1004, Keep: true},
			{Kind: "send_pid", From: 1004, To: 1005, Keep: true}, {Kind: "send_pid", From: 1005, To: 1006, Keep: true}}}
	for l := 0; l < 3; l++ {
		c.Ops = append(c.Ops, c13Op{Op: "release", Link: l})
	}
	for k := range c.Pairs {
		c.Ops = append(c.Ops, c13Op{Op: "send", Pair: k})
	}
	c.Ops = append(c.Ops, c13Op{Op: "quiesce"}, c13Op{Op: "drop", Link: 1})
	for s := 0; s < 4; s++ {
		for k := range c.Pairs {
			c.Ops = append(c.Ops, c13Op{Op: "send", Pair: k})
		}
	}
	c.Ops = append(c.Ops, c13Op{Op: "quiesce"}, c13Op{Op: "terminate"})
	return []c13Case{c}
}

// every message handed to a Send*/Call* that returned nil arrives exactly once
func monitorLinkLoss(c c13Case, o c13Obs) []string {
	var fails []string
	nsend := 0
	for _, op := range c.Ops {
		if op.Op == "send" {
			nsend++
		}
	}
	count := make([]int, nsend)
	for _, d := range o.Delivered {
		if d < 0 || d >= nsend {
			fails = append(fails, "a value arrived that was never sent")
			continue
		}
		count[d]++
	}
	var lost, dup []int
	for i, n := range count {
		if n == 0 {
			lost = append(lost, i)
		} else if n > 1 {
			dup = append(dup, i)
		}
	}
	if len(o.SendErr) == 0 && len(lost) > 0 {
		fails = append(fails, fmt.Sprintf("every send returned nil, sends %v never reached the peer after a pooled link was lost (links chosen: %v)", lost, o.Links))
	}
	if len(dup) > 0 {
		fails = append(fails, fmt.Sprintf("sends %v were delivered more than once", dup))
	}
	fails = append(fails, o.SendErr...)
	if len(o.OpenAfterTerminate) > 0 {
		fails = append(fails, fmt.Sprintf("Terminate of the connection left pooled links %v open after another link of the pool had been lost: the peer never sees the connection go down", o.OpenAfterTerminate))
	}
	return fails
}

func runLinkLoss(n int, outPath, replay string) {
	out := util.NewOut("proto-linkloss")
	var cases []c13Case
	if replay != "" {
		raw, err := os.ReadFile(replay)
		if err != nil {
			panic(err)
		}
		var w struct {
			Case c13Case `json:"case"`
		}
		if err := json.Unmarshal(raw, &w); err != nil || len(w.Case.Ops) == 0 {
			panic(fmt.Sprint("bad replay file: ", err))
		}
		cases = append(cases, w.Case)
	} else {
		cases = append(cases, corpusLinkLoss()...)
		r := util.Rng(1213)
		for i := 0; len(cases) < n; i++ {
			cases = append(cases, genLinkLoss(r, i))
		}
	}
	failing := 0
	for _, c := range cases {
		if failing >= 3 {
			// every failing case costs seconds of waiting for frames that never arrive: three witnesses are enough
			out.Stats["skipped-after-3-failing-cases"]++
			continue
		}
		o := runC13Case(c)
		idx := out.Add(coqC13(c, o), c)
		fs := monitorLinkLoss(c, o)
		if len(fs) > 0 {
			failing++
		}
		for _, f := range fs {
			out.Monitor = append(out.Monitor, util.MonitorFail{Case: idx, What: f, Tags: c.Tags})
		}
		out.Stats[fmt.Sprintf("pool/%d", c.Pool)]++
		drops := 0
		for _, op := range c.Ops {
			if op.Op == "drop" {
				drops++
				if op.Link == 0 {
					out.Stats["lost-first-slot"]++
				} else {
					out.Stats["lost-other-slot"]++
				}
			}
		}
		out.Stats[fmt.Sprintf("losses/%d", drops)]++
		out.Stats["messages"] += len(o.Delivered)
		out.Stats["lost"] += o.Lost
	}
	out.Stats["runs"] = len(cases)
	if outPath != "" {
		out.Write(outPath)
	} else {
		enc := json.NewEncoder(os.Stdout)
		enc.Encode(out.Monitor)
		enc.Encode(out.Stats)
	}
}
