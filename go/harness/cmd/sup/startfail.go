package main

// Sub-command "startfail" (C10): supervision trees whose children trap exit signals, whose start-up
// fails half way (the Init of the k-th child returns an error inside the supervisor's ProcessInit),
// whose restart fails (a child's Init fails at its second start), or that are ended by kill / exit /
// an error of the supervisor itself. Whatever happened, once the supervisor is gone (or never came to
// life) no process it started - trapping or not, nested supervisors and their children included - may
// stay alive. Go-side monitor only; the machine correspondence lives in e2e.go / machine.go.

import (
	"encoding/json"
	"errors"
	"fmt"
	"os"
	"sync"
	"time"

	"ergo.services/ergo"
	"ergo.services/ergo/act"
	"ergo.services/ergo/gen"
	"verifharness/util"
)

type sfChildSpec struct {
	Kind   string        `json:"kind"`             // plain | trap | nested
	FailAt int           `json:"fail_at"`          // Init fails at this start (1 = first start, 2 = first restart), 0 = never
	Sub    []sfChildSpec `json:"sub,omitempty"`    // nested: its own children
	SubTyp string        `json:"subtyp,omitempty"` // nested: supervisor type
}

type sfCase struct {
	Type     string        `json:"type"` // ofo | afo | rfo
	Strategy int           `json:"strategy"`
	Children []sfChildSpec `json:"children"`
	KillIdx  int           `json:"kill_idx"` // -1: none; otherwise this top-level child is killed after the start (forces a restart)
	End      string        `json:"end"`      // none | kill | exit | error
	Tags     []string      `json:"tags"`
}

type sfReg struct {
	sync.Mutex
	pids   []gen.PID
	trap   map[gen.PID]bool
	starts map[string]int
}

var sfr = &sfReg{}

func (r *sfReg) reset() {
	r.Lock()
	r.pids, r.trap, r.starts = nil, map[gen.PID]bool{}, map[string]int{}
	r.Unlock()
}

type sfChild struct {
	act.Actor
}

type sfDie struct{ reason error }

func (c *sfChild) Init(args ...any) error {
	path := args[0].(string)
	spec := args[1].(sfChildSpec)
	sfr.Lock()
	sfr.starts[path]++
	n := sfr.starts[path]
	sfr.Unlock()
	if spec.FailAt == n {
		return errors.New("init refused by the harness")
	}
	if spec.Kind == "trap" {
		c.SetTrapExit(true)
	}
	sfr.Lock()
	sfr.pids = append(sfr.pids, c.PID())
	sfr.trap[c.PID()] = spec.Kind == "trap"
	sfr.Unlock()
	return nil
}

func (c *sfChild) HandleMessage(from gen.PID, message any) error {
	if m, ok := message.(sfDie); ok {
		return m.reason
	}
	return nil // a trapped exit signal arrives here and is ignored: that is what trapping means
}

type sfSup struct {
	act.Supervisor
}

func (s *sfSup) Init(args ...any) (act.SupervisorSpec, error) {
	sfr.Lock()
	sfr.pids = append(sfr.pids, s.PID())
	sfr.trap[s.PID()] = false
	sfr.Unlock()
	return args[0].(act.SupervisorSpec), nil
}

func (s *sfSup) HandleMessage(from gen.PID, message any) error {
	if m, ok := message.(sfDie); ok {
		return m.reason
	}
	return nil
}

func sfType(t string) act.SupervisorType {
	switch t {
	case "afo":
		return act.SupervisorTypeAllForOne
	case "rfo":
		return act.SupervisorTypeRestForOne
	}
	return act.SupervisorTypeOneForOne
}

func sfSpec(prefix string, typ string, strategy int, children []sfChildSpec) act.SupervisorSpec {
	spec := act.SupervisorSpec{Type: sfType(typ)}
	spec.Restart = act.SupervisorRestart{Strategy: act.SupervisorStrategy(strategy), Intensity: 5, Period: 5}
	for i, ch := range children {
		path := fmt.Sprintf("%s%d", prefix, i)
		cs := act.SupervisorChildSpec{Name: gen.Atom("sf" + path)}
		if ch.Kind == "nested" {
			sub := sfSpec(path+"_", ch.SubTyp, strategy, ch.Sub)
			cs.Factory = func() gen.ProcessBehavior { return &sfSup{} }
			cs.Args = []any{sub}
		} else {
			cs.Factory = func() gen.ProcessBehavior { return &sfChild{} }
			cs.Args = []any{path, ch}
		}
		spec.Children = append(spec.Children, cs)
	}
	return spec
}

type sfWatcher struct {
	act.Actor
}

type sfStart struct {
	spec  act.SupervisorSpec
	reply chan startReply
}
type sfExit struct {
	to     gen.PID
	reason error
}

func (w *sfWatcher) HandleMessage(from gen.PID, message any) error {
	switch m := message.(type) {
	case sfStart:
		pid, err := w.Spawn(func() gen.ProcessBehavior { return &sfSup{} }, gen.ProcessOptions{}, m.spec)
		m.reply <- startReply{pid, err}
	case sfExit:
		w.SendExit(m.to, m.reason)
	}
	return nil
}

func sfAlive(node gen.Node, pid gen.PID) bool {
	_, err := node.ProcessInfo(pid)
	return err == nil
}

func sfWaitGone(node gen.Node, pids []gen.PID, d time.Duration) []gen.PID {
	end := time.Now().Add(d)
	for {
		var live []gen.PID
		for _, p := range pids {
			if sfAlive(node, p) {
				live = append(live, p)
			}
		}
		if len(live) == 0 || time.Now().After(end) {
			return live
		}
		time.Sleep(5 * time.Millisecond)
	}
}

func runStartFailCase(node gen.Node, watcher gen.PID, c sfCase, stats map[string]int) (string, error) {
	sfr.reset()
	spec := sfSpec("", c.Type, c.Strategy, c.Children)
	var sr startReply
	for try := 0; try < 50; try++ {
		reply := make(chan startReply, 1)
		if err := node.Send(watcher, sfStart{spec, reply}); err != nil {
			return "", err
		}
		select {
		case sr = <-reply:
		case <-time.After(10 * time.Second):
			return "", errors.New("supervisor start did not return")
		}
		if sr.err == nil || !errors.Is(sr.err, gen.ErrTaken) {
			break
		}
		// names of the previous scenario are released a moment after its processes are gone (harness set-up)
		stats["start-retry"]++
		time.Sleep(20 * time.Millisecond)
		sfr.reset()
	}
	all := func() ([]gen.PID, map[gen.PID]bool) {
		sfr.Lock()
		defer sfr.Unlock()
		return append([]gen.PID{}, sfr.pids...), sfr.trap
	}
	describe := func(live []gen.PID, when string) string {
		_, trap := all()
		nt := 0
		for _, p := range live {
			if trap[p] {
				nt++
			}
		}
		return fmt.Sprintf("orphans: %s, %d process(es) started under the supervisor are still alive (%d of them trap exit signals): %v",
			when, len(live), nt, live)
	}
	if sr.err != nil {
		stats["start-failed"]++
		pids, _ := all()
		if live := sfWaitGone(node, pids, 3*time.Second); len(live) > 0 {
			return describe(live, "the supervisor's start-up failed ("+sr.err.Error()+")"), nil
		}
		return "", nil
	}
	sup := sr.pid
	stats["started"]++
	if c.KillIdx >= 0 {
		// kill one top-level child: the strategy restarts it (and its group); a start that fails then ends the supervisor
		sfr.Lock()
		var victim gen.PID
		for _, p := range sfr.pids {
			if info, err := node.ProcessInfo(p); err == nil && info.Parent == sup && string(info.Name) == fmt.Sprintf("sf%d", c.KillIdx) {
				victim = p
			}
		}
		sfr.Unlock()
		if victim != (gen.PID{}) {
			node.Kill(victim)
			stats["child-killed"]++
			// let the restart (or the failure of it) happen
			time.Sleep(30 * time.Millisecond)
		}
	}
	switch c.End {
	case "kill":
		node.Kill(sup)
	case "exit":
		node.Send(watcher, sfExit{sup, errors.New("harness exit")})
	case "error":
		node.Send(sup, sfDie{errors.New("supervisor callback error")})
	case "none":
		if sfAlive(node, sup) && len(sfWaitGone(node, []gen.PID{sup}, 300*time.Millisecond)) > 0 {
			// the supervisor survived (no failing restart): end it so the case still checks something
			node.Kill(sup)
		}
	}
	if live := sfWaitGone(node, []gen.PID{sup}, 5*time.Second); len(live) > 0 {
		return "", errors.New("the supervisor did not terminate (end " + c.End + ")")
	}
	pids, _ := all()
	if live := sfWaitGone(node, pids, 3*time.Second); len(live) > 0 {
		return describe(live, "the supervisor terminated (end "+c.End+")"), nil
	}
	return "", nil
}

func genStartFailCase(r interface{ Intn(int) int }, i int) sfCase {
	c := sfCase{Type: []string{"ofo", "afo", "rfo"}[r.Intn(3)], KillIdx: -1, Tags: []string{}}
	c.Strategy = []int{int(act.SupervisorStrategyPermanent), int(act.SupervisorStrategyTransient)}[r.Intn(2)]
	n := 2 + r.Intn(3)
	kinds := []string{"plain", "trap", "trap", "nested"}
	for k := 0; k < n; k++ {
		ch := sfChildSpec{Kind: kinds[r.Intn(len(kinds))]}
		if ch.Kind == "nested" {
			ch.SubTyp = []string{"ofo", "afo", "rfo"}[r.Intn(3)]
			for j := 0; j < 1+r.Intn(2); j++ {
				ch.Sub = append(ch.Sub, sfChildSpec{Kind: []string{"plain", "trap"}[r.Intn(2)]})
			}
		}
		c.Children = append(c.Children, ch)
	}
	switch i % 3 {
	case 0: // start-up fails at a later child
		k := 1 + r.Intn(n-1)
		c.Children[k] = sfChildSpec{Kind: "plain", FailAt: 1}
		c.End = "none"
		c.Tags = append(c.Tags, "startup-fails")
	case 1: // a restart fails
		k := r.Intn(n)
		c.Children[k] = sfChildSpec{Kind: []string{"plain", "trap"}[r.Intn(2)], FailAt: 2}
		c.KillIdx = k
		c.End = "none"
		c.Tags = append(c.Tags, "restart-fails")
	default:
		c.End = []string{"kill", "exit", "error"}[r.Intn(3)]
		if r.Intn(2) == 0 {
			c.KillIdx = r.Intn(n)
		}
		c.Tags = append(c.Tags, "ended-"+c.End)
	}
	return c
}

func runStartFail(n int, out string, replay string) {
	o := util.NewOut("sup.startfail")
	nopt := gen.NodeOptions{}
	nopt.Network.Mode = gen.NetworkModeDisabled
	nopt.Log.Level = gen.LogLevelDisabled
	node, err := ergo.StartNode(gen.Atom(fmt.Sprintf("verifsf%d@localhost", os.Getpid())), nopt)
	if err != nil {
		fmt.Fprintln(os.Stderr, "cannot start node:", err)
		os.Exit(1)
	}
	defer node.StopForce()
	watcher, err := node.Spawn(func() gen.ProcessBehavior { return &sfWatcher{} }, gen.ProcessOptions{})
	if err != nil {
		fmt.Fprintln(os.Stderr, "cannot start watcher:", err)
		os.Exit(1)
	}
	var cases []sfCase
	if replay != "" {
		b, err := os.ReadFile(replay)
		if err != nil {
			panic(err)
		}
		var rp struct {
			Case sfCase `json:"case"`
		}
		if err := json.Unmarshal(b, &rp); err != nil {
			panic(err)
		}
		cases = append(cases, rp.Case)
	} else {
		// corpus: a trapping child started before the child whose Init fails
		for _, t := range []string{"ofo", "afo", "rfo"} {
			cases = append(cases, sfCase{Type: t, Strategy: int(act.SupervisorStrategyPermanent), KillIdx: -1, End: "none", Tags: []string{"startup-fails", "corpus"},
				Children: []sfChildSpec{{Kind: "trap"}, {Kind: "plain"}, {Kind: "plain", FailAt: 1}}})
		}
		r := util.Rng(51)
		for i := 0; len(cases) < n; i++ {
			cases = append(cases, genStartFailCase(r, i))
		}
	}
	for _, c := range cases {
		what, err := runStartFailCase(node, watcher, c, o.Stats)
		idx := o.Add("tt", c)
		o.Stats["runs"]++
		for _, t := range c.Tags {
			o.Stats["family:"+t]++
		}
		for _, ch := range c.Children {
			o.Stats["child:"+ch.Kind]++
		}
		if err != nil {
			o.Notes = append(o.Notes, err.Error())
			o.Stats["notes"]++
			continue
		}
		if what != "" {
			o.Monitor = append(o.Monitor, util.MonitorFail{Case: idx, What: what})
		}
	}
	o.Write(out)
}
