package main

// Sub-command "machine": drives the REAL supOFO / supARFO / supSOFO state machines through
// act/verif_export.go. The harness plays Supervisor.handleAction and the environment itself
// (fake pids, children that exit when told to or spontaneously, spawn failures) and records,
// after every machine call, the answer (action / error / panic) and the full machine state, and
// after every environment operation a snapshot (state, live children, outstanding exit signals,
// supervisor liveness and termination reason). The Coq side (Sup/MachineCases.v) replays the same
// operations in the model and evaluates the property monitors on the observations.

import (
	"encoding/json"
	"errors"
	"fmt"
	"math/rand"
	"os"
	"sort"
	"strings"

	"ergo.services/ergo/act"
	"ergo.services/ergo/gen"
	"verifharness/util"
)

type mOp struct {
	K    string `json:"k"`              // exit | exitsig | foreign | start | add | enable | disable | shift
	A    int    `json:"a,omitempty"`    // index into the live pids / outstanding pids / spec names
	R    int    `json:"r,omitempty"`    // reason code
	Fail int    `json:"fail,omitempty"` // which spawn of the triggered handleAction loop fails (0 none)
	D    int64  `json:"d,omitempty"`    // shift in ms
	Sig  bool   `json:"sig,omitempty"`
}

type mCase struct {
	Kind      string   `json:"kind"`     // ofo afo rfo sofo
	Strategy  int      `json:"strategy"` // 0 transient 1 temporary 2 permanent
	Keep      bool     `json:"keeporder"`
	NoAuto    bool     `json:"disable_auto_shutdown"`
	Intensity int      `json:"intensity"`
	Period    int      `json:"period"`
	Sig       []bool   `json:"significant"` // one per initial child c1..cn
	InitFail  int      `json:"init_fail,omitempty"`
	Ops       []mOp    `json:"ops"`
	Stream    string   `json:"stream"`
	Tags      []string `json:"tags,omitempty"`
}

// ---- reasons, names, pids ---------------------------------------------------------------------

var errSpawn = errors.New("spawn failed")
var abnormal = map[int]error{}

func reasonOf(code int) error {
	switch code {
	case 0:
		return nil
	case 1:
		return gen.TerminateReasonNormal
	case 2:
		return gen.TerminateReasonShutdown
	case 3:
		return gen.TerminateReasonKill
	case 4:
		return gen.TerminateReasonPanic
	case 5:
		return act.ErrSupervisorRestartsExceeded
	case 6:
		return errSpawn
	}
	if e, ok := abnormal[code]; ok {
		return e
	}
	e := fmt.Errorf("abnormal-%d", code)
	abnormal[code] = e
	return e
}

func codeOf(e error) int {
	switch e {
	case nil:
		return 0
	case gen.TerminateReasonNormal:
		return 1
	case gen.TerminateReasonShutdown:
		return 2
	case gen.TerminateReasonKill:
		return 3
	case gen.TerminateReasonPanic:
		return 4
	case act.ErrSupervisorRestartsExceeded:
		return 5
	case errSpawn:
		return 6
	}
	for c, x := range abnormal {
		if x == e {
			return c
		}
	}
	return 9999 // an error value the harness never handed in
}

func errCode(e error) int {
	switch e {
	case act.ErrSupervisorStrategyActive:
		return 1
	case act.ErrSupervisorChildDuplicate:
		return 2
	case act.ErrSupervisorChildDisabled:
		return 3
	case act.ErrSupervisorChildRunning:
		return 4
	case act.ErrSupervisorChildUnknown:
		return 5
	}
	if e != nil && e.Error() == "shutting down" {
		return 7
	}
	return 6
}

const selfName = 999
const selfPid = 1

func atomOf(n int) gen.Atom {
	if n == 0 {
		return ""
	}
	if n == selfName {
		return "sup"
	}
	return gen.Atom(fmt.Sprintf("c%d", n))
}

func nameOf(a gen.Atom) int {
	if a == "" {
		return 0
	}
	if a == "sup" {
		return selfName
	}
	var n int
	fmt.Sscanf(string(a), "c%d", &n)
	return n
}

func pidOf(p int64) gen.PID {
	if p == 0 {
		return gen.PID{}
	}
	return gen.PID{Node: "verif@localhost", ID: uint64(p), Creation: 1}
}
func pidNum(p gen.PID) int64 { return int64(p.ID) }

func dummyFactory() gen.ProcessBehavior { return nil }

// ---- rendering into Coq terms -------------------------------------------------------------------

func coqState(st act.VerifSupState) string {
	var specs []string
	sp := append([]act.VerifChild{}, st.Spec...)
	sort.Slice(sp, func(i, j int) bool { return sp[i].I < sp[j].I })
	for _, c := range sp {
		specs = append(specs, fmt.Sprintf("mk_cspec %d %d %s %s %d", nameOf(c.Name), pidNum(c.PID), util.B(c.Disabled), util.B(c.Significant), c.I))
	}
	var wait []int64
	for _, p := range st.Wait {
		wait = append(wait, pidNum(p))
	}
	sort.Slice(wait, func(i, j int) bool { return wait[i] < wait[j] })
	pp := append([]act.VerifChild{}, st.Pids...)
	sort.Slice(pp, func(i, j int) bool { return pp[i].PID.ID < pp[j].PID.ID })
	var pids []string
	for _, c := range pp {
		pids = append(pids, fmt.Sprintf("(%d, %d)", pidNum(c.PID), nameOf(c.Name)))
	}
	shut := st.Shutdown
	if st.Kind == "arfo" {
		shut = false // the export derives it from mode == 3; the model keeps the mode only
	}
	return fmt.Sprintf("(mk_state %s %d %s %d %s %d %s %s)", util.List(specs), st.Mode, util.ZList(wait), st.RestartI,
		util.B(shut), codeOf(st.ShutdownReason), util.ZList(st.Restarts), util.List(pids))
}

func (d *drv) coqResult(a act.VerifAction, err error, panicked string) string {
	if panicked != "" {
		return "RPanic"
	}
	if err != nil {
		return fmt.Sprintf("(RErr %d)", errCode(err))
	}
	switch a.Do {
	case 0:
		return "(RAct DoNothing)"
	case 1:
		// the model's action carries the spec; only name and index are compared
		return fmt.Sprintf("(RAct (StartChild (mk_cspec %d 0 false false %d)))", nameOf(a.SpecName), a.SpecI)
	case 2:
		return fmt.Sprintf("(RAct (TerminateChildren %s %d))", util.ZList(d.pidList(a.Terminate)), codeOf(a.Reason))
	case 4:
		return fmt.Sprintf("(RAct (Terminate %d))", codeOf(a.Reason))
	}
	return fmt.Sprintf("(RErr %d)", 900+a.Do)
}

// ---- the driver: Supervisor.handleAction + ProcessRun's exit branch ------------------------------

type drv struct {
	c        *mCase
	v        *act.VerifSup
	children map[int64]int // s.children: pid -> spec name
	sig      map[int64]int // exit signals sent to live pids: pid -> reason
	next     int64
	nforeign int64
	alive    bool
	reason   int
	trace    []string
	events   []string
	snaps    []string
	ops      []string // resolved ops as Coq terms
	stats    map[string]int
	nspecs   int
	effFail    int
	allowStale bool
	fails      []string // Go-side monitor
}

func (d *drv) pidList(l []gen.PID) []int64 {
	var out []int64
	for _, p := range l {
		out = append(out, pidNum(p))
	}
	if d.c.Kind == "sofo" {
		// built from a Go map iteration: order is not defined
		sort.Slice(out, func(i, j int) bool { return out[i] < out[j] })
	}
	return out
}

func (d *drv) log(call string, a act.VerifAction, err error, panicked string) {
	d.trace = append(d.trace, fmt.Sprintf("mk_obs (%s) %s %s", call, d.coqResult(a, err, panicked), coqState(d.v.State())))
	if panicked != "" {
		d.stats["panic"]++
	}
}

func (d *drv) die(r int) {
	d.alive = false
	d.reason = r
	d.events = append(d.events, fmt.Sprintf("EvTerminated %d", r))
}

// a spawn with a registered name fails while a previous instance of that name is alive (its exit has
// not been taken from the mailbox yet): the environment of the theorems (no_stale). Witness cases of
// the "stale-exit" finding switch this off.
func (d *drv) nameLive(name int) bool {
	if d.c.Kind == "sofo" || d.allowStale {
		return false
	}
	for _, n := range d.children {
		if n == name {
			return true
		}
	}
	return false
}

// handleAction; returns (0 nil | 1 error | 2 panic, reason). d.effFail = which spawn of this loop
// failed (0 none), whether asked for by the case or refused by the environment.
func (d *drv) handleAction(a act.VerifAction, err error, panicked string, fail int) (int, int) {
	d.effFail = 0
	nspawn := 0
	for {
		if panicked != "" {
			return 2, 0
		}
		if err != nil {
			return 1, 100 + errCode(err)
		}
		switch a.Do {
		case 0:
			return 0, 0
		case 4:
			return 1, codeOf(a.Reason)
		case 2:
			if len(a.Terminate) == 0 {
				if a.Reason == nil {
					return 0, 0
				}
				return 1, codeOf(a.Reason)
			}
			for _, p := range d.pidList(a.Terminate) {
				d.events = append(d.events, fmt.Sprintf("EvSendExit %d %d", p, codeOf(a.Reason)))
				if _, live := d.children[p]; live {
					if _, already := d.sig[p]; !already {
						d.sig[p] = codeOf(a.Reason)
					}
				}
			}
			return 0, 0
		case 1:
			nspawn++
			name := nameOf(a.SpecName)
			if fail == nspawn || d.nameLive(name) {
				if fail != nspawn {
					d.stats["spawn-refused-name-taken"]++
				}
				d.effFail = nspawn
				d.events = append(d.events, fmt.Sprintf("EvSpawnFail %d", name))
				d.stats["spawn-fail"]++
				return 1, 6
			}
			pid := d.next
			d.next++
			d.children[pid] = name
			d.events = append(d.events, fmt.Sprintf("EvSpawn %d %d", pid, name))
			d.stats["spawn"]++
			start := a
			var p2 string
			a, p2 = d.v.ChildStarted(start, pidOf(pid))
			err = nil
			panicked = p2
			d.log(fmt.Sprintf("CStarted %d %d %d", start.SpecI, name, pid), a, nil, p2)
		default:
			return 2, 0
		}
	}
}

// what ProcessRun does with the outcome for an exit message
func (d *drv) afterRun(h, r int, now int64) {
	switch h {
	case 0:
	case 1:
		d.die(r)
	case 2:
		a, p := d.v.ChildTerminated(atomOf(selfName), pidOf(selfPid), gen.TerminateReasonPanic)
		d.log(fmt.Sprintf("CTerminated %d %d %d %s", selfName, selfPid, 4, util.Z(now)), a, nil, p)
		h2, r2 := d.handleAction(a, nil, p, 0)
		switch h2 {
		case 1:
			d.die(r2)
		case 2:
			d.die(4)
		}
	}
}

func (d *drv) afterCall(h, r int) {
	if h == 2 {
		d.afterRun(2, 0, 0)
	}
}

func sortedKeys(m map[int64]int) []int64 {
	var out []int64
	for k := range m {
		out = append(out, k)
	}
	sort.Slice(out, func(i, j int) bool { return out[i] < out[j] })
	return out
}

func (d *drv) snap() {
	var ch []string
	for _, p := range sortedKeys(d.children) {
		ch = append(ch, fmt.Sprintf("(%d, %d)", p, d.children[p]))
	}
	d.snaps = append(d.snaps, fmt.Sprintf("mk_snap %s %s %s %s %d", coqState(d.v.State()), util.List(ch),
		util.ZList(sortedKeys(d.sig)), util.B(d.alive), d.reason))
}

func lastNow(before, after []int64) int64 {
	same := len(before) == len(after)
	if same {
		for i := range before {
			if before[i] != after[i] {
				same = false
			}
		}
	}
	if same || len(after) == 0 {
		return 0
	}
	return after[len(after)-1]
}

func (d *drv) exit(pid int64, reason int, fail int) {
	name, found := d.children[pid]
	if found {
		delete(d.children, pid)
		delete(d.sig, pid)
	}
	// Go-side monitor (finding "stale-exit"): the exit of an old instance must not wipe the record of
	// the running instance of the same spec
	var other int64
	if found && d.c.Kind != "sofo" {
		for _, c := range d.v.State().Spec {
			if nameOf(c.Name) == name && pidNum(c.PID) != pid && pidNum(c.PID) != 0 {
				if _, live := d.children[pidNum(c.PID)]; live {
					other = pidNum(c.PID)
				}
			}
		}
	}
	before := d.v.State().Restarts
	a, p := d.v.ChildTerminated(atomOf(name), pidOf(pid), reasonOf(reason))
	if other != 0 {
		for _, c := range d.v.State().Spec {
			if nameOf(c.Name) == name && pidNum(c.PID) != other {
				d.fails = append(d.fails, fmt.Sprintf("the exit of pid %d (an old instance of child c%d) cleared the record of its running instance %d", pid, name, other))
			}
		}
	}
	now := lastNow(before, d.v.State().Restarts)
	d.log(fmt.Sprintf("CTerminated %d %d %d %s", name, pid, reason, util.Z(now)), a, nil, p)
	h, r := d.handleAction(a, nil, p, fail)
	d.ops = append(d.ops, fmt.Sprintf("OExit %d %d %s %d", pid, reason, util.Z(now), d.effFail))
	d.afterRun(h, r, now)
}

func (d *drv) specByIndex(a int) int {
	// names c1..c(nspecs) exist; one more index is an unknown name
	return 1 + a%(d.nspecs+1)
}

func (d *drv) apply(o mOp) {
	if !d.alive {
		return
	}
	switch o.K {
	case "exit", "exitsig":
		var pool []int64
		if o.K == "exit" {
			pool = sortedKeys(d.children)
		} else {
			pool = sortedKeys(d.sig)
		}
		if len(pool) == 0 {
			return
		}
		pid := pool[o.A%len(pool)]
		r := o.R
		if o.K == "exitsig" {
			r = d.sig[pid] // a child told to stop terminates with the reason of the exit signal
		}
		if _, signalled := d.sig[pid]; signalled {
			d.stats["exit-signalled"]++
		} else {
			d.stats["exit-spontaneous"]++
		}
		d.exit(pid, r, o.Fail)
	case "foreign":
		d.nforeign++
		d.stats["exit-foreign"]++
		d.exit(100+d.nforeign%800, o.R, o.Fail)
	case "start":
		n := d.specByIndex(o.A)
		a, err, p := d.v.ChildSpec(atomOf(n))
		d.log(fmt.Sprintf("CSpec %d", n), a, err, p)
		h, r := d.handleAction(a, err, p, o.Fail)
		d.ops = append(d.ops, fmt.Sprintf("OStartChild %d %d", n, d.effFail))
		d.afterCall(h, r)
		d.stats["op-start"]++
	case "add":
		n := d.nspecs + 1
		if o.A%5 == 0 {
			n = d.specByIndex(o.A / 5) // mostly a duplicate
		}
		a, err, p := d.v.ChildAddSpec(act.SupervisorChildSpec{Name: atomOf(n), Significant: o.Sig, Factory: dummyFactory})
		if err == nil && p == "" {
			d.nspecs++
		}
		d.log(fmt.Sprintf("CAdd %d %s", n, util.B(o.Sig)), a, err, p)
		h, r := d.handleAction(a, err, p, o.Fail)
		d.ops = append(d.ops, fmt.Sprintf("OAddChild %d %s %d", n, util.B(o.Sig), d.effFail))
		d.afterCall(h, r)
		d.stats["op-add"]++
	case "enable":
		n := d.specByIndex(o.A)
		a, err, p := d.v.ChildEnable(atomOf(n))
		d.log(fmt.Sprintf("CEnable %d", n), a, err, p)
		h, r := d.handleAction(a, err, p, o.Fail)
		d.ops = append(d.ops, fmt.Sprintf("OEnableChild %d %d", n, d.effFail))
		d.afterCall(h, r)
		d.stats["op-enable"]++
	case "disable":
		n := d.specByIndex(o.A)
		a, err, p := d.v.ChildDisable(atomOf(n))
		d.ops = append(d.ops, fmt.Sprintf("ODisableChild %d", n))
		d.log(fmt.Sprintf("CDisable %d", n), a, err, p)
		d.afterCall(d.handleAction(a, err, p, 0))
		d.stats["op-disable"]++
	case "shift":
		d.v.ShiftRestarts(o.D)
		d.ops = append(d.ops, fmt.Sprintf("OShift %s", util.Z(o.D)))
		d.log(fmt.Sprintf("CShift %s", util.Z(o.D)), act.VerifAction{}, nil, "")
		d.stats["op-shift"]++
	default:
		return
	}
	d.snap()
}

func supType(kind string) act.SupervisorType {
	switch kind {
	case "ofo":
		return act.SupervisorTypeOneForOne
	case "afo":
		return act.SupervisorTypeAllForOne
	case "rfo":
		return act.SupervisorTypeRestForOne
	}
	return act.SupervisorTypeSimpleOneForOne
}

func execMachineCase(c *mCase, stats map[string]int) (string, []string) {
	d := &drv{c: c, v: act.VerifNewSup(supType(c.Kind)), children: map[int64]int{}, sig: map[int64]int{},
		next: 1001, alive: true, stats: stats, nspecs: len(c.Sig)}
	for _, t := range c.Tags {
		if t == "stale-exit" {
			d.allowStale = true
		}
	}
	spec := act.SupervisorSpec{Type: supType(c.Kind), DisableAutoShutdown: c.NoAuto}
	spec.Restart = act.SupervisorRestart{Strategy: act.SupervisorStrategy(c.Strategy), Intensity: uint16(c.Intensity),
		Period: uint16(c.Period), KeepOrder: c.Keep}
	var ch []string
	for i, sg := range c.Sig {
		spec.Children = append(spec.Children, act.SupervisorChildSpec{Name: atomOf(i + 1), Significant: sg, Factory: dummyFactory})
		ch = append(ch, fmt.Sprintf("(%d, %s)", i+1, util.B(sg)))
	}
	a, err, p := d.v.Init(spec)
	d.log("CInit", a, err, p)
	h, r := d.handleAction(a, err, p, c.InitFail)
	initFail := d.effFail
	switch h {
	case 1:
		d.die(r)
	case 2:
		d.die(4)
	}
	d.snap()
	for _, o := range c.Ops {
		d.apply(o)
	}
	// drain: let every child that was told to stop terminate (with the reason it was given), until
	// nothing is outstanding, so that every case ends in a quiescent state
	for guard := 0; d.alive && len(d.sig) > 0 && guard < 200; guard++ {
		d.apply(mOp{K: "exitsig", A: guard})
	}
	stats["ops"] += len(d.ops)
	stats["calls"] += len(d.trace)
	if d.alive {
		stats["end:alive"]++
	} else {
		stats[fmt.Sprintf("end:dead-reason-%d", d.reason)]++
	}
	kinds := map[string]string{"ofo": "OFO", "afo": "AFO", "rfo": "RFO", "sofo": "SOFO"}
	strat := []string{"Transient", "Temporary", "Permanent"}[c.Strategy]
	cfg := fmt.Sprintf("(mk_config %s %s %s %s %d %d)", kinds[c.Kind], strat, util.B(c.Keep), util.B(!c.NoAuto), c.Intensity, c.Period)
	return fmt.Sprintf("mk_mcase %s %s %d %s %s %s %s", cfg, util.List(ch), initFail, util.List(d.ops),
		util.List(d.trace), util.List(d.events), util.List(d.snaps)), d.fails
}

// ---- generators ---------------------------------------------------------------------------------

var kindsAll = []string{"ofo", "afo", "rfo", "sofo"}

func genConfig(r *rand.Rand, c *mCase) {
	c.Kind = kindsAll[r.Intn(4)]
	c.Strategy = r.Intn(3)
	c.Keep = r.Intn(2) == 0
	c.NoAuto = r.Intn(2) == 0
	c.Intensity = []int{1, 2, 3, 3, 5, 0}[r.Intn(6)]
	c.Period = []int{1, 2, 5}[r.Intn(3)]
	n := 1 + r.Intn(4)
	for i := 0; i < n; i++ {
		c.Sig = append(c.Sig, r.Intn(4) == 0)
	}
}

func genReason(r *rand.Rand) int {
	return []int{1, 2, 3, 4, 10, 10, 11, 12}[r.Intn(8)]
}

func genOps(r *rand.Rand, c *mCase, n int, mgmt bool, failures bool) {
	for i := 0; i < n; i++ {
		var o mOp
		x := r.Intn(100)
		switch {
		case x < 40:
			o = mOp{K: "exit", A: r.Intn(16), R: genReason(r)}
		case x < 62:
			o = mOp{K: "exitsig", A: r.Intn(16)}
		case x < 65:
			o = mOp{K: "foreign", R: genReason(r)}
		case x < 75:
			o = mOp{K: "shift", D: []int64{1, 500, 999, 1000, 1001, 2500, 6000}[r.Intn(7)]}
		default:
			if !mgmt {
				o = mOp{K: "exit", A: r.Intn(16), R: genReason(r)}
				break
			}
			switch r.Intn(4) {
			case 0:
				o = mOp{K: "start", A: r.Intn(8)}
			case 1:
				o = mOp{K: "add", A: r.Intn(40), Sig: r.Intn(4) == 0}
			case 2:
				o = mOp{K: "enable", A: r.Intn(8)}
			default:
				o = mOp{K: "disable", A: r.Intn(8)}
			}
		}
		if failures && r.Intn(25) == 0 {
			o.Fail = 1 + r.Intn(3)
		}
		c.Ops = append(c.Ops, o)
	}
}

func genMachineCase(r *rand.Rand, i int) *mCase {
	c := &mCase{}
	genConfig(r, c)
	switch i % 4 {
	case 0:
		c.Stream = "exits-only"
		genOps(r, c, 4+r.Intn(14), false, false)
	case 1:
		c.Stream = "mgmt"
		genOps(r, c, 4+r.Intn(18), true, false)
	case 2:
		c.Stream = "mgmt+spawn-failures"
		genOps(r, c, 4+r.Intn(18), true, true)
		if r.Intn(10) == 0 {
			c.InitFail = 1 + r.Intn(4)
		}
	default:
		// failure bursts: many abnormal exits in a row, to reach the intensity limit
		c.Stream = "bursts"
		c.Strategy = []int{0, 2}[r.Intn(2)]
		n := 4 + r.Intn(12)
		for j := 0; j < n; j++ {
			if r.Intn(4) == 0 {
				c.Ops = append(c.Ops, mOp{K: "exitsig", A: r.Intn(8)})
			} else if r.Intn(8) == 0 {
				c.Ops = append(c.Ops, mOp{K: "shift", D: []int64{500, 1000, 1001, 5001}[r.Intn(4)]})
			} else {
				c.Ops = append(c.Ops, mOp{K: "exit", A: r.Intn(8), R: 10 + r.Intn(2)})
			}
		}
	}
	if c.Kind == "sofo" {
		// SOFO starts nothing by itself: begin with a few StartChild calls
		var pre []mOp
		for j := 0; j < 1+r.Intn(4); j++ {
			pre = append(pre, mOp{K: "start", A: r.Intn(len(c.Sig))})
		}
		c.Ops = append(pre, c.Ops...)
	}
	return c
}

// exhaustive small scope: every configuration (type x strategy x keeporder x auto-shutdown x
// significant pattern, 1..nmax children) x every sequence of up to depth operations drawn from
// {exit of the j-th live child with normal / abnormal reason, exit of the j-th signalled child}
func exhaustiveCases(nmax, depth int, limit int, r *rand.Rand) []*mCase {
	var alphabet []mOp
	for j := 0; j < nmax; j++ {
		alphabet = append(alphabet, mOp{K: "exit", A: j, R: 1}, mOp{K: "exit", A: j, R: 10})
	}
	alphabet = append(alphabet, mOp{K: "exitsig", A: 0}, mOp{K: "exitsig", A: 1})
	var seqs [][]mOp
	var rec func(cur []mOp)
	rec = func(cur []mOp) {
		if len(cur) == depth {
			seqs = append(seqs, append([]mOp{}, cur...))
			return
		}
		for _, o := range alphabet {
			rec(append(cur, o))
		}
	}
	rec(nil)
	var out []*mCase
	for _, kind := range []string{"ofo", "afo", "rfo"} {
		for strat := 0; strat < 3; strat++ {
			for keep := 0; keep < 2; keep++ {
				if kind == "ofo" && keep == 1 {
					continue
				}
				for noauto := 0; noauto < 2; noauto++ {
					for n := 1; n <= nmax; n++ {
						for sigmask := 0; sigmask < (1 << n); sigmask++ {
							for _, s := range seqs {
								c := &mCase{Kind: kind, Strategy: strat, Keep: keep == 1, NoAuto: noauto == 1, Intensity: 2, Period: 5, Stream: "exhaustive"}
								for i := 0; i < n; i++ {
									c.Sig = append(c.Sig, sigmask&(1<<i) != 0)
								}
								c.Ops = s
								out = append(out, c)
							}
						}
					}
				}
			}
		}
	}
	if limit > 0 && len(out) > limit {
		// deterministic thinning by the seeded generator
		r.Shuffle(len(out), func(i, j int) { out[i], out[j] = out[j], out[i] })
		out = out[:limit]
	}
	return out
}

// scripted histories for the defects found while building the model (see findings/C08.md, C09.md)
func scriptedCases() []*mCase {
	out := scriptedBase()
	// DisableChild on a running child whose exit is still outstanding, then another child terminates (any of the
	// running ones, abnormally) BEFORE the disabled child's exit reaches the supervisor, then the outstanding exits
	// arrive in either order: the disabled spec still holds its pid while the group restart is decided
	for _, kind := range []string{"afo", "rfo", "ofo"} {
		for _, n := range []int{2, 3} {
			for _, strat := range []int{0, 2} {
				for _, keep := range []bool{false, true} {
					for d := 0; d < n; d++ {
						for a := 0; a < n; a++ {
							for _, late := range []int{0, 1} {
								c := &mCase{Kind: kind, Strategy: strat, Keep: keep, Intensity: 5, Period: 5, Sig: make([]bool, n), Stream: "scripted-disable-crash"}
								c.Ops = []mOp{{K: "disable", A: d}, {K: "exit", A: a, R: 10}, {K: "exitsig", A: late}, {K: "exitsig", A: 0}, {K: "exitsig", A: 0}, {K: "exitsig", A: 0}}
								out = append(out, c)
							}
						}
					}
				}
			}
		}
	}
	return out
}

func scriptedBase() []*mCase {
	return []*mCase{
		// C09: intensity exceeded while other children run -> terminate reason must be "exceeded"
		{Kind: "ofo", Strategy: 2, Intensity: 1, Period: 5, Sig: []bool{false, false}, Stream: "scripted",
			Ops: []mOp{{K: "exit", A: 0, R: 10}, {K: "exit", A: 1, R: 10}, {K: "exitsig", A: 0}}},
		{Kind: "afo", Strategy: 2, Intensity: 1, Period: 5, Sig: []bool{false, false, false}, Stream: "scripted",
			Ops: []mOp{{K: "exit", A: 0, R: 10}, {K: "exitsig", A: 0}, {K: "exitsig", A: 0}, {K: "exit", A: 0, R: 11}, {K: "exitsig", A: 0}, {K: "exitsig", A: 0}}},
		// C08: keeporder, a sibling dies while the supervisor stops the children one by one
		{Kind: "afo", Strategy: 2, Keep: true, Intensity: 3, Period: 5, Sig: []bool{false, false, false, false}, Stream: "scripted",
			Ops: []mOp{{K: "exit", A: 0, R: 10}, {K: "exit", A: 0, R: 10}, {K: "exitsig", A: 0}, {K: "exitsig", A: 0}}},
		// C08: rest-for-one without keeporder, a child in front of the range dies during the restart
		{Kind: "rfo", Strategy: 2, Intensity: 3, Period: 5, Sig: []bool{false, false, false, false}, Stream: "scripted",
			Ops: []mOp{{K: "exit", A: 2, R: 10}, {K: "exit", A: 0, R: 10}, {K: "exitsig", A: 0}, {K: "exitsig", A: 0}}},
		// C08: last child disabled, then a restart: the machine must leave the starting mode
		{Kind: "afo", Strategy: 2, Intensity: 3, Period: 5, Sig: []bool{false, false, false}, Stream: "scripted",
			Ops: []mOp{{K: "disable", A: 2}, {K: "exitsig", A: 0}, {K: "exit", A: 0, R: 10}, {K: "exitsig", A: 0}, {K: "enable", A: 2}}},
		// C09/C10: SOFO, a disabled spec's pid must not stay in the wait set forever
		{Kind: "sofo", Strategy: 2, Intensity: 1, Period: 5, Sig: []bool{false, false}, Stream: "scripted",
			Ops: []mOp{{K: "start", A: 0}, {K: "start", A: 1}, {K: "disable", A: 0}, {K: "exitsig", A: 0}, {K: "exit", A: 0, R: 10}, {K: "exit", A: 0, R: 10}, {K: "exitsig", A: 0}}},
	}
}

// witnesses of known findings; run only when known_findings.json lists the tag (bin/checks/supmachine.py)
func witnessCases(tags string) []*mCase {
	var out []*mCase
	for _, t := range strings.Split(tags, ",") {
		switch t {
		case "stale-exit":
			// DisableChild, then EnableChild before the exit of the old instance has been taken from the
			// mailbox: the old exit is matched by name and wipes the pid of the new instance
			for _, kind := range []string{"ofo", "afo"} {
				out = append(out, &mCase{Kind: kind, Strategy: 0, Intensity: 3, Period: 5, Sig: []bool{false, false}, Stream: "witness",
					Tags: []string{"stale-exit"},
					Ops: []mOp{{K: "disable", A: 0}, {K: "enable", A: 0}, {K: "exitsig", A: 0}}})
			}
		}
	}
	return out
}

func runMachine(n int, out string, replay string, witness string) {
	o := util.NewOut("sup.machine")
	var cases []*mCase
	if replay != "" {
		b, err := os.ReadFile(replay)
		if err != nil {
			panic(err)
		}
		var rp struct {
			Case mCase `json:"case"`
		}
		if err := json.Unmarshal(b, &rp); err != nil {
			panic(err)
		}
		cases = append(cases, &rp.Case)
	} else {
		cases = append(cases, scriptedCases()...)
		if witness != "" {
			cases = append(cases, witnessCases(witness)...)
		}
		r := util.Rng(2)
		nex := n / 3
		depth := 3
		if os.Getenv("VERIF_TIER") == "thorough" {
			depth = 4
		}
		cases = append(cases, exhaustiveCases(3, depth, nex, util.Rng(3))...)
		for i := 0; len(cases) < n; i++ {
			cases = append(cases, genMachineCase(r, i))
		}
	}
	for _, c := range cases {
		term, fails := execMachineCase(c, o.Stats)
		idx := o.Add(term, c)
		for _, f := range fails {
			o.Monitor = append(o.Monitor, util.MonitorFail{Case: idx, What: f})
		}
		o.Stats["stream:"+c.Stream]++
		o.Stats["kind:"+c.Kind]++
		o.Stats[fmt.Sprintf("strategy:%d", c.Strategy)]++
		o.Stats[fmt.Sprintf("children:%d", len(c.Sig))]++
		if strings.Contains(term, "RPanic") {
			o.Stats["cases-with-panic"]++
		}
	}
	o.Write(out)
}
