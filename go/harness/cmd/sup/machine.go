package main

func runMachine(n int, out string, replay string) {}
