package main

import (
	"encoding/json"
	"fmt"
	"math/rand"
	"os"
	"strings"
	"time"

	"ergo.services/ergo/act"
	"verifharness/util"
)

// One case = one supervisor life: a sequence of restart requests. Before request k the
// recorded timestamps are moved Shift[k] ms into the past (= the clock advanced).
type intensityCase struct {
	Period    int     `json:"period"`
	Intensity int     `json:"intensity"`
	Shifts    []int64 `json:"shifts"`
	Pattern   string  `json:"pattern"`
}

type intensityStep struct {
	Shift int64
	In    []int64
	Now   int64
	Out   []int64
	Ex    bool
}

func genIntensityCase(r *rand.Rand) intensityCase {
	c := intensityCase{}
	c.Period = []int{1, 1, 2, 3, 5, 60}[r.Intn(6)]
	c.Intensity = []int{0, 1, 1, 2, 3, 5, 8}[r.Intn(7)]
	pm := int64(c.Period) * 1000
	n := 1 + r.Intn(3*(c.Intensity+2))
	c.Pattern = []string{"burst", "drip", "edge", "mixed", "bursts-apart"}[r.Intn(5)]
	for i := 0; i < n; i++ {
		var d int64
		switch c.Pattern {
		case "burst":
			d = int64(r.Intn(3))
		case "drip":
			d = pm/int64(c.Intensity+1) + int64(r.Intn(200)) - 100
		case "edge":
			// put the oldest entries right at the edge of the window
			d = pm/int64(1+r.Intn(c.Intensity+2)) + int64(r.Intn(5)) - 2
		case "bursts-apart":
			if r.Intn(c.Intensity+1) == 0 {
				d = pm + int64(r.Intn(5)) - 2
			} else {
				d = int64(r.Intn(2))
			}
		default:
			switch r.Intn(4) {
			case 0:
				d = int64(r.Intn(3))
			case 1:
				d = pm + int64(r.Intn(7)) - 3
			case 2:
				d = int64(r.Intn(int(2 * pm)))
			default:
				d = pm / 2
			}
		}
		if d < 0 {
			d = 0
		}
		c.Shifts = append(c.Shifts, d)
	}
	return c
}

func execIntensityCase(c intensityCase) []intensityStep {
	var steps []intensityStep
	var restarts []int64
	for _, d := range c.Shifts {
		for i := range restarts {
			restarts[i] -= d
		}
		in := append([]int64{}, restarts...)
		// the function reads the wall clock itself: call it (on a private copy of the list, it is pure in
		// its arguments) until the millisecond did not change across the call, so `now` is known exactly
		var out []int64
		var ex bool
		var now int64
		for try := 0; ; try++ {
			arg := append([]int64{}, in...)
			before := time.Now().UnixMilli()
			out, ex = act.VerifCheckRestartIntensity(arg, c.Period, c.Intensity)
			after := time.Now().UnixMilli()
			now = before
			if before == after || try > 50 {
				break
			}
		}
		st := intensityStep{Shift: d, In: in, Out: append([]int64{}, out...), Ex: ex, Now: now}
		restarts = out
		steps = append(steps, st)
	}
	return steps
}

func coqIntensityCase(c intensityCase, steps []intensityStep) string {
	var ss []string
	for _, s := range steps {
		ss = append(ss, fmt.Sprintf("mk_istep %s %s %s %s %s", util.Z(s.Shift), util.ZList(s.In), util.Z(s.Now), util.ZList(s.Out), util.B(s.Ex)))
	}
	return fmt.Sprintf("mk_icase %d %d [%s]", c.Period, c.Intensity, strings.Join(ss, "; "))
}

func runIntensity(n int, out string, replay string) {
	o := util.NewOut("sup.intensity")
	var cases []intensityCase
	if replay != "" {
		b, err := os.ReadFile(replay)
		if err != nil {
			panic(err)
		}
		var rp struct {
			Case intensityCase `json:"case"`
		}
		if err := json.Unmarshal(b, &rp); err != nil {
			panic(err)
		}
		cases = append(cases, rp.Case)
	} else {
		r := util.Rng(1)
		for i := 0; i < n; i++ {
			cases = append(cases, genIntensityCase(r))
		}
	}
	for _, c := range cases {
		steps := execIntensityCase(c)
		o.Add(coqIntensityCase(c, steps), c)
		o.Stats["pattern:"+c.Pattern]++
		o.Stats[fmt.Sprintf("intensity:%d", c.Intensity)]++
		o.Stats["steps"] += len(steps)
		for _, s := range steps {
			if s.Ex {
				o.Stats["exceeded"]++
			} else {
				o.Stats["not-exceeded"]++
			}
			if len(s.Out) < len(s.In)+1 {
				o.Stats["pruned"]++
			}
		}
	}
	o.Write(out)
}
