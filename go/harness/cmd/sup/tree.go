package main

// Sub-command "tree" (C10): process trees of arbitrary shape on a real node - owner actors that spawn
// their children from Init with chosen LinkParent / LinkChild options, act.Supervisor (temporary children:
// the tree stays as it was started), act.Pool with its workers, exit-trapping actors at any place - and
// one fault at any node: Node.Kill, an exit signal from outside, an error returned by a callback, a
// ProcessInit that fails after the children were started. The run is observed through the VerifPoint
// hooks (spawn.store: registered, unreg.delete: unregistered, exit.send: every exit signal with sender
// and receiver) until nothing moves, and printed as a Coq case for Tree/Cases.v.

import (
	"encoding/json"
	"errors"
	"fmt"
	"os"
	"sort"
	"strings"
	"sync"
	"time"

	"ergo.services/ergo"
	"ergo.services/ergo/act"
	"ergo.services/ergo/gen"
	"ergo.services/ergo/lib"
	"verifharness/util"
)

type tNode struct {
	Kind     string  `json:"kind"` // owner | sup | pool (leaf: owner without kids)
	Trap     bool    `json:"trap"`
	LP       bool    `json:"lp"` // options an owner parent uses for this child (a supervisor forces both, a pool LinkParent only)
	LC       bool    `json:"lc"`
	FailInit bool    `json:"fail_init"` // its ProcessInit fails after the children were started
	SupType  string  `json:"suptype,omitempty"`
	Kids     []tNode `json:"kids,omitempty"`
}

type tCase struct {
	Root   tNode    `json:"root"`
	Fault  string   `json:"fault"`  // kill | exit | error | initfail (the target carries FailInit)
	Target string   `json:"target"` // path of the faulted node ("" = root, "0.2" ...)
	Tags   []string `json:"tags"`
}

type tProc struct {
	pid        gen.PID
	parent     gen.PID
	path       string
	kind       string // actor | sup | pool
	trap       bool
	lp, lc     bool
	registered bool
}

type tEvent struct {
	unreg    bool
	a, b     gen.PID
}

type tReg struct {
	sync.Mutex
	procs  []*tProc
	byPID  map[gen.PID]*tProc
	events []tEvent
	on     bool
}

var treg = &tReg{}

func (r *tReg) reset() {
	r.Lock()
	r.procs, r.byPID, r.events, r.on = nil, map[gen.PID]*tProc{}, nil, true
	r.Unlock()
}

func (r *tReg) add(p gen.Process, path string, kind string, trap bool, n tNode, parentKind string) {
	lp, lc := n.LP, n.LC
	switch parentKind {
	case "sup":
		lp, lc = true, true
	case "pool":
		lp, lc = true, false
	case "":
		lp, lc = false, false
	}
	r.Lock()
	tp := &tProc{pid: p.PID(), parent: p.Parent(), path: path, kind: kind, trap: trap, lp: lp, lc: lc}
	r.procs = append(r.procs, tp)
	r.byPID[tp.pid] = tp
	r.Unlock()
}

func treeHook(label string, obj any) {
	switch label {
	case "exit.send":
		ft := obj.([2]gen.PID)
		treg.Lock()
		if treg.on {
			treg.events = append(treg.events, tEvent{false, ft[0], ft[1]})
		}
		treg.Unlock()
	case "unreg.delete", "spawn.store":
		p, ok := obj.(interface{ PID() gen.PID })
		if !ok {
			return
		}
		treg.Lock()
		if treg.on {
			if label == "unreg.delete" {
				treg.events = append(treg.events, tEvent{true, p.PID(), gen.PID{}})
			} else if tp := treg.byPID[p.PID()]; tp != nil {
				tp.registered = true
			}
		}
		treg.Unlock()
	}
}

type tDie struct{ reason error }

type tArgs struct {
	path       string
	node       tNode
	parentKind string
	failNow    *int // pool workers: the start that brings this counter to zero fails
}

// ---- owner / leaf actor ---------------------------------------------------------------------------
type tActor struct {
	act.Actor
}

func tFactory(n tNode) gen.ProcessFactory {
	switch n.Kind {
	case "sup":
		return func() gen.ProcessBehavior { return &tSup{} }
	case "pool":
		return func() gen.ProcessBehavior { return &tPool{} }
	}
	return func() gen.ProcessBehavior { return &tActor{} }
}

func (a *tActor) Init(args ...any) error {
	ta := args[0].(tArgs)
	treg.add(a, ta.path, "actor", ta.node.Trap, ta.node, ta.parentKind)
	if ta.node.Trap {
		a.SetTrapExit(true)
	}
	if ta.failNow != nil {
		*ta.failNow--
		if *ta.failNow == 0 {
			return errors.New("worker init refused by the harness")
		}
	}
	if ta.node.Kind == "failing" {
		return errors.New("init refused by the harness")
	}
	for i, k := range ta.node.Kids {
		opt := gen.ProcessOptions{LinkParent: k.LP, LinkChild: k.LC}
		a.Spawn(tFactory(k), opt, tArgs{path: tPath(ta.path, i), node: k, parentKind: "owner"})
	}
	if ta.node.FailInit {
		return errors.New("init fails after the children were started")
	}
	return nil
}

func (a *tActor) HandleMessage(from gen.PID, message any) error {
	if m, ok := message.(tDie); ok {
		return m.reason
	}
	return nil
}

func tPath(p string, i int) string {
	if p == "" {
		return fmt.Sprintf("%d", i)
	}
	return fmt.Sprintf("%s.%d", p, i)
}

// ---- supervisor -------------------------------------------------------------------------------------
type tSup struct {
	act.Supervisor
}

func (s *tSup) Init(args ...any) (act.SupervisorSpec, error) {
	ta := args[0].(tArgs)
	treg.add(s, ta.path, "sup", false, ta.node, ta.parentKind)
	spec := act.SupervisorSpec{Type: sfType(ta.node.SupType)}
	spec.Restart = act.SupervisorRestart{Strategy: act.SupervisorStrategyTemporary, Intensity: 5, Period: 5}
	kids := ta.node.Kids
	if ta.node.FailInit {
		kids = append(append([]tNode{}, kids...), tNode{Kind: "failing"})
	}
	for i, k := range kids {
		cs := act.SupervisorChildSpec{Name: gen.Atom("t" + strings.ReplaceAll(tPath(ta.path, i), ".", "_")), Factory: tFactory(k)}
		cs.Args = []any{tArgs{path: tPath(ta.path, i), node: k, parentKind: "sup"}}
		spec.Children = append(spec.Children, cs)
	}
	return spec, nil
}

func (s *tSup) HandleMessage(from gen.PID, message any) error {
	if m, ok := message.(tDie); ok {
		return m.reason
	}
	return nil
}

// ---- pool ---------------------------------------------------------------------------------------------
type tPool struct {
	act.Pool
}

func (p *tPool) Init(args ...any) (act.PoolOptions, error) {
	ta := args[0].(tArgs)
	treg.add(p, ta.path, "pool", false, ta.node, ta.parentKind)
	w := tNode{Kind: "owner"}
	if len(ta.node.Kids) > 0 {
		w = ta.node.Kids[0]
	}
	size := len(ta.node.Kids)
	if size < 1 {
		size = 1
	}
	wa := tArgs{path: ta.path + ".w", node: w, parentKind: "pool"}
	if ta.node.FailInit {
		size++
		n := size
		wa.failNow = &n
	}
	return act.PoolOptions{PoolSize: int64(size), WorkerFactory: tFactory(w), WorkerArgs: []any{wa}}, nil
}

func (p *tPool) HandleMessage(from gen.PID, message any) error {
	if m, ok := message.(tDie); ok {
		return m.reason
	}
	return nil
}

// ---- the run -----------------------------------------------------------------------------------------
type tStart struct {
	root  tNode
	reply chan startReply
}
type tExit struct {
	to     gen.PID
	reason error
}

type tWatcher struct {
	act.Actor
}

func (w *tWatcher) Init(args ...any) error {
	w.SetTrapExit(true)
	return nil
}

func (w *tWatcher) HandleMessage(from gen.PID, message any) error {
	switch m := message.(type) {
	case tStart:
		pid, err := w.Spawn(tFactory(m.root), gen.ProcessOptions{}, tArgs{path: "", node: m.root, parentKind: ""})
		m.reply <- startReply{pid, err}
	case tExit:
		w.SendExit(m.to, m.reason)
	}
	return nil
}

func tQuiet(node gen.Node) bool {
	treg.Lock()
	procs := append([]*tProc{}, treg.procs...)
	treg.Unlock()
	for _, p := range procs {
		info, err := node.ProcessInfo(p.pid)
		if err != nil {
			continue
		}
		if info.State != gen.ProcessStateSleep || info.MailboxQueues.Main+info.MailboxQueues.System+info.MailboxQueues.Urgent > 0 {
			return false
		}
	}
	return true
}

func tSettle(node gen.Node) {
	// quiescent: every live process sleeps with an empty mailbox, no new event, three times in a row
	last, stable := -1, 0
	end := time.Now().Add(4 * time.Second)
	for time.Now().Before(end) {
		treg.Lock()
		n := len(treg.events) + len(treg.procs)
		treg.Unlock()
		if n == last && tQuiet(node) {
			stable++
			if stable >= 4 {
				return
			}
		} else {
			stable = 0
		}
		last = n
		time.Sleep(8 * time.Millisecond)
	}
}

func tKindCoq(k string) string {
	switch k {
	case "sup":
		return "KSup"
	case "pool":
		return "KPool"
	}
	return "KActor"
}

func runTreeCase(node gen.Node, watcher gen.PID, c tCase, stats map[string]int) (string, string, error) {
	treg.reset()
	reply := make(chan startReply, 1)
	if err := node.Send(watcher, tStart{c.Root, reply}); err != nil {
		return "", "", err
	}
	var sr startReply
	select {
	case sr = <-reply:
	case <-time.After(10 * time.Second):
		return "", "", errors.New("tree start did not return")
	}
	tSettle(node)
	if sr.err != nil {
		stats["start-failed"]++
	}
	// the fault
	var target gen.PID
	treg.Lock()
	for _, p := range treg.procs {
		if p.path == c.Target {
			target = p.pid
		}
	}
	treg.Unlock()
	if c.Fault != "initfail" && target != (gen.PID{}) {
		switch c.Fault {
		case "kill":
			node.Kill(target)
		case "exit":
			node.Send(watcher, tExit{target, errors.New("harness exit")})
		case "error":
			node.Send(target, tDie{errors.New("callback error")})
		}
		tSettle(node)
	}
	treg.Lock()
	treg.on = false
	procs := append([]*tProc{}, treg.procs...)
	events := append([]tEvent{}, treg.events...)
	treg.Unlock()

	idx := map[gen.PID]int{}
	for i, p := range procs {
		idx[p.pid] = i
	}
	outside := func(p gen.PID) int {
		if i, ok := idx[p]; ok {
			return i
		}
		return len(procs) + 7 // the watcher / the node core: not part of the forest
	}
	alive := map[int]bool{}
	var aliveL []int
	for i, p := range procs {
		if _, err := node.ProcessInfo(p.pid); err == nil {
			alive[i] = true
			aliveL = append(aliveL, i)
		}
	}
	sort.Ints(aliveL)
	// read the environment's choices back from the run
	unregAt := map[int]int{}
	for k, e := range events {
		if e.unreg {
			if i, ok := idx[e.a]; ok {
				if _, seen := unregAt[i]; !seen {
					unregAt[i] = k
				}
			}
		}
	}
	isChild := func(c, p int) bool { return c < len(procs) && procs[c].parent == procs[p].pid }
	var faults, ext, evs []string
	for i, p := range procs {
		if alive[i] {
			continue
		}
		explained := false
		if p.registered {
			for _, e := range events {
				if e.unreg || e.b != p.pid {
					continue
				}
				f := outside(e.a)
				switch p.kind {
				case "actor":
					if !p.trap || e.a == p.parent {
						explained = true
					}
				case "pool":
					explained = true
				case "sup":
					if !(f < len(procs) && isChild(f, i)) {
						explained = true
					}
				}
			}
		}
		if !explained {
			faults = append(faults, fmt.Sprintf("(%d, %s)", i, util.B(!p.registered)))
			stats["fault-read-back"]++
		}
	}
	for k, e := range events {
		if e.unreg {
			if i, ok := idx[e.a]; ok {
				evs = append(evs, fmt.Sprintf("EUnreg %d", i))
			}
			continue
		}
		f, t := outside(e.a), outside(e.b)
		if t >= len(procs) {
			continue
		}
		evs = append(evs, fmt.Sprintf("EExit %d %d", f, t))
		at, gone := unregAt[f]
		if f >= len(procs) || !gone || at > k {
			ext = append(ext, fmt.Sprintf("(%d, %d)", f, t))
		}
	}
	var forest []string
	for _, p := range procs {
		// the root's parent is the harness process that spawned it: a pid outside the forest
		par := fmt.Sprintf("(Some %d)", outside(p.parent))
		forest = append(forest, fmt.Sprintf("mk_tproc %s %s %s %s %s", par, tKindCoq(p.kind), util.B(p.trap), util.B(p.lp), util.B(p.lc)))
		stats["proc:"+p.kind]++
		if p.trap {
			stats["proc:trapping"]++
		}
	}
	var al []string
	for _, i := range aliveL {
		al = append(al, fmt.Sprintf("%d", i))
	}
	stats["procs"] += len(procs)
	stats["survivors"] += len(aliveL)
	if len(aliveL) > 0 {
		stats["cases-with-survivors"]++
	}
	coq := fmt.Sprintf("mk_tcase %s %s %s %s %s", util.List(forest), util.List(faults), util.List(ext), util.List(evs), util.List(al))
	// Go-side monitor: a survivor with a dead ancestor along LinkParent edges
	what := ""
	for _, i := range aliveL {
		j := i
		for procs[j].lp {
			pi, ok := idx[procs[j].parent]
			if !ok {
				break
			}
			if !alive[pi] {
				what = fmt.Sprintf("orphan: process %d (%s, path %q, trap=%v) is alive although %d (%s, path %q) above it is gone (fault %s at %q)",
					i, procs[i].kind, procs[i].path, procs[i].trap, pi, procs[pi].kind, procs[pi].path, c.Fault, c.Target)
				break
			}
			j = pi
		}
		if what != "" {
			break
		}
	}
	// clean up: kill whatever is left so that the next case starts on an empty node
	for _, i := range aliveL {
		node.Kill(procs[i].pid)
	}
	for _, i := range aliveL {
		sfWaitGone(node, []gen.PID{procs[i].pid}, 2*time.Second)
	}
	return coq, what, nil
}

func genTreeNode(r interface{ Intn(int) int }, depth int, budget *int) tNode {
	n := tNode{Kind: "owner", Trap: r.Intn(2) == 0, LP: r.Intn(5) != 0, LC: r.Intn(4) == 0}
	if depth >= 3 || *budget <= 0 {
		return n
	}
	switch r.Intn(5) {
	case 0, 1:
		n.Kind = "sup"
		n.Trap = false
		n.SupType = []string{"ofo", "afo", "rfo"}[r.Intn(3)]
	case 2:
		n.Kind = "pool"
		n.Trap = false
	case 3:
		return n // leaf
	}
	k := 1 + r.Intn(3)
	if n.Kind == "pool" {
		w := tNode{Kind: "owner", Trap: r.Intn(2) == 0}
		if depth < 2 && r.Intn(3) == 0 {
			w.Kids = []tNode{{Kind: "owner", Trap: r.Intn(2) == 0, LP: true}}
		}
		for j := 0; j < k; j++ {
			n.Kids = append(n.Kids, w)
		}
		*budget -= k
		return n
	}
	for j := 0; j < k; j++ {
		*budget--
		n.Kids = append(n.Kids, genTreeNode(r, depth+1, budget))
	}
	return n
}

func tPaths(n *tNode, path string, out *[]string, nodes map[string]*tNode) {
	*out = append(*out, path)
	nodes[path] = n
	if n.Kind == "pool" {
		return // workers share one path; they are not fault targets by path
	}
	for i := range n.Kids {
		tPaths(&n.Kids[i], tPath(path, i), out, nodes)
	}
}

func genTreeCase(r interface{ Intn(int) int }, i int) tCase {
	budget := 9
	c := tCase{Tags: []string{}}
	c.Root = genTreeNode(r, 0, &budget)
	if len(c.Root.Kids) == 0 {
		c.Root.Kind = "owner"
		c.Root.Kids = []tNode{genTreeNode(r, 1, &budget), genTreeNode(r, 1, &budget)}
	}
	var paths []string
	nodes := map[string]*tNode{}
	tPaths(&c.Root, "", &paths, nodes)
	c.Target = paths[r.Intn(len(paths))]
	if i%3 == 0 {
		c.Target = "" // the root: everything has to go
	}
	c.Fault = []string{"kill", "exit", "error", "initfail", "kill"}[r.Intn(5)]
	if c.Fault == "initfail" {
		t := nodes[c.Target]
		if len(t.Kids) == 0 {
			c.Fault = "kill"
		} else {
			t.FailInit = true
		}
	}
	c.Tags = append(c.Tags, "fault-"+c.Fault)
	return c
}

func runTree(n int, out string, replay string) {
	o := util.NewOut("sup-tree")
	hook := treeHook
	lib.VerifHook.Store(&hook)
	nopt := gen.NodeOptions{}
	nopt.Network.Mode = gen.NetworkModeDisabled
	nopt.Log.Level = gen.LogLevelDisabled
	node, err := ergo.StartNode(gen.Atom(fmt.Sprintf("veriftree%d@localhost", os.Getpid())), nopt)
	if err != nil {
		fmt.Fprintln(os.Stderr, "cannot start node:", err)
		os.Exit(1)
	}
	defer node.StopForce()
	watcher, err := node.Spawn(func() gen.ProcessBehavior { return &tWatcher{} }, gen.ProcessOptions{})
	if err != nil {
		fmt.Fprintln(os.Stderr, "cannot start watcher:", err)
		os.Exit(1)
	}
	var cases []tCase
	if replay != "" {
		b, err := os.ReadFile(replay)
		if err != nil {
			panic(err)
		}
		var rp struct {
			Case tCase `json:"case"`
		}
		if err := json.Unmarshal(b, &rp); err != nil {
			panic(err)
		}
		cases = append(cases, rp.Case)
	} else {
		leafT := tNode{Kind: "owner", Trap: true, LP: true}
		leafP := tNode{Kind: "owner", LP: true}
		// corpus: the shapes of the Coq witnesses and of the repaired defect
		cases = append(cases,
			// nested supervisor with a trapping child, the nested supervisor is killed
			tCase{Root: tNode{Kind: "sup", SupType: "ofo", Kids: []tNode{{Kind: "sup", SupType: "ofo", Kids: []tNode{leafT, leafP}}, leafT}}, Fault: "kill", Target: "0", Tags: []string{"corpus", "fault-kill"}},
			// a pool whose start fails at the last worker
			tCase{Root: tNode{Kind: "owner", Trap: true, Kids: []tNode{{Kind: "pool", LP: true, FailInit: true, Kids: []tNode{leafT, leafT}}}}, Fault: "initfail", Target: "0", Tags: []string{"corpus", "fault-initfail"}},
			// an owner whose init fails after it started LinkParent-only trapping children under a supervisor
			tCase{Root: tNode{Kind: "owner", Trap: true, Kids: []tNode{{Kind: "owner", LP: true, FailInit: true, Kids: []tNode{leafT, {Kind: "sup", LP: true, SupType: "afo", Kids: []tNode{leafT}}}}}}, Fault: "initfail", Target: "0", Tags: []string{"corpus", "fault-initfail"}},
			// a supervisor whose start fails after a trapping child and a nested supervisor
			tCase{Root: tNode{Kind: "sup", SupType: "rfo", FailInit: true, Kids: []tNode{leafT, {Kind: "sup", SupType: "ofo", Kids: []tNode{leafT}}}}, Fault: "initfail", Target: "", Tags: []string{"corpus", "fault-initfail"}},
			// thorough-tier case: the init of a trapping LinkChild+LinkParent child of a NON-trapping owner fails after it
			// started an unlinked supervisor: the owner gets only the error of Spawn (no exit signal: the LinkChild relation is
			// added after a successful spawn), so the owner, its pool and the unlinked supervisor stay
			tCase{Root: tNode{Kind: "owner", Kids: []tNode{
				{Kind: "owner", Trap: true, LP: true, LC: true, FailInit: true, Kids: []tNode{{Kind: "sup", SupType: "afo", Kids: []tNode{leafP}}}},
				{Kind: "pool", LP: true, Kids: []tNode{{Kind: "owner", Kids: []tNode{leafP}}, {Kind: "owner", Kids: []tNode{leafP}}}}}},
				Fault: "initfail", Target: "0", Tags: []string{"corpus", "fault-initfail"}},
			// pool killed, workers trap
			tCase{Root: tNode{Kind: "sup", SupType: "ofo", Kids: []tNode{{Kind: "pool", Kids: []tNode{leafT, leafT, leafT}}}}, Fault: "kill", Target: "0", Tags: []string{"corpus", "fault-kill"}},
		)
		r := util.Rng(53)
		for i := 0; len(cases) < n; i++ {
			cases = append(cases, genTreeCase(r, i))
		}
	}
	for _, c := range cases {
		coq, what, err := runTreeCase(node, watcher, c, o.Stats)
		if err != nil {
			o.Notes = append(o.Notes, err.Error())
			o.Stats["notes"]++
			continue
		}
		idx := o.Add(coq, c)
		o.Stats["runs"]++
		for _, t := range c.Tags {
			o.Stats["family:"+t]++
		}
		if what != "" {
			o.Monitor = append(o.Monitor, util.MonitorFail{Case: idx, What: what})
		}
	}
	o.Write(out)
}
