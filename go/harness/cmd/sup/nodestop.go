package main

// Sub-command "nodestop" (C10): a graceful Node.Stop() must take every process down and return. Each
// case starts its own node, grows a random process tree on it (plain actors spawned by other actors with
// and without LinkParent / LinkChild, exit-trapping actors anywhere, supervisors, pools - the generator
// of the tree family) plus unlinked trapping actors spawned by the node itself, then calls Stop() under
// a watchdog. Go-side monitor: Stop() returned in time and no process of the tree is left.

import (
	"encoding/json"
	"fmt"
	"os"
	"time"

	"ergo.services/ergo"
	"ergo.services/ergo/gen"
	"ergo.services/ergo/lib"
	"verifharness/util"
)

type nsCase struct {
	Root tNode    `json:"root"`
	Tags []string `json:"tags"`
}

var nsSeq int

func runNodeStopCase(c nsCase, stats map[string]int) (string, error) {
	nsSeq++
	nopt := gen.NodeOptions{}
	nopt.Network.Mode = gen.NetworkModeDisabled
	nopt.Log.Level = gen.LogLevelDisabled
	node, err := ergo.StartNode(gen.Atom(fmt.Sprintf("verifns%dx%d@localhost", os.Getpid(), nsSeq)), nopt)
	if err != nil {
		return "", err
	}
	watcher, err := node.Spawn(func() gen.ProcessBehavior { return &tWatcher{} }, gen.ProcessOptions{})
	if err != nil {
		node.StopForce()
		return "", err
	}
	treg.reset()
	reply := make(chan startReply, 1)
	if err := node.Send(watcher, tStart{c.Root, reply}); err != nil {
		node.StopForce()
		return "", err
	}
	select {
	case <-reply:
	case <-time.After(10 * time.Second):
		node.StopForce()
		return "", fmt.Errorf("tree start did not return")
	}
	tSettle(node)
	treg.Lock()
	procs := append([]*tProc{}, treg.procs...)
	treg.Unlock()
	ntrap := 0
	for _, p := range procs {
		if p.trap {
			ntrap++
		}
	}
	stats["processes"] += len(procs)
	stats["trapping"] += ntrap
	done := make(chan struct{})
	go func() {
		node.Stop()
		close(done)
	}()
	select {
	case <-done:
		return "", nil
	case <-time.After(8 * time.Second):
	}
	// not stopped: who is still there?
	var left []string
	for _, p := range procs {
		if info, err := node.ProcessInfo(p.pid); err == nil {
			left = append(left, fmt.Sprintf("%s(%s trap=%v state=%s)", p.path, p.kind, p.trap, info.State))
		}
	}
	node.StopForce()
	select {
	case <-done:
	case <-time.After(3 * time.Second):
	}
	return fmt.Sprintf("graceful Node.Stop() did not return within 8 s; %d of %d processes of the tree still registered: %v", len(left), len(procs), left), nil
}

func runNodeStop(n int, out string, replay string) {
	o := util.NewOut("sup-nodestop")
	hook := treeHook
	lib.VerifHook.Store(&hook)
	var cases []nsCase
	if replay != "" {
		b, err := os.ReadFile(replay)
		if err != nil {
			panic(err)
		}
		var rp struct {
			Case nsCase `json:"case"`
		}
		if err := json.Unmarshal(b, &rp); err != nil {
			panic(err)
		}
		cases = append(cases, rp.Case)
	} else {
		leafT := tNode{Kind: "owner", Trap: true}
		leafTL := tNode{Kind: "owner", Trap: true, LP: true}
		leafP := tNode{Kind: "owner"}
		cases = append(cases,
			// an unlinked exit-trapping actor spawned by another actor (not by the node): the shutdown signal must still be fatal
			nsCase{Root: tNode{Kind: "owner", Kids: []tNode{leafT, leafP}}, Tags: []string{"corpus"}},
			nsCase{Root: tNode{Kind: "owner", Trap: true, Kids: []tNode{{Kind: "owner", Trap: true, Kids: []tNode{leafT}}}}, Tags: []string{"corpus"}},
			nsCase{Root: tNode{Kind: "sup", SupType: "ofo", Kids: []tNode{leafTL, {Kind: "pool", LP: true, Kids: []tNode{leafTL, leafTL}}}}, Tags: []string{"corpus"}},
		)
		r := util.Rng(57)
		for i := 0; len(cases) < n; i++ {
			budget := 8
			root := genTreeNode(r, 0, &budget)
			if len(root.Kids) == 0 {
				root.Kind = "owner"
				root.Kids = []tNode{genTreeNode(r, 1, &budget), {Kind: "owner", Trap: true}}
			}
			cases = append(cases, nsCase{Root: root, Tags: []string{}})
		}
	}
	for _, c := range cases {
		what, err := runNodeStopCase(c, o.Stats)
		idx := o.Add("tt", c)
		o.Stats["runs"]++
		if err != nil {
			o.Notes = append(o.Notes, err.Error())
			o.Stats["notes"]++
			continue
		}
		if what != "" {
			o.Monitor = append(o.Monitor, util.MonitorFail{Case: idx, What: what})
		}
	}
	o.Write(out)
}
