// Harness for the supervisor engine: drives the real restart-intensity function and the
// real supervisor state machines (through act/verif_export.go) and records what they do.
package main

import (
	"flag"
	"fmt"
	"os"
)

func main() {
	if len(os.Args) < 2 {
		fmt.Fprintln(os.Stderr, "usage: sup <intensity|machine|e2e|startfail|tree> [flags]")
		os.Exit(2)
	}
	fs := flag.NewFlagSet(os.Args[1], flag.ExitOnError)
	n := fs.Int("n", 300, "number of cases")
	out := fs.String("out", "", "output json")
	replay := fs.String("replay", "", "replay file (json case)")
	what := fs.String("what", "c08,c09,c10", "e2e: scenario families")
	witness := fs.String("witness", "", "machine: tags of known findings whose witnesses are to be run")
	fs.Parse(os.Args[2:])
	switch os.Args[1] {
	case "intensity":
		runIntensity(*n, *out, *replay)
	case "machine":
		runMachine(*n, *out, *replay, *witness)
	case "e2e":
		runE2E(*n, *out, *replay, *what)
	case "startfail":
		runStartFail(*n, *out, *replay)
	case "nodestop":
		runNodeStop(*n, *out, *replay)
	case "tree":
		runTree(*n, *out, *replay)
	default:
		fmt.Fprintln(os.Stderr, "unknown subcommand")
		os.Exit(2)
	}
}
