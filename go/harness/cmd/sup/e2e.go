package main

// Sub-command "e2e": a REAL node, a real act.Supervisor and instrumented child actors.
// The harness injects faults (kill / exit children, several at once, right after start; management
// calls; exit or kill of the supervisor itself), waits for quiescence by polling (never by sleeping
// for a fixed time), and records
//   - every spawn (child Init, runs inside Supervisor.handleAction),
//   - every exit message in the order the supervisor takes it from its mailbox
//     (lib.VerifPoint("sup.exit") in Supervisor.ProcessRun, build tag verif),
//   - every management call in the order the supervisor executes it,
// as the operation list of Sup/Machine.v, and at every quiescent point what Supervisor.Children()
// reports, which children are really alive, and how the supervisor ended (reason seen by a monitor).
// Go-side monitors (C10): after the supervisor is gone no child it ever started is alive.

import (
	"encoding/json"
	"errors"
	"fmt"
	"math/rand"
	"os"
	"sort"
	"strings"
	"sync"
	"time"

	"ergo.services/ergo"
	"ergo.services/ergo/act"
	"ergo.services/ergo/gen"
	"ergo.services/ergo/lib"
	"verifharness/util"
)

type eStep struct {
	K     string `json:"k"` // kill busykill exit dieonstart start enable disable killsup exitsup wait
	Names []int  `json:"names,omitempty"`
	R     int    `json:"r,omitempty"`
	N     int    `json:"n,omitempty"`
}

type eCase struct {
	Kind      string   `json:"kind"`
	Strategy  int      `json:"strategy"`
	Keep      bool     `json:"keeporder"`
	NoAuto    bool     `json:"disable_auto_shutdown"`
	Intensity int      `json:"intensity"`
	Period    int      `json:"period"`
	Sig       []bool   `json:"significant"`
	Steps     []eStep  `json:"steps"`
	Family    string   `json:"family"`
	Tags      []string `json:"tags,omitempty"`
}

// ---- recorder shared by hook, children and supervisor ---------------------------------------------

type eEvent struct {
	kind   string // spawn exit mgmt
	name   int
	pid    gen.PID
	reason int
	now    int64
	what   string
	ok     bool
}

type recorder struct {
	sync.Mutex
	events     []eEvent
	dieOnStart map[int][]int // name -> reasons for the next starts
	sup        gen.PID
	unknown    []string
}

var rec = &recorder{}

func (r *recorder) add(e eEvent) {
	r.Lock()
	r.events = append(r.events, e)
	r.Unlock()
}

func (r *recorder) count() int {
	r.Lock()
	defer r.Unlock()
	return len(r.events)
}

var e2eAbnormal = errors.New("abnormal-10")

func e2eReason(code int) error {
	if code >= 10 {
		return e2eAbnormal
	}
	return reasonOf(code)
}

func e2eCode(e error) int {
	if e == nil {
		return 0
	}
	switch e {
	case gen.TerminateReasonNormal:
		return 1
	case gen.TerminateReasonShutdown:
		return 2
	case gen.TerminateReasonKill:
		return 3
	case gen.TerminateReasonPanic:
		return 4
	case act.ErrSupervisorRestartsExceeded:
		return 5
	}
	if errors.Is(e, act.ErrSupervisorRestartsExceeded) {
		return 5
	}
	if e != e2eAbnormal {
		// not a reason the harness handed in: remember its text for the report
		rec.Lock()
		rec.unknown = append(rec.unknown, e.Error())
		rec.Unlock()
		if errors.Is(e, gen.ErrTaken) {
			return 20
		}
	}
	return 10
}

// ---- child actor ------------------------------------------------------------------------------------

type e2eChild struct {
	act.Actor
	name int
}

type cmdDie struct{ reason error }

func factoryE2EChild() gen.ProcessBehavior { return &e2eChild{} }

func (c *e2eChild) Init(args ...any) error {
	c.name = args[0].(int)
	rec.Lock()
	rec.events = append(rec.events, eEvent{kind: "spawn", name: c.name, pid: c.PID()})
	var die []int
	if l := rec.dieOnStart[c.name]; len(l) > 0 {
		die = l[:1]
		rec.dieOnStart[c.name] = l[1:]
	}
	rec.Unlock()
	if len(die) > 0 {
		c.Send(c.PID(), cmdDie{e2eReason(die[0])})
	}
	return nil
}

func (c *e2eChild) HandleMessage(from gen.PID, message any) error {
	if m, ok := message.(cmdDie); ok {
		return m.reason
	}
	return nil
}

// ---- supervisor under test ----------------------------------------------------------------------------

type e2eSup struct {
	act.Supervisor
}

type cmdChildren struct{ reply chan []act.SupervisorChild }

// cmdBusy keeps the supervisor inside HandleMessage until gate is closed (exits of its children pile up meanwhile)
type cmdBusy struct{ entered, gate chan struct{} }
type cmdMgmt struct {
	what  string
	name  int
	reply chan error
}

func factoryE2ESup() gen.ProcessBehavior { return &e2eSup{} }

func (s *e2eSup) Init(args ...any) (act.SupervisorSpec, error) {
	return args[0].(act.SupervisorSpec), nil
}

func (s *e2eSup) HandleMessage(from gen.PID, message any) error {
	switch m := message.(type) {
	case cmdBusy:
		close(m.entered)
		<-m.gate
	case cmdChildren:
		m.reply <- s.Children()
	case cmdMgmt:
		var err error
		n0 := rec.count()
		switch m.what {
		case "start":
			err = s.StartChild(atomOf(m.name), m.name)
		case "enable":
			err = s.EnableChild(atomOf(m.name))
		case "disable":
			err = s.DisableChild(atomOf(m.name))
		}
		// the spawn (if any) was recorded by the child's Init inside the call: put the call in front of it
		rec.Lock()
		ev := eEvent{kind: "mgmt", what: m.what, name: m.name, ok: err == nil}
		rec.events = append(rec.events, eEvent{})
		copy(rec.events[n0+1:], rec.events[n0:])
		rec.events[n0] = ev
		rec.Unlock()
		m.reply <- err
	}
	return nil
}

// ---- watcher: parent + monitor of the supervisor ---------------------------------------------------------

type e2eWatcher struct {
	act.Actor
}

type cmdStartSup struct {
	spec  act.SupervisorSpec
	reply chan startReply
	down  chan error
}
type startReply struct {
	pid gen.PID
	err error
}

var watcherDown chan error

func factoryE2EWatcher() gen.ProcessBehavior { return &e2eWatcher{} }

func (w *e2eWatcher) HandleMessage(from gen.PID, message any) error {
	switch m := message.(type) {
	case cmdStartSup:
		pid, err := w.Spawn(factoryE2ESup, gen.ProcessOptions{}, m.spec)
		if err == nil {
			watcherDown = m.down
			if e := w.MonitorPID(pid); e != nil {
				// already gone
				m.down <- e
			}
		}
		m.reply <- startReply{pid, err}
	case gen.MessageDownPID:
		if watcherDown != nil {
			watcherDown <- m.Reason
		}
	}
	return nil
}

// ---- running one scenario ------------------------------------------------------------------------------------

type e2eRun struct {
	node    gen.Node
	watcher gen.PID
	c       *eCase
	sup     gen.PID
	down    chan error
	dead    bool
	killed  bool // the harness has called Node.Kill on the supervisor
	reason  int
	obs     []string
	fails   []string
	nobs    int
}

const pollEvery = 15 * time.Millisecond

func (r *e2eRun) alive(pid gen.PID) bool {
	_, err := r.node.ProcessInfo(pid)
	return err == nil
}

func (r *e2eRun) children() ([]act.SupervisorChild, bool) {
	if r.dead || !r.alive(r.sup) {
		return nil, false
	}
	reply := make(chan []act.SupervisorChild, 1)
	if err := r.node.Send(r.sup, cmdChildren{reply}); err != nil {
		return nil, false
	}
	select {
	case l := <-reply:
		return l, true
	case <-time.After(3 * time.Second):
		return nil, false
	}
}

func (r *e2eRun) checkDown() {
	if r.dead {
		return
	}
	select {
	case e := <-r.down:
		r.dead = true
		r.reason = e2eCode(e)
		if r.killed && r.reason >= 10 {
			// Node.Kill landed while the supervisor was inside handleAction: its own Spawn / SendExit calls are
			// refused (ErrNotAllowed for a killed process) and that error becomes the termination reason.
			// The cause is the harness's Kill: report it as such ("killed from outside" is not an operation of the model)
			r.reason = 3
		}
	default:
	}
}

// spawned children still alive
func (r *e2eRun) liveChildren() []gen.PID {
	rec.Lock()
	var pids []gen.PID
	for _, e := range rec.events {
		if e.kind == "spawn" {
			pids = append(pids, e.pid)
		}
	}
	rec.Unlock()
	var live []gen.PID
	for _, p := range pids {
		if r.alive(p) {
			live = append(live, p)
		}
	}
	return live
}

func fingerprint(l []act.SupervisorChild, ok bool, live []gen.PID, nev int, dead bool) string {
	var sb strings.Builder
	fmt.Fprintf(&sb, "%v|%d|%v|", ok, nev, dead)
	for _, c := range l {
		fmt.Fprintf(&sb, "%s:%d:%v;", c.Spec, c.PID.ID, c.Disabled)
	}
	sb.WriteString("|")
	for _, p := range live {
		fmt.Fprintf(&sb, "%d,", p.ID)
	}
	return sb.String()
}

// quiesce polls until (a) the recorder, Children() and the set of live children did not change for
// several consecutive polls, (b) every pid listed by Children() is alive and every live child is listed
// (or the supervisor is gone and no child is alive). Gives up after the deadline and reports the last view.
// idle: the process sleeps and has nothing in its mailbox (an exit signal on its way to a child, or a child's
// exit message waiting in the supervisor's mailbox, shows up here)
func (r *e2eRun) idle(pid gen.PID) bool {
	info, err := r.node.ProcessInfo(pid)
	if err != nil {
		return true // gone
	}
	q := info.MailboxQueues
	return info.State == gen.ProcessStateSleep && q.Main == 0 && q.System == 0 && q.Urgent == 0
}

func (r *e2eRun) quiesce(deadline time.Duration) ([]act.SupervisorChild, []gen.PID, bool) {
	end := time.Now().Add(deadline)
	last := ""
	stable := 0
	var l []act.SupervisorChild
	var live []gen.PID
	for time.Now().Before(end) {
		time.Sleep(pollEvery)
		r.checkDown()
		allIdle := r.dead || r.idle(r.sup)
		for _, p := range r.liveChildren() {
			if !r.idle(p) {
				allIdle = false
			}
		}
		var ok bool
		l, ok = r.children()
		r.checkDown()
		live = r.liveChildren()
		fp := fingerprint(l, ok, live, rec.count(), r.dead)
		consistent := false
		if ok {
			listed := map[gen.PID]bool{}
			empty := gen.PID{}
			consistent = true
			for _, c := range l {
				if c.PID != empty {
					listed[c.PID] = true
					if !r.alive(c.PID) {
						consistent = false
					}
				}
			}
			for _, p := range live {
				if !listed[p] {
					consistent = false
				}
			}
		} else if r.dead {
			consistent = len(live) == 0
		}
		if fp == last && consistent && allIdle {
			stable++
			if stable >= 4 {
				return l, live, true
			}
		} else {
			stable = 0
		}
		last = fp
	}
	return l, live, false
}

func (r *e2eRun) pidOfName(name int) (gen.PID, bool) {
	l, ok := r.children()
	if !ok {
		return gen.PID{}, false
	}
	empty := gen.PID{}
	for _, c := range l {
		if nameOf(c.Spec) == name && c.PID != empty {
			return c.PID, true
		}
	}
	return gen.PID{}, false
}

func (r *e2eRun) observe(settled bool) {
	l, _ := r.children()
	live := r.liveChildren()
	r.checkDown()
	nops := 0
	rec.Lock()
	for _, e := range rec.events {
		if e.kind == "exit" || e.kind == "mgmt" {
			nops++
		}
	}
	rec.Unlock()
	counts := map[int]int{}
	var names []int
	seen := map[int]bool{}
	empty := gen.PID{}
	for _, c := range l {
		n := nameOf(c.Spec)
		if !seen[n] {
			seen[n] = true
			names = append(names, n)
		}
		if c.PID != empty {
			counts[n]++
		}
	}
	var view []string
	if r.c.Kind != "sofo" {
		for _, n := range names {
			view = append(view, fmt.Sprintf("(%d, %d%%nat)", n, counts[n]))
		}
	} else {
		// SOFO lists running instances only: report the counts for every spec of the case
		for i := range r.c.Sig {
			view = append(view, fmt.Sprintf("(%d, %d%%nat)", i+1, counts[i+1]))
		}
	}
	orphans := 0
	if r.dead {
		orphans = len(live)
	}
	r.obs = append(r.obs, fmt.Sprintf("mk_eobs %d %s %d %s %d %s", nops, util.B(!r.dead), r.reason, util.List(view), orphans, util.B(settled)))
	r.nobs++
}

func (r *e2eRun) mgmt(what string, name int) {
	if r.dead {
		return
	}
	reply := make(chan error, 1)
	if err := r.node.Send(r.sup, cmdMgmt{what, name, reply}); err != nil {
		return
	}
	select {
	case <-reply:
	case <-time.After(3 * time.Second):
	}
}

func runE2ECase(node gen.Node, watcher gen.PID, c *eCase, stats map[string]int) (string, []string) {
	r := &e2eRun{node: node, watcher: watcher, c: c, down: make(chan error, 4)}
	rec.Lock()
	rec.events = nil
	rec.dieOnStart = map[int][]int{}
	rec.Unlock()

	spec := act.SupervisorSpec{Type: supType(c.Kind), DisableAutoShutdown: c.NoAuto}
	spec.Restart = act.SupervisorRestart{Strategy: act.SupervisorStrategy(c.Strategy), Intensity: uint16(c.Intensity),
		Period: uint16(c.Period), KeepOrder: c.Keep}
	var ch []string
	for i, sg := range c.Sig {
		spec.Children = append(spec.Children, act.SupervisorChildSpec{Name: atomOf(i + 1), Significant: sg,
			Factory: factoryE2EChild, Args: []any{i + 1}})
		ch = append(ch, fmt.Sprintf("(%d, %s)", i+1, util.B(sg)))
	}
	// the children's registered names of the previous scenario may be released a moment after its
	// processes have disappeared from the process table: retry the start (harness set-up, not the property)
	var sr startReply
	for try := 0; try < 50; try++ {
		reply := make(chan startReply, 1)
		node.Send(watcher, cmdStartSup{spec, reply, r.down})
		sr = <-reply
		if sr.err == nil || !errors.Is(sr.err, gen.ErrTaken) {
			break
		}
		stats["start-retry"]++
		time.Sleep(20 * time.Millisecond)
		rec.Lock()
		rec.events = nil
		rec.Unlock()
	}
	if sr.err != nil {
		return "", []string{"supervisor did not start: " + sr.err.Error()}
	}
	r.sup = sr.pid
	_, _, settled := r.quiesce(10 * time.Second)
	r.observe(settled)

	for _, st := range c.Steps {
		if r.dead {
			break
		}
		switch st.K {
		case "kill", "exit":
			var pids []gen.PID
			for _, n := range st.Names {
				if p, ok := r.pidOfName(n); ok {
					pids = append(pids, p)
				}
			}
			for _, p := range pids {
				if st.K == "kill" {
					node.Kill(p)
				} else {
					node.SendExit(p, e2eReason(st.R))
				}
			}
			stats["fault-"+st.K] += len(pids)
		case "busykill":
			// the named children die while the supervisor is busy: by the time it takes the first exit every one of them
			// is gone (its exit signals to the siblings find nobody), the other exits are already queued
			var pids []gen.PID
			for _, n := range st.Names {
				if p, ok := r.pidOfName(n); ok {
					pids = append(pids, p)
				}
			}
			busy := cmdBusy{make(chan struct{}), make(chan struct{})}
			if node.Send(r.sup, busy) == nil {
				select {
				case <-busy.entered:
				case <-time.After(2 * time.Second):
				}
				for _, p := range pids {
					node.SendExit(p, e2eAbnormal) // (children do not trap: they terminate with this reason at once)
				}
				end := time.Now().Add(2 * time.Second)
				for time.Now().Before(end) {
					any := false
					for _, p := range pids {
						if r.alive(p) {
							any = true
						}
					}
					if !any {
						break
					}
					time.Sleep(pollEvery)
				}
				time.Sleep(2 * time.Millisecond)
				close(busy.gate)
			}
			stats["fault-busykill"] += len(pids)
		case "dieonstart":
			rec.Lock()
			for i := 0; i < st.N; i++ {
				rec.dieOnStart[st.Names[0]] = append(rec.dieOnStart[st.Names[0]], st.R)
			}
			rec.Unlock()
		case "start", "enable", "disable":
			r.mgmt(st.K, st.Names[0])
			stats["mgmt-"+st.K]++
		case "killsup":
			r.killed = true
			node.Kill(r.sup)
			stats["killsup"]++
		case "exitsup":
			node.SendExit(r.sup, e2eReason(st.R))
			stats["exitsup"]++
		case "wait":
			_, _, settled := r.quiesce(10 * time.Second)
			r.observe(settled)
			if !settled {
				stats["not-settled"]++
			}
		}
	}
	_, live, settled := r.quiesce(10 * time.Second)
	r.observe(settled)
	if !settled {
		stats["not-settled"]++
	}
	// C10 monitor: once the supervisor is gone nothing it started may be alive
	if r.dead && len(live) > 0 {
		r.fails = append(r.fails, fmt.Sprintf("supervisor terminated (reason code %d) but %d of its children are still alive", r.reason, len(live)))
	}
	// clean up
	if !r.dead {
		node.Kill(r.sup)
		end := time.Now().Add(5 * time.Second)
		for time.Now().Before(end) && (r.alive(r.sup) || len(r.liveChildren()) > 0) {
			time.Sleep(pollEvery)
		}
		if l := r.liveChildren(); len(l) > 0 {
			r.fails = append(r.fails, fmt.Sprintf("supervisor killed at the end of the scenario but %d of its children are still alive", len(l)))
			for _, p := range l {
				node.Kill(p)
			}
		}
		stats["end:alive"]++
	} else {
		stats[fmt.Sprintf("end:dead-reason-%d", r.reason)]++
	}

	// build the operation list: pids renumbered in spawn order like the Coq driver allocates them
	rec.Lock()
	evs := append([]eEvent{}, rec.events...)
	rec.Unlock()
	num := map[gen.PID]int64{}
	var spawns []string
	next := int64(1001)
	for _, e := range evs {
		if e.kind == "spawn" {
			num[e.pid] = next
			spawns = append(spawns, fmt.Sprintf("(%d, %d)", next, e.name))
			next++
		}
	}
	var ops []string
	for _, e := range evs {
		switch e.kind {
		case "exit":
			p, ok := num[e.pid]
			if !ok {
				p = 100 // not a child (node core, watcher)
			}
			ops = append(ops, fmt.Sprintf("OExit %d %d %d 0", p, e.reason, e.now))
		case "mgmt":
			fail := 0
			switch e.what {
			case "start":
				ops = append(ops, fmt.Sprintf("OStartChild %d %d", e.name, fail))
			case "enable":
				ops = append(ops, fmt.Sprintf("OEnableChild %d %d", e.name, fail))
			case "disable":
				ops = append(ops, fmt.Sprintf("ODisableChild %d", e.name))
			}
		}
	}
	stats["ops"] += len(ops)
	stats["spawns"] += len(spawns)
	kinds := map[string]string{"ofo": "OFO", "afo": "AFO", "rfo": "RFO", "sofo": "SOFO"}
	strat := []string{"Transient", "Temporary", "Permanent"}[c.Strategy]
	// ProcessInit replaces Intensity 0 / Period 0 by the defaults 5 / 5
	in, pe := c.Intensity, c.Period
	if in == 0 {
		in = 5
	}
	if pe == 0 {
		pe = 5
	}
	cfg := fmt.Sprintf("(mk_config %s %s %s %s %d %d)", kinds[c.Kind], strat, util.B(c.Keep), util.B(!c.NoAuto), in, pe)
	term := fmt.Sprintf("mk_ecase %s %s %s %s %s", cfg, util.List(ch), util.List(ops), util.List(spawns), util.List(r.obs))
	return term, r.fails
}

// ---- scenarios -----------------------------------------------------------------------------------------------

func allNames(n int) []int {
	var l []int
	for i := 1; i <= n; i++ {
		l = append(l, i)
	}
	return l
}

func genE2ECase(r *rand.Rand, family string) *eCase {
	c := &eCase{Family: family}
	c.Kind = []string{"ofo", "afo", "rfo", "afo", "rfo", "sofo"}[r.Intn(6)]
	c.Strategy = r.Intn(3)
	c.Keep = r.Intn(2) == 0
	c.NoAuto = r.Intn(2) == 0
	n := 1 + r.Intn(4)
	for i := 0; i < n; i++ {
		c.Sig = append(c.Sig, r.Intn(5) == 0)
	}
	pick := func() int { return 1 + r.Intn(n) }
	pickSome := func() []int {
		l := allNames(n)
		r.Shuffle(len(l), func(i, j int) { l[i], l[j] = l[j], l[i] })
		return l[:1+r.Intn(len(l))]
	}
	if c.Kind == "sofo" {
		for i := 0; i < 1+r.Intn(3); i++ {
			c.Steps = append(c.Steps, eStep{K: "start", Names: []int{pick()}})
		}
		c.Steps = append(c.Steps, eStep{K: "wait"})
	}
	switch family {
	case "c08":
		// restart semantics: the intensity limit is far away
		c.Intensity, c.Period = 60, 60
		for i := 0; i < 2+r.Intn(4); i++ {
			switch r.Intn(10) {
			case 0, 1, 2:
				c.Steps = append(c.Steps, eStep{K: "kill", Names: []int{pick()}})
			case 3, 4:
				c.Steps = append(c.Steps, eStep{K: "kill", Names: pickSome()}) // several at once
			case 5:
				c.Steps = append(c.Steps, eStep{K: "exit", Names: []int{pick()}, R: []int{1, 2, 10}[r.Intn(3)]})
			case 6:
				// dies again right after (re)start
				c.Steps = append(c.Steps, eStep{K: "dieonstart", Names: []int{pick()}, N: 1 + r.Intn(2), R: []int{1, 10}[r.Intn(2)]},
					eStep{K: "kill", Names: []int{pick()}})
			case 7:
				c.Steps = append(c.Steps, eStep{K: "disable", Names: []int{pick()}})
			case 8:
				c.Steps = append(c.Steps, eStep{K: "enable", Names: []int{pick()}})
			default:
				c.Steps = append(c.Steps, eStep{K: "start", Names: []int{pick()}})
			}
			c.Steps = append(c.Steps, eStep{K: "wait"})
		}
	case "c09":
		// bursts of failures against a small intensity inside a long period
		c.Strategy = []int{0, 2}[r.Intn(2)]
		c.Intensity, c.Period = 1+r.Intn(3), 60
		limit := c.Intensity
		switch r.Intn(3) {
		case 0:
			// only the intensity is configured: the period is the default (5 s), the configured intensity must stay
			c.Period = 0
		case 1:
			// only the period is configured: the intensity is the default (5), the configured period must stay
			c.Intensity, c.Period, limit = 0, 60, 5
		}
		if r.Intn(3) == 0 {
			// a burst that hits every child while the supervisor is busy, first
			c.Steps = append(c.Steps, eStep{K: "busykill", Names: allNames(n)}, eStep{K: "wait"})
		}
		for i := 0; i < limit+2; i++ {
			c.Steps = append(c.Steps, eStep{K: "kill", Names: []int{pick()}}, eStep{K: "wait"})
		}
	case "c10":
		// the supervisor itself is stopped / killed at some point, possibly in the middle of a restart
		c.Intensity, c.Period = 60, 60
		for i := 0; i < r.Intn(3); i++ {
			c.Steps = append(c.Steps, eStep{K: "kill", Names: pickSome()})
			if r.Intn(2) == 0 {
				c.Steps = append(c.Steps, eStep{K: "wait"})
			}
		}
		if r.Intn(2) == 0 {
			c.Steps = append(c.Steps, eStep{K: "kill", Names: pickSome()}) // no wait: the stop hits a restart in progress
		}
		if r.Intn(2) == 0 {
			c.Steps = append(c.Steps, eStep{K: "killsup"})
		} else {
			c.Steps = append(c.Steps, eStep{K: "exitsup", R: []int{2, 10}[r.Intn(2)]})
		}
		c.Steps = append(c.Steps, eStep{K: "wait"})
	}
	return c
}

func runE2E(n int, out string, replay string, what string) {
	o := util.NewOut("sup.e2e")
	nopt := gen.NodeOptions{}
	nopt.Network.Mode = gen.NetworkModeDisabled
	nopt.Log.Level = gen.LogLevelDisabled
	node, err := ergo.StartNode(gen.Atom(fmt.Sprintf("verifsup%d@localhost", os.Getpid())), nopt)
	if err != nil {
		fmt.Fprintln(os.Stderr, "cannot start node:", err)
		os.Exit(1)
	}
	defer node.StopForce()
	hook := func(label string, obj any) {
		if label != "sup.exit" {
			return
		}
		if m, ok := obj.(gen.MessageExitPID); ok {
			rec.add(eEvent{kind: "exit", pid: m.PID, reason: e2eCode(m.Reason), now: time.Now().UnixMilli()})
		}
	}
	lib.VerifHook.Store(&hook)
	watcher, err := node.Spawn(factoryE2EWatcher, gen.ProcessOptions{})
	if err != nil {
		fmt.Fprintln(os.Stderr, "cannot start watcher:", err)
		os.Exit(1)
	}

	var cases []*eCase
	if replay != "" {
		b, err := os.ReadFile(replay)
		if err != nil {
			panic(err)
		}
		var rp struct {
			Case eCase `json:"case"`
		}
		if err := json.Unmarshal(b, &rp); err != nil {
			panic(err)
		}
		cases = append(cases, &rp.Case)
		// VERIF_E2E_REPEAT=n: run the replayed scenario n times on the same node (timing-dependent failures)
		if v := os.Getenv("VERIF_E2E_REPEAT"); v != "" {
			var k int
			fmt.Sscanf(v, "%d", &k)
			for i := 1; i < k; i++ {
				cases = append(cases, &rp.Case)
			}
		}
	} else {
		fams := strings.Split(what, ",")
		sort.Strings(fams)
		for fi, f := range fams {
			r := util.Rng(int64(10 + fi))
			for i := 0; i < n; i++ {
				cases = append(cases, genE2ECase(r, f))
			}
		}
	}
	for _, c := range cases {
		term, fails := runE2ECase(node, watcher, c, o.Stats)
		if term == "" {
			term = "mk_ecase (mk_config OFO Transient false false 1 1) [] [] [] []"
		}
		idx := o.Add(term, c)
		for _, f := range fails {
			o.Monitor = append(o.Monitor, util.MonitorFail{Case: idx, What: f})
		}
		rec.Lock()
		for _, u := range rec.unknown {
			o.Stats["unexpected-reason:"+u]++
		}
		rec.unknown = nil
		rec.Unlock()
		o.Stats["runs"]++
		o.Stats["family:"+c.Family]++
		o.Stats["kind:"+c.Kind]++
	}
	o.Write(out)
}
