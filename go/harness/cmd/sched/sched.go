package main

// Cooperative scheduler over lib.VerifPoint hooks: every goroutine that touches the process
// under test blocks at each hook until the scheduler grants it one step, so a run of the real
// code is determined by (configuration, list of thread choices) exactly like Sched.Model.run.

import (
	"bytes"
	"fmt"
	"runtime"
	"strconv"
	"sync"
	"sync/atomic"
	"time"

	"ergo.services/ergo/gen"
	"ergo.services/ergo/lib"
)

func goid() uint64 {
	var buf [64]byte
	n := runtime.Stack(buf[:], false)
	// "goroutine 123 [running]:"
	b := buf[:n]
	b = b[len("goroutine "):]
	i := bytes.IndexByte(b, ' ')
	id, _ := strconv.ParseUint(string(b[:i]), 10, 64)
	return id
}

type thread struct {
	tid    int
	gid    uint64
	label  string // hook at which it is parked ("" = running or not yet parked)
	parked bool
	done   bool
	child  bool          // goroutine started by the code under test (not by the harness)
	gate   chan struct{} // released by the scheduler
}

type scheduler struct {
	mu      sync.Mutex
	cond    *sync.Cond
	threads []*thread
	byGid   map[uint64]*thread
	expect  int // children announced by a granted *.spawn step and not yet parked

	// identity of the process under test
	proc   any // *process as interface (learned at spawn.init)
	pid    gen.PID
	name   gen.Atom
	queues []any
	objs   []any // further monitored objects (meta-process under test)

	spawnerGid uint64
	stalled    string
	active     bool
}

func newScheduler() *scheduler {
	s := &scheduler{byGid: map[uint64]*thread{}}
	s.cond = sync.NewCond(&s.mu)
	return s
}

func (s *scheduler) monitored(label string, obj any, g uint64) bool {
	if s.proc != nil && obj == s.proc {
		return true
	}
	switch o := obj.(type) {
	case gen.PID:
		return o == s.pid
	case gen.ProcessID:
		return s.name != "" && o.Name == s.name
	}
	for _, q := range s.queues {
		if obj == q {
			return true
		}
	}
	for _, q := range s.objs {
		if obj == q {
			return true
		}
	}
	if label == "spawn.init" && g == s.spawnerGid && s.proc == nil {
		return true
	}
	return false
}

// hook is installed as lib.VerifHook
func (s *scheduler) hook(label string, obj any) {
	g := goid()
	s.mu.Lock()
	if !s.active || !s.monitored(label, obj, g) {
		s.mu.Unlock()
		return
	}
	if label == "spawn.init" && s.proc == nil {
		s.proc = obj
		if gp, ok := obj.(gen.Process); ok {
			mb := gp.Mailbox()
			s.queues = []any{mb.Main, mb.System, mb.Urgent, mb.Log}
		}
	}
	t := s.byGid[g]
	if t == nil {
		// a goroutine we have not seen: it must be an announced child
		if s.expect <= 0 {
			s.stalled = fmt.Sprintf("unknown goroutine %d arrived at hook %q", g, label)
			s.cond.Broadcast()
			s.mu.Unlock()
			return
		}
		t = &thread{tid: len(s.threads), gid: g, child: true, gate: make(chan struct{}, 1)}
		s.threads = append(s.threads, t)
		s.byGid[g] = t
		s.expect--
	}
	if label == "run.exit" || label == "kill.term.exit" {
		// deferred hook: the goroutine ends after it; parked like any other step
	}
	t.label = label
	t.parked = true
	s.cond.Broadcast()
	s.mu.Unlock()
	<-t.gate
}

// register a harness goroutine (spawner, sender, killer) under the next thread id
func (s *scheduler) register(fn func()) *thread {
	t := &thread{tid: len(s.threads), gate: make(chan struct{}, 1)}
	s.threads = append(s.threads, t)
	ready := make(chan struct{})
	go func() {
		g := goid()
		s.mu.Lock()
		t.gid = g
		s.byGid[g] = t
		if t.tid == 0 {
			s.spawnerGid = g
		}
		s.mu.Unlock()
		close(ready)
		fn()
		s.mu.Lock()
		t.done = true
		t.parked = false
		t.label = "done"
		s.cond.Broadcast()
		s.mu.Unlock()
	}()
	<-ready
	return t
}

// settle waits until thread t is parked or done and all announced children are parked
func (s *scheduler) settle(t *thread) bool {
	deadline := time.Now().Add(5 * time.Second)
	timer := time.AfterFunc(5*time.Second, func() {
		s.mu.Lock()
		s.cond.Broadcast()
		s.mu.Unlock()
	})
	defer timer.Stop()
	s.mu.Lock()
	defer s.mu.Unlock()
	for {
		if s.stalled != "" {
			return false
		}
		if (t == nil || t.parked || t.done) && s.expect == 0 {
			ok := true
			if t == nil {
				for _, x := range s.threads {
					if !x.parked && !x.done {
						ok = false
					}
				}
			}
			if ok {
				return true
			}
		}
		if time.Now().After(deadline) {
			who := -1
			lbl := ""
			if t != nil {
				who, lbl = t.tid, t.label
			}
			s.stalled = fmt.Sprintf("thread %d granted at %q neither parked nor finished within 5s (expect=%d)", who, lbl, s.expect)
			return false
		}
		s.cond.Wait()
	}
}

// grant lets thread tid execute from its hook to the next one. Returns false if not enabled.
func (s *scheduler) grant(tid int) (enabled bool, ok bool) {
	s.mu.Lock()
	if tid < 0 || tid >= len(s.threads) {
		s.mu.Unlock()
		return false, true
	}
	t := s.threads[tid]
	if !t.parked || t.done {
		s.mu.Unlock()
		return false, true
	}
	if t.label == "run.spawn" || t.label == "kill.spawn" || t.label == "meta.spawn" || t.label == "meta.s.spawnh" {
		s.expect++
	}
	endsGoroutine := t.label == "run.exit" || t.label == "kill.term.exit" || t.label == "meta.h.exit" || t.label == "meta.s.exit" ||
		(t.label == "meta.hc.exit" && t.child)
	t.parked = false
	if endsGoroutine {
		t.done = true
		t.label = "done"
	}
	s.mu.Unlock()
	t.gate <- struct{}{}
	if endsGoroutine {
		return true, true
	}
	return true, s.settle(t)
}

func (s *scheduler) install() {
	s.mu.Lock()
	s.active = true
	s.mu.Unlock()
	installBaseHook()
	pool.reset()
	currentSched.Store(s)
}

// ---- mailbox-message pool tracker ------------------------------------------------------------------
// gen.TakeMailboxMessage / gen.ReleaseMailboxMessage report every message that leaves / re-enters the
// pool (hooks "mbox.take" / "mbox.release"). A message released twice without having been taken in
// between sits in the pool twice: two later senders fill the same struct, an accepted message is
// overwritten or zeroed before it is handled (exactly-once delivery breaks, possibly much later and in
// another process). The tracker is installed once for the whole harness run, so no take is missed.

type poolTracker struct {
	mu       sync.Mutex
	released map[*gen.MailboxMessage]bool
	doubles  int
	first    string
}

var pool = &poolTracker{released: map[*gen.MailboxMessage]bool{}}

func (t *poolTracker) note(label string, m *gen.MailboxMessage) {
	t.mu.Lock()
	if label == "mbox.take" {
		delete(t.released, m)
	} else {
		if t.released[m] {
			t.doubles++
			if t.first == "" {
				buf := make([]byte, 2048)
				t.first = string(buf[:runtime.Stack(buf, false)])
			}
		}
		t.released[m] = true
	}
	t.mu.Unlock()
}

func (t *poolTracker) reset() {
	t.mu.Lock()
	t.doubles, t.first = 0, ""
	t.mu.Unlock()
}

func (t *poolTracker) report() (int, string) {
	t.mu.Lock()
	defer t.mu.Unlock()
	return t.doubles, t.first
}

var currentSched atomic.Pointer[scheduler]
var baseHookOnce sync.Once

func installBaseHook() {
	baseHookOnce.Do(func() {
		f := func(label string, obj any) {
			if label == "mbox.take" || label == "mbox.release" {
				if m, ok := obj.(*gen.MailboxMessage); ok {
					pool.note(label, m)
				}
				return
			}
			if s := currentSched.Load(); s != nil {
				s.hook(label, obj)
			}
		}
		lib.VerifHook.Store(&f)
	})
}

// uninstall releases every parked thread and removes the hook
func (s *scheduler) uninstall() {
	currentSched.CompareAndSwap(s, nil)
	s.mu.Lock()
	s.active = false
	for _, t := range s.threads {
		if t.parked {
			t.parked = false
			select {
			case t.gate <- struct{}{}:
			default:
			}
		}
	}
	s.mu.Unlock()
}
