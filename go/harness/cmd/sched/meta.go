package main

// Controlled-schedule runs of one real meta-process (node/meta.go): the start() goroutine, the
// mailbox handler gate, senders to the alias and the exit pushed by the parent's termination.

import (
	"errors"
	"fmt"
	"math/rand"
	"strings"
	"sync"
	"sync/atomic"
	"time"

	"ergo.services/ergo/act"
	"ergo.services/ergo/gen"
	"ergo.services/ergo/lib"
	"verifharness/util"
)

type MMsg struct {
	ID     int    `json:"id"`
	Beh    string `json:"beh"` // ok, err
	N      int    `json:"n"`
	Reason int    `json:"reason"`
}

type MThread struct {
	Kind string `json:"kind"` // "S" sender to the alias, "X" kill of the parent (exit pushed to the meta)
	Msg  MMsg   `json:"msg"`
}

type MCase struct {
	StartN      int       `json:"start_n"`
	StartReason int       `json:"start_reason"` // 2 Start panics, 3 normal (nil), 4 shutdown, >= 5 custom
	Threads     []MThread `json:"threads"`
	Sched       []int     `json:"sched"`
	Policy      string    `json:"policy"`
	Tags        []string  `json:"tags"`
}

type MResult struct {
	Full          []int
	Obs           []Obs
	Events        []Event
	Handled       []int
	Terms         int
	Reason        int
	Final         int
	MaxOpen       int32
	DoubleRelease int
	DoubleAt      string
	Stalled       string
	AliasLeft     bool // after the meta process has terminated its alias still resolves in the node
}

var metaLabelCode = map[string]int{
	"done": 0, "meta.s.start": 1, "meta.s.store": 2, "meta.s.spawnh": 3, "meta.s.run": 4, "meta.cb.start": 5,
	"meta.s.swapT": 6, "meta.s.del": 7, "meta.cb.term": 8, "meta.s.exit": 9,
	"meta.push": 10, "meta.xpush": 10, "meta.cas": 11, "meta.spawn": 12,
	"meta.h.start": 13, "meta.h.state": 14, "meta.h.pop": 15, "meta.cb": 16, "meta.h.swapT": 17, "meta.h.del": 18,
	"meta.h.cas.sleep": 19, "meta.h.item": 20, "meta.h.cas.wake": 21, "meta.h.exit": 22, "meta.hc.exit": 23,
}

type mprobe struct {
	mu      sync.Mutex
	events  []Event
	handled []int
	terms   int
	reason  int
	open    int32
	maxOpen int32
	mp      gen.MetaProcess
	startN  int
	startR  int
	sch     *scheduler
	ready   chan struct{}
}

func (pr *mprobe) enter(kind, id int) {
	o := atomic.AddInt32(&pr.open, 1)
	pr.mu.Lock()
	if o > pr.maxOpen {
		pr.maxOpen = o
	}
	pr.events = append(pr.events, Event{kind, id})
	pr.mu.Unlock()
}
func (pr *mprobe) leave(kind, id int) {
	atomic.AddInt32(&pr.open, -1)
	pr.mu.Lock()
	pr.events = append(pr.events, Event{kind, id})
	pr.mu.Unlock()
}

type metaB struct{ pr *mprobe }

func (b *metaB) Init(mp gen.MetaProcess) error {
	b.pr.mp = mp
	b.pr.sch.mu.Lock()
	b.pr.sch.objs = append(b.pr.sch.objs, any(mp))
	b.pr.sch.expect++ // the start() goroutine
	b.pr.sch.mu.Unlock()
	return nil
}

func (b *metaB) Start() error {
	for i := 0; i <= b.pr.startN; i++ {
		lib.VerifPoint("meta.cb.start", b.pr.mp)
	}
	if b.pr.startR == 3 {
		return nil
	}
	if b.pr.startR == 2 {
		// Start() panics: the recover branch of meta.start takes the same decisions with reason panic
		panic("meta Start panics (harness)")
	}
	return reasonErr(b.pr.startR)
}

func (b *metaB) HandleMessage(from gen.PID, message any) error {
	m, ok := message.(MMsg)
	if !ok {
		return nil
	}
	pr := b.pr
	pr.mu.Lock()
	pr.handled = append(pr.handled, m.ID)
	pr.mu.Unlock()
	pr.enter(1, m.ID)
	defer pr.leave(2, m.ID)
	if m.Beh == "err" {
		lib.VerifPoint("meta.cb", pr.mp)
		return reasonErr(m.Reason)
	}
	for i := 0; i <= m.N; i++ {
		lib.VerifPoint("meta.cb", pr.mp)
	}
	return nil
}

func (b *metaB) HandleCall(from gen.PID, ref gen.Ref, request any) (any, error) { return nil, nil }
func (b *metaB) HandleInspect(from gen.PID, item ...string) map[string]string   { return nil }

func (b *metaB) Terminate(reason error) {
	pr := b.pr
	pr.mu.Lock()
	pr.terms++
	pr.reason = reasonCode(reason)
	pr.mu.Unlock()
	pr.enter(3, 0)
	defer pr.leave(4, 0)
	lib.VerifPoint("meta.cb.term", pr.mp)
}

type spawnMetaMsg struct {
	pr    *mprobe
	alias chan gen.Alias
}

type metaParent struct{ act.Actor }

func (p *metaParent) HandleMessage(from gen.PID, message any) error {
	sm, ok := message.(spawnMetaMsg)
	if !ok {
		return nil
	}
	a, err := p.SpawnMeta(&metaB{pr: sm.pr}, gen.MetaOptions{})
	if err != nil {
		close(sm.alias)
		return nil
	}
	sm.alias <- a
	return nil
}

func runMetaCase(node gen.Node, c MCase) (MResult, [][]int) {
	var res MResult
	var enabledAt [][]int
	sch := newScheduler()
	pr := &mprobe{startN: c.StartN, startR: c.StartReason, sch: sch}
	ppid, err := node.Spawn(func() gen.ProcessBehavior { return &metaParent{} }, gen.ProcessOptions{})
	if err != nil {
		res.Stalled = "cannot spawn parent: " + err.Error()
		return res, nil
	}
	sch.install()
	defer sch.uninstall()
	fail := func(msg string) (MResult, [][]int) {
		res.Stalled = msg
		return res, enabledAt
	}
	ach := make(chan gen.Alias, 1)
	node.Send(ppid, spawnMetaMsg{pr: pr, alias: ach})
	var alias gen.Alias
	select {
	case a, ok := <-ach:
		if !ok {
			return fail("SpawnMeta failed")
		}
		alias = a
	case <-time.After(5 * time.Second):
		return fail("SpawnMeta timed out")
	}
	// thread 0 = the start() goroutine, parked at meta.s.start
	if !sch.settle(nil) {
		return fail(sch.stalled)
	}
	// wait until the parent is idle again (its callback returned)
	for i := 0; i < 2000; i++ {
		if st, err := node.ProcessState(ppid); err == nil && st == gen.ProcessStateSleep {
			break
		}
		time.Sleep(100 * time.Microsecond)
	}
	for _, th := range c.Threads {
		th := th
		var t *thread
		switch th.Kind {
		case "S":
			t = sch.register(func() { node.Send(alias, th.Msg) })
		case "X":
			t = sch.register(func() { node.Kill(ppid) })
		}
		if !sch.settle(t) {
			return fail(sch.stalled)
		}
	}
	observe := func(tid int, enabled bool) {
		o := Obs{Tid: tid, Enabled: enabled}
		sch.mu.Lock()
		o.NThr = len(sch.threads)
		if tid >= 0 && tid < len(sch.threads) {
			o.Label = metaLabelCode[sch.threads[tid].label]
		}
		sch.mu.Unlock()
		if info, err := node.MetaInfo(alias); err == nil {
			o.State = int(info.State)
		} else {
			o.State = -1
		}
		res.Obs = append(res.Obs, o)
	}
	step := func(tid int) bool {
		var en []int
		sch.mu.Lock()
		for i, t := range sch.threads {
			if t.parked && !t.done {
				en = append(en, i)
			}
		}
		sch.mu.Unlock()
		enabledAt = append(enabledAt, en)
		enabled, ok := sch.grant(tid)
		res.Full = append(res.Full, tid)
		observe(tid, enabled)
		return ok
	}
	for _, tid := range c.Sched {
		if !step(tid) {
			return fail(sch.stalled)
		}
	}
	var prng *rand.Rand
	if strings.HasPrefix(c.Policy, "random:") {
		var sd int64
		fmt.Sscanf(c.Policy, "random:%d", &sd)
		prng = rand.New(rand.NewSource(sd))
	}
	for guard := 0; guard < 3000; guard++ {
		sch.mu.Lock()
		var en []int
		for i, t := range sch.threads {
			if t.parked && !t.done {
				en = append(en, i)
			}
		}
		sch.mu.Unlock()
		if len(en) == 0 {
			break
		}
		next := en[0]
		switch {
		case prng != nil:
			next = en[prng.Intn(len(en))]
		case c.Policy == "highest":
			next = en[len(en)-1]
		case c.Policy == "handlerfirst":
			// goroutines of the mailbox handler first (highest first), then the senders in order, the start()
			// goroutine (thread 0, inside the Start callback) last
			next = -1
			for _, e := range en {
				if e > len(c.Threads) {
					next = e
				}
			}
			if next < 0 {
				for _, e := range en {
					if e != 0 {
						next = e
						break
					}
				}
			}
			if next < 0 {
				next = en[0]
			}
		case c.Policy == "nonpreempt:highest":
			next = en[len(en)-1]
			if len(res.Full) > 0 {
				last := res.Full[len(res.Full)-1]
				for _, e := range en {
					if e == last {
						next = last
					}
				}
			}
		case c.Policy == "nonpreempt":
			if len(res.Full) > 0 {
				last := res.Full[len(res.Full)-1]
				for _, e := range en {
					if e == last {
						next = last
					}
				}
			}
		}
		if !step(next) {
			return fail(sch.stalled)
		}
	}
	sch.mu.Lock()
	for _, t := range sch.threads {
		if !t.done {
			res.Stalled = fmt.Sprintf("thread %d not finished at the end (label %q)", t.tid, t.label)
		}
	}
	sch.mu.Unlock()
	pr.mu.Lock()
	res.Events = append(res.Events, pr.events...)
	res.Handled = append(res.Handled, pr.handled...)
	res.Terms = pr.terms
	res.Reason = pr.reason
	res.MaxOpen = pr.maxOpen
	res.DoubleRelease, res.DoubleAt = pool.report()
	pr.mu.Unlock()
	if res.Stalled == "" {
		// every goroutine of the meta process has finished, so it has terminated: its alias must have been released
		// (C06). Probed without the scheduler: a send to an alias nobody owns fails.
		sch.uninstall()
		if err := node.Send(alias, "probe after termination"); err == nil {
			res.AliasLeft = true
		}
	}
	node.Kill(ppid)
	return res, enabledAt
}

func coqMMsg(m MMsg, sys bool) string {
	b := fmt.Sprintf("MOk %d", m.N)
	if m.Beh == "err" {
		b = fmt.Sprintf("MErr %d", m.Reason)
	}
	if sys {
		b = "MExit 1"
	}
	return fmt.Sprintf("mk_mmsg %d %s (%s)", m.ID, util.B(sys), b)
}

func coqMetaCase(c MCase, r MResult) string {
	var ths []string
	for _, t := range c.Threads {
		ths = append(ths, "C_push ("+coqMMsg(t.Msg, t.Kind == "X")+")")
	}
	var obs []string
	for _, o := range r.Obs {
		obs = append(obs, fmt.Sprintf("mk_mobs %d %s %d %s %d", o.Tid, util.B(o.Enabled), o.Label, util.Z(int64(o.State)), o.NThr))
	}
	var evs []string
	for _, e := range r.Events {
		evs = append(evs, fmt.Sprintf("(%d, %d)", e.Kind, e.ID))
	}
	return fmt.Sprintf("mk_mcase %d %d [%s] %s [%s] [%s] %s %d %d",
		c.StartN, c.StartReason, strings.Join(ths, "; "), natList(r.Full), strings.Join(obs, "; "),
		strings.Join(evs, "; "), natList(r.Handled), r.Terms, r.Reason)
}

func genMetaCase(r *rand.Rand) MCase {
	c := MCase{StartN: r.Intn(4), StartReason: []int{3, 3, 4, 5, 2}[r.Intn(5)]}
	nmsg := r.Intn(4)
	if r.Intn(2) == 0 {
		// Start() stays inside its callback for a long time: the mailbox handler falls asleep and is woken
		// again (sleep / re-check / wake paths) instead of being cut short by the termination
		c.StartN = 25 + r.Intn(40)
		nmsg = 2 + r.Intn(4)
	}
	id := 1
	for i := nmsg; i > 0; i-- {
		m := MMsg{ID: id, Beh: "ok", N: r.Intn(3)}
		if r.Intn(6) == 0 {
			m.Beh, m.Reason = "err", 5+r.Intn(3)
		}
		c.Threads = append(c.Threads, MThread{Kind: "S", Msg: m})
		id++
	}
	if r.Intn(3) == 0 {
		c.Threads = append(c.Threads, MThread{Kind: "X", Msg: MMsg{ID: id, Beh: "err", Reason: 1}})
	}
	n := r.Intn(80)
	span := len(c.Threads) + 2 + r.Intn(4)
	for i := 0; i < n; i++ {
		c.Sched = append(c.Sched, r.Intn(span))
	}
	c.Policy = []string{"lowest", "highest", "nonpreempt", fmt.Sprintf("random:%d", r.Int63()), fmt.Sprintf("random:%d", r.Int63())}[r.Intn(5)]
	c.Tags = []string{}
	return c
}

// metaDeviations: deviation enumeration (stateless, depth 1, complete per configuration and base order):
// run a non-preemptive base schedule, then every schedule that leaves it at ONE position for ANY other
// enabled thread and is completed by the same policy. This reaches the narrow windows random walks miss
// (a push between the handler's last empty Pop and its sleep re-check, Start() ending inside a callback, ...).
func metaDeviations(node gen.Node, budget int, emit func(MCase, MResult)) (runs int, complete bool) {
	ok := func(id, n int) MMsg { return MMsg{ID: id, Beh: "ok", N: n} }
	cfgs := []MCase{
		{StartN: 40, StartReason: 3, Threads: []MThread{{Kind: "S", Msg: ok(1, 0)}, {Kind: "S", Msg: ok(2, 0)}}},
		{StartN: 40, StartReason: 3, Threads: []MThread{{Kind: "S", Msg: ok(1, 1)}, {Kind: "S", Msg: ok(2, 0)}, {Kind: "S", Msg: ok(3, 0)}}},
		{StartN: 2, StartReason: 3, Threads: []MThread{{Kind: "S", Msg: ok(1, 1)}, {Kind: "S", Msg: ok(2, 0)}}},
		{StartN: 2, StartReason: 2, Threads: []MThread{{Kind: "S", Msg: ok(1, 2)}}},
		{StartN: 40, StartReason: 4, Threads: []MThread{{Kind: "S", Msg: MMsg{ID: 1, Beh: "err", Reason: 6}}, {Kind: "S", Msg: ok(2, 0)}}},
		{StartN: 6, StartReason: 3, Threads: []MThread{{Kind: "S", Msg: ok(1, 1)}, {Kind: "X", Msg: MMsg{ID: 2, Beh: "err", Reason: 1}}}},
	}
	complete = true
	for _, base := range cfgs {
		for _, pol := range []string{"nonpreempt", "nonpreempt:highest", "highest", "handlerfirst"} {
			b := base
			b.Policy = pol
			if pol == "handlerfirst" {
				// let start() reach the Start callback first (state Sleep, first handler spawned)
				b.Sched = []int{0, 0, 0, 0}
			}
			b.Tags = []string{"deviation-base"}
			res, enabled := runMetaCase(node, b)
			emit(b, res)
			runs++
			for i := len(b.Sched); i < len(res.Full) && i < len(enabled); i++ {
				for _, a := range enabled[i] {
					if a == res.Full[i] {
						continue
					}
					if runs >= budget {
						complete = false
						return
					}
					d := base
					d.Policy = pol
					d.Sched = append(append([]int{}, res.Full[:i]...), a)
					d.Tags = []string{"deviation-1"}
					r2, _ := runMetaCase(node, d)
					emit(d, r2)
					runs++
				}
			}
		}
	}
	return
}

// regression schedules (run first on every check)
func metaCorpus() []MCase {
	return []MCase{
		// Start() returns while the handler goroutine is inside HandleMessage (pre-fix: Terminate overlapped it)
		{StartN: 0, StartReason: 3, Threads: []MThread{{Kind: "S", Msg: MMsg{ID: 1, Beh: "ok", N: 2}}},
			Sched:  []int{0, 0, 0, 1, 1, 1, 3, 3, 3, 3, 0, 0, 0, 0},
			Policy: "lowest", Tags: []string{"corpus", "meta-start-returns-while-handler-runs"}},
		// Start() PANICS while the handler goroutine is inside HandleMessage: the handler terminates the meta process, once
		{StartN: 0, StartReason: 2, Threads: []MThread{{Kind: "S", Msg: MMsg{ID: 1, Beh: "ok", N: 2}}},
			Sched:  []int{0, 0, 0, 1, 1, 1, 3, 3, 3, 3, 0, 0, 0, 0},
			Policy: "lowest", Tags: []string{"corpus", "meta-start-panics-while-handler-runs"}},
		// the handler terminates by an error while Start() is still running
		{StartN: 3, StartReason: 3, Threads: []MThread{{Kind: "S", Msg: MMsg{ID: 1, Beh: "err", Reason: 6}}},
			Sched: []int{0, 0, 0, 2, 1, 1, 1, 3, 3, 3, 3, 3, 3, 3, 3}, Policy: "lowest", Tags: []string{"corpus"}},
		// parent killed: exit pushed to the system queue while a message is being handled
		{StartN: 1, StartReason: 3, Threads: []MThread{{Kind: "S", Msg: MMsg{ID: 1, Beh: "ok", N: 1}}, {Kind: "X", Msg: MMsg{ID: 2, Beh: "err", Reason: 1}}},
			Sched: []int{0, 0, 0, 3, 1, 1, 1, 4, 4, 4, 4, 2, 2, 2}, Policy: "lowest", Tags: []string{"corpus"}},
	}
}

var errMetaUnused = errors.New("unused")
