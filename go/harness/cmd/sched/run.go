package main

import (
	"errors"
	"fmt"
	"math/rand"
	"strings"
	"sync"
	"sync/atomic"
	"time"

	"ergo.services/ergo/act"
	"ergo.services/ergo/gen"
	"ergo.services/ergo/lib"
	"verifharness/util"
)

// ---- case description -------------------------------------------------------------

type Msg struct {
	ID     int    `json:"id"`
	Q      int    `json:"q"`   // 0 urgent, 1 system, 2 main
	Beh    string `json:"beh"` // ok, err, panic, call, exit (exit signal from the parent: node.SendExit)
	N      int    `json:"n"`
	Reason int    `json:"reason"` // for err: 3 normal, 4 shutdown, >=5 custom
}

type Thread struct {
	Kind   string `json:"kind"` // "S" sender, "K" killer
	ByName bool   `json:"byname"`
	Msgs   []Msg  `json:"msgs"`
}

type Case struct {
	Named    bool     `json:"named"`
	Limit    int      `json:"limit"`    // MailboxSize (0 = unbounded)
	Fallback bool     `json:"fallback"` // fallback process configured
	Self     []Msg    `json:"self"`
	InitOK   bool     `json:"initok"`
	Threads  []Thread `json:"threads"`
	Sched    []int    `json:"sched"` // prefix of choices; the run is completed lowest-enabled-first
	Policy   string   `json:"policy"`
	Tags     []string `json:"tags,omitempty"`
}

type Obs struct {
	Tid     int
	Enabled bool
	Label   int
	State   int
	NThr    int
}

type Event struct {
	Kind int // 1 begin, 2 end, 3 termbegin, 4 termend, 5 initbegin, 6 initend
	ID   int
}

type Result struct {
	Full          []int // the complete executed schedule
	Obs           []Obs
	Events        []Event
	Handled       []int
	Oks           []int
	Errs          []int
	Terms         int
	Reason        int
	Final         int
	QLens         [3]int64
	Fbs           []int
	MaxOpen       int32
	DoubleRelease int
	DoubleAt      string
	Stalled       string
	SpawnErr      bool
}

var labelCode = map[string]int{
	"done": 0, "exit.load": 1, "exit.alive": 2, "exit.push": 3, "send.load": 1, "send.alive": 2, "send.push": 3, "mpsc.link": 4, "run.cas": 5, "run.spawn": 6,
	"run.start": 7, "run.next": 8, "actor.state": 9, "actor.pop": 10, "cb": 11, "wait.cas1": 12, "wait.select": 13,
	"wait.cas2": 14, "run.cas.sleep": 15, "run.item": 16, "run.cas.wake": 17, "run.swapT.err": 18, "run.swapT.kill": 18,
	"run.swapT.panic": 18, "run.unreg": 19, "unreg.delete": 20, "run.term": 21, "cb.term": 22, "run.exit": 23,
	"kill.load": 24, "kill.swapZ": 25, "kill.storeT": 26, "kill.swapT": 27, "kill.unreg": 28, "kill.spawn": 29,
	"kill.term.start": 30, "kill.term.exit": 31, "spawn.init": 32, "cb.init": 33, "spawn.sleep": 34, "spawn.store": 35,
	"mpsc.limit": 37, "call.state": 36,
}

// ---- the process under test -----------------------------------------------------------

type probe struct {
	mu                sync.Mutex
	events            []Event
	handled           []int
	terms             int
	reason            int
	open              int32
	maxOpen           int32
	selfOks, selfErrs []int
	proc              gen.Process
	helper            gen.PID
	self              []Msg
	initOK            bool
	sch               *scheduler
}

func (pr *probe) enter(kind, id int) {
	o := atomic.AddInt32(&pr.open, 1)
	pr.mu.Lock()
	if o > pr.maxOpen {
		pr.maxOpen = o
	}
	pr.events = append(pr.events, Event{kind, id})
	pr.mu.Unlock()
}
func (pr *probe) leave(kind, id int) {
	atomic.AddInt32(&pr.open, -1)
	pr.mu.Lock()
	pr.events = append(pr.events, Event{kind, id})
	pr.mu.Unlock()
}

type target struct {
	act.Actor
	pr *probe
}

var errCustom = map[int]error{}

func reasonErr(r int) error {
	switch r {
	case 3:
		return gen.TerminateReasonNormal
	case 4:
		return gen.TerminateReasonShutdown
	}
	if e, ok := errCustom[r]; ok {
		return e
	}
	e := fmt.Errorf("custom-%d", r)
	errCustom[r] = e
	return e
}

func reasonCode(e error) int {
	switch {
	case e == gen.TerminateReasonKill:
		return 1
	case e == gen.TerminateReasonPanic:
		return 2
	case e == gen.TerminateReasonNormal:
		return 3
	case e == gen.TerminateReasonShutdown:
		return 4
	}
	var n int
	if _, err := fmt.Sscanf(e.Error(), "custom-%d", &n); err == nil {
		return n
	}
	if u := errors.Unwrap(e); u != nil {
		return reasonCode(u)
	}
	return -1
}

func (t *target) Init(args ...any) error {
	pr := t.pr
	pr.proc = t.Process
	pr.sch.mu.Lock()
	mb := t.Mailbox()
	pr.sch.queues = []any{mb.Main, mb.System, mb.Urgent, mb.Log}
	pr.sch.mu.Unlock()
	pr.enter(5, 0)
	defer pr.leave(6, 0)
	lib.VerifPoint("cb.init", t.Process)
	for _, m := range pr.self {
		err := t.Send(t.PID(), m)
		pr.mu.Lock()
		if err == nil {
			pr.selfOks = append(pr.selfOks, m.ID)
		} else {
			pr.selfErrs = append(pr.selfErrs, m.ID)
		}
		pr.mu.Unlock()
		lib.VerifPoint("cb.init", t.Process)
	}
	if !pr.initOK {
		return errors.New("init failed")
	}
	return nil
}

func (t *target) HandleMessage(from gen.PID, message any) error {
	m, ok := message.(Msg)
	if !ok {
		return nil
	}
	pr := t.pr
	pr.mu.Lock()
	pr.handled = append(pr.handled, m.ID)
	pr.mu.Unlock()
	pr.enter(1, m.ID)
	defer pr.leave(2, m.ID)
	switch m.Beh {
	case "err":
		lib.VerifPoint("cb", t.Process)
		return reasonErr(m.Reason)
	case "panic":
		lib.VerifPoint("cb", t.Process)
		panic("boom")
	case "call":
		t.Call(pr.helper, "ping")
	}
	for i := 0; i <= m.N; i++ {
		lib.VerifPoint("cb", t.Process)
	}
	return nil
}

func (t *target) Terminate(reason error) {
	pr := t.pr
	pr.mu.Lock()
	pr.terms++
	pr.reason = reasonCode(reason)
	pr.mu.Unlock()
	pr.enter(3, 0)
	defer pr.leave(4, 0)
	lib.VerifPoint("cb.term", t.Process)
}

type helper struct{ act.Actor }

func (h *helper) HandleCall(from gen.PID, ref gen.Ref, request any) (any, error) {
	return "pong", nil
}

type dummy struct{ act.Actor }

// the fallback process: records every MessageFallback it receives
type fbRec struct {
	PID gen.PID
	Tag string
	ID  int
}
type fallbackActor struct {
	act.Actor
	mu  sync.Mutex
	got []fbRec
}

func (f *fallbackActor) HandleMessage(from gen.PID, message any) error {
	if fb, ok := message.(gen.MessageFallback); ok {
		if m, ok := fb.Message.(Msg); ok {
			f.mu.Lock()
			f.got = append(f.got, fbRec{fb.PID, fb.Tag, m.ID})
			f.mu.Unlock()
		}
	}
	return nil
}

var theFallback *fallbackActor
var fallbackPID gen.PID

const fallbackName = gen.Atom("verif_fallback")
const fallbackTag = "verif-tag"

// ---- running one case ---------------------------------------------------------------

var runSeq int

func runCase(node gen.Node, helperPID gen.PID, c Case) Result {
	r, _ := runCaseEnabled(node, helperPID, c)
	return r
}

func runCaseEnabled(node gen.Node, helperPID gen.PID, c Case) (Result, [][]int) {
	var res Result
	var enabledAt [][]int
	runSeq++
	name := gen.Atom("")
	if c.Named {
		name = gen.Atom(fmt.Sprintf("target%d", runSeq))
	}
	// learn the next pid: spawn and kill a dummy, the target gets ID+1
	dpid, err := node.Spawn(func() gen.ProcessBehavior { return &dummy{} }, gen.ProcessOptions{})
	if err != nil {
		res.Stalled = "cannot spawn dummy: " + err.Error()
		return res, nil
	}
	node.Kill(dpid)
	tpid := dpid
	tpid.ID++

	sch := newScheduler()
	sch.pid = tpid
	sch.name = name
	pr := &probe{helper: helperPID, self: c.Self, initOK: c.InitOK, sch: sch}
	sch.install()
	defer sch.uninstall()

	var oksMu sync.Mutex
	fail := func(msg string) (Result, [][]int) {
		res.Stalled = msg
		return res, enabledAt
	}

	t0 := sch.register(func() {
		factory := func() gen.ProcessBehavior { return &target{pr: pr} }
		var pid gen.PID
		var err error
		popts := gen.ProcessOptions{MailboxSize: int64(c.Limit)}
		if c.Fallback {
			popts.Fallback = gen.ProcessFallback{Enable: true, Name: fallbackName, Tag: fallbackTag}
		}
		if c.Named {
			pid, err = node.SpawnRegister(name, factory, popts)
		} else {
			pid, err = node.Spawn(factory, popts)
		}
		if err != nil {
			res.SpawnErr = true
		} else if pid != tpid {
			sch.mu.Lock()
			sch.stalled = fmt.Sprintf("predicted pid %s, got %s", tpid, pid)
			sch.mu.Unlock()
		}
	})
	if !sch.settle(t0) {
		return fail(sch.stalled)
	}
	for _, th := range c.Threads {
		th := th
		var t *thread
		switch th.Kind {
		case "S":
			t = sch.register(func() {
				for _, m := range th.Msgs {
					var to any = tpid
					if th.ByName {
						to = name
					}
					prio := gen.MessagePriorityNormal
					switch m.Q {
					case 0:
						prio = gen.MessagePriorityMax
					case 1:
						prio = gen.MessagePriorityHigh
					}
					var err error
					if m.Beh == "exit" {
						err = node.SendExit(tpid, reasonErr(m.Reason))
					} else {
						err = node.SendWithPriority(to, m, prio)
					}
					oksMu.Lock()
					if err == nil {
						res.Oks = append(res.Oks, m.ID)
					} else {
						res.Errs = append(res.Errs, m.ID)
					}
					oksMu.Unlock()
				}
			})
		case "K":
			t = sch.register(func() { node.Kill(tpid) })
		}
		if !sch.settle(t) {
			return fail(sch.stalled)
		}
	}

	observe := func(tid int, enabled bool) {
		o := Obs{Tid: tid, Enabled: enabled, State: 1}
		sch.mu.Lock()
		o.NThr = len(sch.threads)
		if tid >= 0 && tid < len(sch.threads) {
			o.Label = labelCode[sch.threads[tid].label]
		}
		sch.mu.Unlock()
		if pr.proc != nil {
			o.State = int(pr.proc.State())
		}
		res.Obs = append(res.Obs, o)
	}
	step := func(tid int) bool {
		var en []int
		sch.mu.Lock()
		for i, t := range sch.threads {
			if t.parked && !t.done {
				en = append(en, i)
			}
		}
		sch.mu.Unlock()
		enabledAt = append(enabledAt, en)
		enabled, ok := sch.grant(tid)
		res.Full = append(res.Full, tid)
		observe(tid, enabled)
		return ok
	}
	for _, tid := range c.Sched {
		if !step(tid) {
			return fail(sch.stalled)
		}
	}
	// completion
	var prng *rand.Rand
	if strings.HasPrefix(c.Policy, "random:") {
		var sd int64
		fmt.Sscanf(c.Policy, "random:%d", &sd)
		prng = rand.New(rand.NewSource(sd))
	}
	for guard := 0; guard < 5000; guard++ {
		next := -1
		sch.mu.Lock()
		var en []int
		for i, t := range sch.threads {
			if t.parked && !t.done {
				en = append(en, i)
			}
		}
		sch.mu.Unlock()
		if len(en) == 0 {
			break
		}
		switch {
		case prng != nil:
			next = en[prng.Intn(len(en))]
		case c.Policy == "highest":
			next = en[len(en)-1]
		case strings.HasPrefix(c.Policy, "nonpreempt"):
			// keep running the thread that ran last while it is enabled; otherwise pick by the base order:
			// nonpreempt = lowest, nonpreempt:highest, nonpreempt:dynfirst = goroutines started by the code
			// under test (runners, terminate goroutines) before the harness threads
			next = en[0]
			switch c.Policy {
			case "nonpreempt:highest":
				next = en[len(en)-1]
			case "nonpreempt:dynfirst":
				for _, e := range en {
					if e > len(c.Threads) {
						next = e
						break
					}
				}
			}
			if len(res.Full) > 0 {
				last := res.Full[len(res.Full)-1]
				for _, e := range en {
					if e == last {
						next = last
					}
				}
			}
		default:
			next = en[0]
		}
		if !step(next) {
			return fail(sch.stalled)
		}
	}
	sch.mu.Lock()
	for _, t := range sch.threads {
		if !t.done {
			res.Stalled = fmt.Sprintf("thread %d not finished at the end (label %q)", t.tid, t.label)
		}
	}
	sch.mu.Unlock()

	pr.mu.Lock()
	res.Events = append(res.Events, pr.events...)
	res.Handled = append(res.Handled, pr.handled...)
	res.Oks = append(res.Oks, pr.selfOks...)
	res.Errs = append(res.Errs, pr.selfErrs...)
	res.Terms = pr.terms
	res.Reason = pr.reason
	res.MaxOpen = pr.maxOpen
	res.DoubleRelease, res.DoubleAt = pool.report()
	pr.mu.Unlock()
	// what the fallback process received for this target (wait until it is idle)
	if c.Fallback && theFallback != nil {
		for i := 0; i < 5000; i++ {
			info, err := node.ProcessInfo(fallbackPID)
			if err == nil && info.State == gen.ProcessStateSleep && info.MailboxQueues.Main == 0 {
				break
			}
			time.Sleep(100 * time.Microsecond)
		}
		theFallback.mu.Lock()
		for _, r := range theFallback.got {
			if r.PID == tpid {
				res.Fbs = append(res.Fbs, r.ID)
				if r.Tag != fallbackTag {
					res.Stalled = fmt.Sprintf("fallback message %d carries tag %q", r.ID, r.Tag)
				}
			}
		}
		theFallback.mu.Unlock()
		// a re-routed send returned nil to its sender: it is not an accepted send of this mailbox
		var direct []int
		for _, id := range res.Oks {
			rer := false
			for _, f := range res.Fbs {
				if f == id {
					rer = true
				}
			}
			if !rer {
				direct = append(direct, id)
			}
		}
		res.Oks = direct
	}
	res.Final = 1
	if pr.proc != nil {
		res.Final = int(pr.proc.State())
		mb := pr.proc.Mailbox()
		res.QLens = [3]int64{mb.Urgent.Len(), mb.System.Len(), mb.Main.Len()}
	}
	return res, enabledAt
}

// ---- Coq printing -------------------------------------------------------------------

func coqMsg(m Msg) string {
	var b string
	switch m.Beh {
	case "ok":
		b = fmt.Sprintf("BOk %d", m.N)
	case "err":
		b = fmt.Sprintf("BErr %d", m.Reason)
	case "panic":
		b = "BPanic"
	case "call":
		b = fmt.Sprintf("BCall %d", m.N)
	case "exit":
		b = fmt.Sprintf("BExit %d", m.Reason)
	}
	return fmt.Sprintf("mk_msg %d %d (%s)", m.ID, m.Q, b)
}

func coqMsgs(ms []Msg) string {
	var p []string
	for _, m := range ms {
		p = append(p, coqMsg(m))
	}
	return "[" + strings.Join(p, "; ") + "]"
}

func natList(l []int) string {
	var p []string
	for _, v := range l {
		p = append(p, fmt.Sprint(v))
	}
	return "[" + strings.Join(p, "; ") + "]"
}

func coqCase(c Case, r Result) string {
	var ths []string
	for _, t := range c.Threads {
		if t.Kind == "K" {
			ths = append(ths, "K_load")
		} else {
			ths = append(ths, fmt.Sprintf("S_load %s %s", util.B(t.ByName), coqMsgs(t.Msgs)))
		}
	}
	var obs []string
	for _, o := range r.Obs {
		obs = append(obs, fmt.Sprintf("mk_obs %d %s %d %d %d", o.Tid, util.B(o.Enabled), o.Label, o.State, o.NThr))
	}
	var evs []string
	for _, e := range r.Events {
		evs = append(evs, fmt.Sprintf("(%d, %d)", e.Kind, e.ID))
	}
	return fmt.Sprintf("mk_scase %s %d %s %s %s [%s] %s [%s] [%s] %s %s %s %s %d %d %d %s",
		util.B(c.Named), c.Limit, util.B(c.Fallback), coqMsgs(c.Self), util.B(c.InitOK), strings.Join(ths, "; "), natList(r.Full),
		strings.Join(obs, "; "), strings.Join(evs, "; "), natList(r.Handled), natList(r.Oks), natList(r.Errs), natList(r.Fbs),
		r.Terms, r.Reason, r.Final, util.B(r.QLens[0]+r.QLens[1]+r.QLens[2] == 0))
}
