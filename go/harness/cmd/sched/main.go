// Harness for the Sched engine (C01, C02, C05): runs the real process runtime under a
// cooperative scheduler (lib.VerifPoint hooks) and records every granted step.
package main

import (
	"encoding/json"
	"flag"
	"fmt"
	"math/rand"
	"os"
	"sort"
	"strings"

	"ergo.services/ergo"
	"ergo.services/ergo/gen"
	"verifharness/util"
)

func startNode() (gen.Node, gen.PID) {
	// a Call whose reply is dropped (e.g. the caller runs before spawn has stored it in the process
	// table, so RouteSendResponse does not find it) must end by its timer well within the
	// scheduler's stall limit
	gen.DefaultRequestTimeout = 1
	opts := gen.NodeOptions{}
	opts.Network.Mode = gen.NetworkModeDisabled
	opts.Log.DefaultLogger.Disable = true
	opts.Log.Level = gen.LogLevelDisabled
	name := gen.Atom(fmt.Sprintf("sched%d@localhost", os.Getpid()))
	node, err := ergo.StartNode(name, opts)
	if err != nil {
		panic(err)
	}
	hp, err := node.Spawn(func() gen.ProcessBehavior { return &helper{} }, gen.ProcessOptions{})
	if err != nil {
		panic(err)
	}
	theFallback = &fallbackActor{}
	fallbackPID, err = node.SpawnRegister(fallbackName, func() gen.ProcessBehavior { return theFallback }, gen.ProcessOptions{})
	if err != nil {
		panic(err)
	}
	return node, hp
}

func genMsg(r *rand.Rand, id int) Msg {
	m := Msg{ID: id, Q: []int{2, 2, 2, 1, 0}[r.Intn(5)], Beh: "ok", N: r.Intn(2)}
	switch r.Intn(12) {
	case 0:
		m.Beh, m.Reason = "err", 3+r.Intn(4)
	case 1:
		m.Beh = "panic"
	case 2, 3:
		m.Beh = "call"
	case 4:
		// exit signal from the node core (= the parent of a process spawned by the node): Urgent queue
		m.Beh, m.Reason, m.Q = "exit", 4+r.Intn(3), 0
	}
	return m
}

func genCase(r *rand.Rand) Case {
	c := Case{Named: r.Intn(3) == 0, InitOK: r.Intn(10) != 0}
	if r.Intn(3) == 0 {
		c.Limit = 1 + r.Intn(3)
		c.Fallback = r.Intn(2) == 0
	}
	id := 1
	for i := r.Intn(3); i > 0; i-- {
		m := genMsg(r, id)
		m.Q = 2
		if m.Beh == "call" || m.Beh == "exit" {
			m.Beh, m.Q = "ok", 2
		}
		c.Self = append(c.Self, m)
		id++
	}
	ns := 1 + r.Intn(3)
	for i := 0; i < ns; i++ {
		t := Thread{Kind: "S", ByName: c.Named && r.Intn(2) == 0}
		for j := 1 + r.Intn(2); j > 0; j-- {
			m := genMsg(r, id)
			if t.ByName && m.Beh == "exit" {
				m.Beh, m.Q = "ok", 2 // exit signals are addressed by pid
			}
			t.Msgs = append(t.Msgs, m)
			id++
		}
		c.Threads = append(c.Threads, t)
	}
	for i := []int{0, 0, 1, 1, 2}[r.Intn(5)]; i > 0; i-- {
		c.Threads = append(c.Threads, Thread{Kind: "K"})
	}
	r.Shuffle(len(c.Threads), func(i, j int) { c.Threads[i], c.Threads[j] = c.Threads[j], c.Threads[i] })
	// random walk: a list of raw choices; choices that are not enabled are skipped by both sides
	n := r.Intn(120)
	span := len(c.Threads) + 1 + r.Intn(4)
	for i := 0; i < n; i++ {
		c.Sched = append(c.Sched, r.Intn(span))
	}
	c.Policy = []string{"lowest", "highest", "nonpreempt", fmt.Sprintf("random:%d", r.Int63()), fmt.Sprintf("random:%d", r.Int63())}[r.Intn(5)]
	return c
}

// tiny configurations explored exhaustively (bounded number of preemptions)
func tinyConfigs() []Case {
	ok := func(id, q, n int) Msg { return Msg{ID: id, Q: q, Beh: "ok", N: n} }
	return []Case{
		{InitOK: true, Threads: []Thread{{Kind: "S", Msgs: []Msg{ok(1, 2, 0)}}, {Kind: "S", Msgs: []Msg{ok(2, 2, 0)}}}},
		{InitOK: true, Threads: []Thread{{Kind: "S", Msgs: []Msg{ok(1, 2, 1)}}, {Kind: "K"}, {Kind: "K"}}},
		{InitOK: true, Threads: []Thread{{Kind: "S", Msgs: []Msg{ok(1, 2, 0)}}, {Kind: "S", Msgs: []Msg{ok(2, 0, 0)}}, {Kind: "K"}}},
		{InitOK: true, Self: []Msg{ok(1, 2, 0)}, Threads: []Thread{{Kind: "S", Msgs: []Msg{{ID: 2, Q: 2, Beh: "err", Reason: 5}}}, {Kind: "K"}}},
		{InitOK: true, Named: true, Threads: []Thread{{Kind: "S", ByName: true, Msgs: []Msg{ok(1, 1, 0), ok(2, 2, 0)}}, {Kind: "S", Msgs: []Msg{{ID: 3, Q: 2, Beh: "call"}}}}},
		{InitOK: true, Threads: []Thread{{Kind: "S", Msgs: []Msg{{ID: 1, Q: 2, Beh: "call", N: 0}}}, {Kind: "K"}, {Kind: "K"}}},
		{InitOK: true, Threads: []Thread{{Kind: "S", Msgs: []Msg{{ID: 1, Q: 2, Beh: "panic"}}}, {Kind: "S", Msgs: []Msg{ok(2, 2, 0)}}, {Kind: "K"}}},
		{InitOK: true, Threads: []Thread{{Kind: "S", Msgs: []Msg{ok(1, 2, 1)}}, {Kind: "S", Msgs: []Msg{{ID: 2, Q: 0, Beh: "exit", Reason: 4}}}, {Kind: "K"}}},
		{InitOK: true, Limit: 1, Fallback: true, Threads: []Thread{{Kind: "S", Msgs: []Msg{ok(1, 2, 0), ok(2, 2, 0)}}, {Kind: "S", Msgs: []Msg{ok(3, 2, 0)}}}},
		{InitOK: true, Limit: 1, Self: []Msg{ok(1, 2, 0), ok(2, 2, 0)}, Threads: []Thread{{Kind: "S", Msgs: []Msg{ok(3, 2, 0)}}}},
	}
}

// number of preemptions in a complete schedule: switching away from a thread that could have continued
func preemptions(enabledAt [][]int, full []int, upto int) int {
	n := 0
	for i := 1; i <= upto && i < len(full); i++ {
		if full[i] != full[i-1] {
			for _, e := range enabledAt[i] {
				if e == full[i-1] {
					n++
					break
				}
			}
		}
	}
	return n
}

// branch coverage of the model's transition system, measured on the executed schedules: an edge is
// (hook a goroutine left, hook it reached next). The edges that are the FAILING branch of a compare-and-swap
// or a state check are rare under random scheduling; they are counted by name so that a hole is visible
// in the evidence (and closed by a corpus schedule).
var namedEdges = map[[2]int]string{
	{17, 23}: "edge:rewake-cas-lost(run.cas.wake>run.exit)",
	{17, 8}:  "edge:rewake-cas-won(run.cas.wake>run.next)",
	{15, 18}: "edge:sleep-cas-failed(run.cas.sleep>run.swapT)",
	{12, 11}: "edge:wait-cas1-failed(wait.cas1>cb)",
	{14, 11}: "edge:wait-cas2(wait.cas2>cb)",
	{9, 18}:  "edge:state-not-running(actor.state>run.swapT)",
	{5, 6}:   "edge:wake-cas-won(run.cas>run.spawn)",
	{25, 26}: "edge:kill-found-terminated(kill.swapZ>kill.storeT)",
	{25, 27}: "edge:kill-sleeping(kill.swapZ>kill.swapT)",
	{36, 11}: "edge:call-not-allowed(call.state>cb)",
	{37, 1}:  "edge:mailbox-full",
}
var edgeSeen = map[[2]int]bool{}

func countEdges(o *util.Out, r Result) {
	last := map[int]int{}
	for i, tid := range r.Full {
		if i >= len(r.Obs) {
			break
		}
		nl := r.Obs[i].Label
		pl, ok := last[tid]
		last[tid] = nl
		if !ok {
			continue
		}
		e := [2]int{pl, nl}
		if !edgeSeen[e] {
			edgeSeen[e] = true
			o.Stats["edges-distinct"]++
		}
		if n, ok := namedEdges[e]; ok {
			o.Stats[n]++
		}
	}
}

func emit(o *util.Out, c Case, r Result, kind string) {
	idx := o.Add(coqCase(c, r), c)
	countEdges(o, r)
	o.Stats["kind:"+kind]++
	o.Stats["steps"] += len(r.Full)
	if r.Terms > 0 {
		o.Stats["terminated"]++
	}
	o.Stats[fmt.Sprintf("reason:%d", r.Reason)]++
	if r.Final == 2 {
		o.Stats["final-sleep"]++
	}
	if r.SpawnErr {
		o.Stats["init-failed"]++
	}
	if r.Stalled != "" {
		o.Notes = append(o.Notes, fmt.Sprintf("case %d stalled: %s", idx, r.Stalled))
		o.Stats["stalled"]++
	}
	if r.MaxOpen > 1 {
		o.Stats["overlap-observed"]++
	}
	if r.DoubleRelease > 0 {
		o.Stats["double-release"]++
		o.Monitor = append(o.Monitor, util.MonitorFail{Case: idx, What: fmt.Sprintf("a mailbox message was released to the pool %d time(s) without having been taken in between (two later senders would share it: accepted messages overwritten or lost). First at: %s", r.DoubleRelease, r.DoubleAt)})
	}
}

func main() {
	if len(os.Args) < 2 {
		fmt.Fprintln(os.Stderr, "usage: sched <run|dfs|corpus> [flags]")
		os.Exit(2)
	}
	fs := flag.NewFlagSet(os.Args[1], flag.ExitOnError)
	n := fs.Int("n", 300, "number of cases")
	out := fs.String("out", "", "output json")
	replay := fs.String("replay", "", "replay file")
	corpus := fs.String("corpus", "", "corpus directory")
	bound := fs.Int("preempt", 2, "preemption bound for dfs")
	fs.Parse(os.Args[2:])
	installBaseHook() // before the node starts: no take / release of a mailbox message is missed
	node, hp := startNode()
	o := util.NewOut("sched." + os.Args[1])
	switch os.Args[1] {
	case "run":
		if *replay != "" {
			b, err := os.ReadFile(*replay)
			if err != nil {
				panic(err)
			}
			var rp struct {
				Case Case `json:"case"`
			}
			if err := json.Unmarshal(b, &rp); err != nil {
				panic(err)
			}
			emit(o, rp.Case, runCase(node, hp, rp.Case), "replay")
			break
		}
		r := util.Rng(11)
		for i := 0; i < *n; i++ {
			c := genCase(r)
			emit(o, c, runCase(node, hp, c), "random")
		}
	case "corpus":
		files, _ := os.ReadDir(*corpus)
		var names []string
		for _, f := range files {
			if strings.HasSuffix(f.Name(), ".json") {
				names = append(names, f.Name())
			}
		}
		sort.Strings(names)
		for _, fn := range names {
			b, _ := os.ReadFile(*corpus + "/" + fn)
			var rp struct {
				Case Case `json:"case"`
			}
			if err := json.Unmarshal(b, &rp); err != nil {
				panic(err)
			}
			emit(o, rp.Case, runCase(node, hp, rp.Case), "corpus:"+fn)
		}
	case "around":
		// local search around given schedules (replay file holding {"cases":[...]}): every schedule that
		// deviates from one of them at one position to any other enabled thread
		b, err := os.ReadFile(*replay)
		if err != nil {
			panic(err)
		}
		var rp struct {
			Cases []Case `json:"cases"`
		}
		if err := json.Unmarshal(b, &rp); err != nil {
			panic(err)
		}
		seen := map[string]bool{}
		for _, base := range rp.Cases {
			res, enabledAt := runCaseEnabled(node, hp, base)
			full := res.Full
			for i := 0; i < len(full) && len(o.Cases) < *n; i++ {
				for _, alt := range enabledAt[i] {
					if alt == full[i] {
						continue
					}
					c := base
					c.Sched = append(append([]int{}, full[:i]...), alt)
					c.Policy = "nonpreempt"
					r2 := runCase(node, hp, c)
					key := fmt.Sprint(r2.Full)
					if seen[key] {
						continue
					}
					seen[key] = true
					emit(o, c, r2, "around")
				}
			}
		}
	case "delayed":
		runDelayed(node, *n, o)
	case "meta":
		var cases []MCase
		if *replay != "" {
			b, err := os.ReadFile(*replay)
			if err != nil {
				panic(err)
			}
			var rp struct {
				Case MCase `json:"case"`
			}
			if err := json.Unmarshal(b, &rp); err != nil {
				panic(err)
			}
			cases = append(cases, rp.Case)
		} else {
			cases = append(cases, metaCorpus()...)
			r := util.Rng(12)
			for i := 0; i < *n; i++ {
				cases = append(cases, genMetaCase(r))
			}
		}
		emitMeta := func(c MCase, res MResult) {
			idx := o.Add(coqMetaCase(c, res), c)
			o.Stats["steps"] += len(res.Full)
			o.Stats[fmt.Sprintf("reason:%d", res.Reason)]++
			if res.Terms > 0 {
				o.Stats["terminated"]++
			}
			if res.MaxOpen > 1 {
				o.Stats["overlap-observed"]++
			}
			for _, ob := range res.Obs {
				if ob.Label == 21 {
					o.Stats["handler-woken-by-recheck"]++
					break
				}
			}
			if res.DoubleRelease > 0 {
				o.Stats["double-release"]++
				o.Monitor = append(o.Monitor, util.MonitorFail{Case: idx, What: fmt.Sprintf("a mailbox message was released to the pool %d time(s) without having been taken in between (two later senders would share it: accepted messages overwritten or lost). First at: %s", res.DoubleRelease, res.DoubleAt)})
			}
			if res.AliasLeft {
				o.Stats["alias-left-after-termination"]++
				o.Monitor = append(o.Monitor, util.MonitorFail{Case: idx, Tags: []string{"meta-alias"},
					What: "the meta process has terminated (every goroutine of it finished) and its alias is still registered in the node: a send to the alias succeeds"})
			}
			if res.Stalled != "" {
				o.Notes = append(o.Notes, fmt.Sprintf("case %d stalled: %s", idx, res.Stalled))
			}
		}
		for _, c := range cases {
			res, _ := runMetaCase(node, c)
			emitMeta(c, res)
		}
		if *replay == "" {
			// deviation enumeration around non-preemptive base schedules (budget: 4x the random cases)
			runs, complete := metaDeviations(node, 4**n, emitMeta)
			o.Stats["deviation-runs"] = runs
			if complete {
				o.Stats["deviation-depth1-complete"] = 1
			}
		}
	case "dfs":
		// Deviation enumeration (stateless): for each tiny configuration and each base order
		// (non-preemptive: lowest first / highest first / goroutines of the code under test first) run the
		// base schedule, then every schedule that deviates from it at ONE position to ANY other enabled
		// thread (depth 1, complete), and - budget permitting, -preempt 2 - at two positions.
		cfgs := tinyConfigs()
		per := *n / len(cfgs)
		bases := []string{"nonpreempt", "nonpreempt:highest", "nonpreempt:dynfirst"}
		for ci, base := range cfgs {
			runs := 0
			seen := map[string]bool{}
			complete1 := true
			type item struct {
				prefix []int
				policy string
				depth  int
			}
			var queue []item
			for _, b := range bases {
				queue = append(queue, item{nil, b, 0})
			}
			for len(queue) > 0 {
				if runs >= per {
					complete1 = false
					break
				}
				it := queue[0]
				queue = queue[1:]
				c := base
				c.Sched = it.prefix
				c.Policy = it.policy
				res, enabledAt := runCaseEnabled(node, hp, c)
				key := fmt.Sprint(res.Full)
				if !seen[key] {
					seen[key] = true
					runs++
					emit(o, c, res, fmt.Sprintf("dfs%d", ci))
				}
				if it.depth >= *bound {
					continue
				}
				for i := len(it.prefix); i < len(res.Full); i++ {
					for _, alt := range enabledAt[i] {
						if alt == res.Full[i] {
							continue
						}
						np := append(append([]int{}, res.Full[:i]...), alt)
						queue = append(queue, item{np, it.policy, it.depth + 1})
					}
				}
			}
			o.Stats[fmt.Sprintf("dfs%d-runs", ci)] = runs
			if complete1 {
				o.Stats[fmt.Sprintf("dfs%d-complete-to-depth", ci)] = *bound
			}
		}
	}
	o.Write(*out)
	_ = node
}
