package main

// Delayed sends on a real node (no hooks): process.SendAfter, cancel at a random moment around
// the expiry, then count how often the message was received.

import (
	"fmt"
	"sync"
	"time"

	"ergo.services/ergo/act"
	"ergo.services/ergo/gen"
	"verifharness/util"
)

type delayedMsg struct{ ID int }

type schedCmd struct {
	To    gen.PID
	ID    int
	Delay time.Duration
	Reply chan gen.CancelFunc
}

type delayedSender struct{ act.Actor }

func (d *delayedSender) HandleMessage(from gen.PID, message any) error {
	c, ok := message.(schedCmd)
	if !ok {
		return nil
	}
	cancel, err := d.SendAfter(c.To, delayedMsg{c.ID}, c.Delay)
	if err != nil {
		close(c.Reply)
		return nil
	}
	c.Reply <- cancel
	return nil
}

type delayedReceiver struct {
	act.Actor
	mu  sync.Mutex
	got map[int]int
}

func (d *delayedReceiver) HandleMessage(from gen.PID, message any) error {
	if m, ok := message.(delayedMsg); ok {
		d.mu.Lock()
		d.got[m.ID]++
		d.mu.Unlock()
	}
	return nil
}

type dCase struct {
	ID        int      `json:"id"`
	DelayUs   int      `json:"delay_us"`
	CancelUs  int      `json:"cancel_us"` // < 0: never cancelled
	Cancelled bool     `json:"cancelled"`
	Result    bool     `json:"result"`
	Received  int      `json:"received"`
	Tags      []string `json:"tags"`
}

func runDelayed(node gen.Node, n int, o *util.Out) {
	recv := &delayedReceiver{got: map[int]int{}}
	rpid, err := node.Spawn(func() gen.ProcessBehavior { return recv }, gen.ProcessOptions{})
	if err != nil {
		panic(err)
	}
	spid, err := node.Spawn(func() gen.ProcessBehavior { return &delayedSender{} }, gen.ProcessOptions{})
	if err != nil {
		panic(err)
	}
	r := util.Rng(13)
	cases := make([]dCase, n)
	var wg sync.WaitGroup
	for i := 0; i < n; i++ {
		c := &cases[i]
		c.ID = i + 1
		c.DelayUs = 200 + r.Intn(3000)
		switch r.Intn(5) {
		case 0:
			c.CancelUs = -1
		case 1:
			c.CancelUs = r.Intn(100)
		default:
			// around the expiry
			c.CancelUs = c.DelayUs - 300 + r.Intn(600)
			if c.CancelUs < 0 {
				c.CancelUs = 0
			}
		}
		c.Tags = []string{}
		reply := make(chan gen.CancelFunc, 1)
		node.Send(spid, schedCmd{To: rpid, ID: c.ID, Delay: time.Duration(c.DelayUs) * time.Microsecond, Reply: reply})
		cancel, ok := <-reply
		if !ok {
			o.Notes = append(o.Notes, "SendAfter failed")
			continue
		}
		if c.CancelUs >= 0 {
			wg.Add(1)
			go func() {
				defer wg.Done()
				time.Sleep(time.Duration(c.CancelUs) * time.Microsecond)
				c.Cancelled = true
				c.Result = cancel()
			}()
		}
		if i%16 == 15 {
			time.Sleep(time.Millisecond)
		}
	}
	wg.Wait()
	time.Sleep(60 * time.Millisecond)
	recv.mu.Lock()
	for i := range cases {
		cases[i].Received = recv.got[cases[i].ID]
	}
	recv.mu.Unlock()
	for _, c := range cases {
		o.Add(fmt.Sprintf("mk_dcase %s %s %d", util.B(c.Cancelled), util.B(c.Result), c.Received), c)
		switch {
		case !c.Cancelled:
			o.Stats["not-cancelled"]++
		case c.Result:
			o.Stats["cancel-true"]++
		default:
			o.Stats["cancel-false"]++
		}
	}
}
