package main

// Sub-command "fallback" (C02): a receiver with a bounded mailbox is parked inside a callback while one
// sender addresses it by pid, by registered name and by alias with all three priorities. With a fallback
// process configured every message the full queue refuses must reach the fallback exactly once, wrapped
// with the ORIGINAL RECIPIENT's pid and the configured tag, and the send reports success; without a
// fallback the send reports ErrProcessMailboxFull and the message is never handled. What was accepted is
// handled exactly once by the receiver after it is released. Go-side monitor (the lock-step engine of
// C02 covers pid and name addressing step by step; this family adds alias addressing and the wrapper).

import (
	"encoding/json"
	"errors"
	"fmt"
	"os"
	"sync"
	"time"

	"ergo.services/ergo"
	"ergo.services/ergo/act"
	"ergo.services/ergo/gen"
	"verifharness/util"
)

type fbSend struct {
	Addr string `json:"addr"` // pid | name | alias
	Prio int    `json:"prio"` // 0 normal, 1 high, 2 max
	ID   int    `json:"id"`
}

type fbCase struct {
	Size     int      `json:"size"`     // MailboxSize of the receiver
	Fallback bool     `json:"fallback"` // a fallback process is configured
	Sends    []fbSend `json:"sends"`
	Tags     []string `json:"tags"`
}

type fbItem struct{ ID int }

type fbRecv struct {
	act.Actor
	mu      sync.Mutex
	handled []int
	parked  chan struct{}
	release chan struct{}
	alias   gen.Alias
	ready   chan struct{}
}

type fbPark struct{}
type fbSetup struct{}

func (r *fbRecv) HandleMessage(from gen.PID, message any) error {
	switch m := message.(type) {
	case fbSetup:
		a, err := r.CreateAlias()
		if err == nil {
			r.alias = a
		}
		close(r.ready)
	case fbPark:
		close(r.parked)
		<-r.release
	case fbItem:
		r.mu.Lock()
		r.handled = append(r.handled, m.ID)
		r.mu.Unlock()
	}
	return nil
}

type fbWrap struct {
	pid gen.PID
	tag string
	id  int
	ok  bool
}

type fbFallback struct {
	act.Actor
	mu  sync.Mutex
	got []fbWrap
}

func (f *fbFallback) HandleMessage(from gen.PID, message any) error {
	if m, ok := message.(gen.MessageFallback); ok {
		w := fbWrap{pid: m.PID, tag: m.Tag}
		if it, ok := m.Message.(fbItem); ok {
			w.id, w.ok = it.ID, true
		}
		f.mu.Lock()
		f.got = append(f.got, w)
		f.mu.Unlock()
	}
	return nil
}

type fbSender struct{ act.Actor }

type fbScript struct {
	c     fbCase
	pid   gen.PID
	name  gen.Atom
	alias gen.Alias
	res   chan []error
}

func (s *fbSender) HandleMessage(from gen.PID, message any) error {
	sc, ok := message.(fbScript)
	if !ok {
		return nil
	}
	var out []error
	for _, snd := range sc.c.Sends {
		var to any = sc.pid
		switch snd.Addr {
		case "name":
			to = sc.name
		case "alias":
			to = sc.alias
		}
		prio := gen.MessagePriorityNormal
		switch snd.Prio {
		case 1:
			prio = gen.MessagePriorityHigh
		case 2:
			prio = gen.MessagePriorityMax
		}
		out = append(out, s.SendWithPriority(to, fbItem{snd.ID}, prio))
	}
	sc.res <- out
	return nil
}

var fbSeq int

const fbTag = "verif-fallback-tag"

func runFbCase(node gen.Node, c fbCase) ([]string, error) {
	fbSeq++
	name := gen.Atom(fmt.Sprintf("fbrecv%d", fbSeq))
	fname := gen.Atom(fmt.Sprintf("fbfall%d", fbSeq))
	fb := &fbFallback{}
	fpid, err := node.SpawnRegister(fname, func() gen.ProcessBehavior { return fb }, gen.ProcessOptions{})
	if err != nil {
		return nil, err
	}
	defer node.Kill(fpid)
	rc := &fbRecv{parked: make(chan struct{}), release: make(chan struct{}), ready: make(chan struct{})}
	popts := gen.ProcessOptions{MailboxSize: int64(c.Size)}
	if c.Fallback {
		popts.Fallback = gen.ProcessFallback{Enable: true, Name: fname, Tag: fbTag}
	}
	rpid, err := node.SpawnRegister(name, func() gen.ProcessBehavior { return rc }, popts)
	if err != nil {
		return nil, err
	}
	defer node.Kill(rpid)
	node.Send(rpid, fbSetup{})
	select {
	case <-rc.ready:
	case <-time.After(5 * time.Second):
		return nil, errors.New("receiver setup timed out")
	}
	node.Send(rpid, fbPark{})
	select {
	case <-rc.parked:
	case <-time.After(5 * time.Second):
		return nil, errors.New("receiver did not park")
	}
	spid, err := node.Spawn(func() gen.ProcessBehavior { return &fbSender{} }, gen.ProcessOptions{})
	if err != nil {
		return nil, err
	}
	defer node.Kill(spid)
	resc := make(chan []error, 1)
	node.Send(spid, fbScript{c: c, pid: rpid, name: name, alias: rc.alias, res: resc})
	var results []error
	select {
	case results = <-resc:
	case <-time.After(10 * time.Second):
		return nil, errors.New("sender did not finish")
	}
	// expected: per queue (priority) the first Size sends are accepted, the rest refused
	inq := map[int]int{}
	var accepted, refused []int
	for _, snd := range c.Sends {
		if c.Size > 0 && inq[snd.Prio] >= c.Size {
			refused = append(refused, snd.ID)
		} else {
			inq[snd.Prio]++
			accepted = append(accepted, snd.ID)
		}
	}
	close(rc.release)
	// wait until the receiver handled what was accepted and the fallback what was refused (bounded)
	deadline := time.Now().Add(5 * time.Second)
	for time.Now().Before(deadline) {
		rc.mu.Lock()
		nh := len(rc.handled)
		rc.mu.Unlock()
		fb.mu.Lock()
		nf := len(fb.got)
		fb.mu.Unlock()
		wantF := 0
		if c.Fallback {
			wantF = len(refused)
		}
		if nh >= len(accepted) && nf >= wantF {
			break
		}
		time.Sleep(time.Millisecond)
	}
	time.Sleep(3 * time.Millisecond)
	rc.mu.Lock()
	handled := append([]int{}, rc.handled...)
	rc.mu.Unlock()
	fb.mu.Lock()
	got := append([]fbWrap{}, fb.got...)
	fb.mu.Unlock()

	var fails []string
	isRefused := map[int]bool{}
	for _, id := range refused {
		isRefused[id] = true
	}
	addrOf := map[int]string{}
	for i, snd := range c.Sends {
		addrOf[snd.ID] = snd.Addr
		e := results[i]
		switch {
		case !isRefused[snd.ID] && e != nil:
			fails = append(fails, fmt.Sprintf("send %d (%s) into a mailbox with room failed: %v", snd.ID, snd.Addr, e))
		case isRefused[snd.ID] && c.Fallback && e != nil:
			fails = append(fails, fmt.Sprintf("send %d (%s) refused by the full mailbox with a fallback configured reported %v", snd.ID, snd.Addr, e))
		case isRefused[snd.ID] && !c.Fallback && !errors.Is(e, gen.ErrProcessMailboxFull):
			fails = append(fails, fmt.Sprintf("send %d (%s) refused by the full mailbox without fallback reported %v, expected mailbox full", snd.ID, snd.Addr, e))
		}
	}
	cnt := map[int]int{}
	for _, id := range handled {
		cnt[id]++
	}
	for _, id := range accepted {
		if cnt[id] != 1 {
			fails = append(fails, fmt.Sprintf("accepted message %d (%s) was handled %d times by the receiver", id, addrOf[id], cnt[id]))
		}
	}
	for _, id := range refused {
		if cnt[id] != 0 {
			fails = append(fails, fmt.Sprintf("refused message %d (%s) was handled by the receiver", id, addrOf[id]))
		}
	}
	fcnt := map[int]int{}
	for _, w := range got {
		if !w.ok {
			fails = append(fails, "the fallback received a wrapper with a foreign payload")
			continue
		}
		fcnt[w.id]++
		if w.pid != rpid {
			fails = append(fails, fmt.Sprintf("fallback wrapper of message %d (%s) names %s, the original recipient is %s", w.id, addrOf[w.id], w.pid, rpid))
		}
		if w.tag != fbTag {
			fails = append(fails, fmt.Sprintf("fallback wrapper of message %d (%s) carries tag %q, configured %q", w.id, addrOf[w.id], w.tag, fbTag))
		}
	}
	for _, id := range refused {
		want := 0
		if c.Fallback {
			want = 1
		}
		if fcnt[id] != want {
			fails = append(fails, fmt.Sprintf("refused message %d (%s) reached the fallback %d times, expected %d", id, addrOf[id], fcnt[id], want))
		}
	}
	for _, id := range accepted {
		if fcnt[id] != 0 {
			fails = append(fails, fmt.Sprintf("accepted message %d (%s) reached the fallback too", id, addrOf[id]))
		}
	}
	return fails, nil
}

func runFallback(n int, out string, replay json.RawMessage) {
	o := util.NewOut("mbox.fallback")
	opts := gen.NodeOptions{}
	opts.Network.Mode = gen.NetworkModeDisabled
	opts.Log.Level = gen.LogLevelDisabled
	node, err := ergo.StartNode(gen.Atom(fmt.Sprintf("mboxfb%d@localhost", os.Getpid())), opts)
	if err != nil {
		panic(err)
	}
	defer node.StopForce()
	var cases []fbCase
	if replay != nil {
		var c fbCase
		if err := json.Unmarshal(replay, &c); err != nil {
			panic(err)
		}
		cases = append(cases, c)
	} else {
		// corpus: every addressing mode refused once, with and without fallback
		for _, fbk := range []bool{true, false} {
			for _, addr := range []string{"pid", "name", "alias"} {
				c := fbCase{Size: 1, Fallback: fbk, Tags: []string{"corpus"}}
				c.Sends = []fbSend{{addr, 0, 1}, {addr, 0, 2}, {addr, 1, 3}, {addr, 1, 4}, {addr, 2, 5}, {addr, 2, 6}}
				cases = append(cases, c)
			}
		}
		r := util.Rng(61)
		for len(cases) < n {
			c := fbCase{Size: 1 + r.Intn(3), Fallback: r.Intn(4) != 0, Tags: []string{}}
			k := 3 + r.Intn(10)
			for i := 0; i < k; i++ {
				c.Sends = append(c.Sends, fbSend{[]string{"pid", "name", "alias"}[r.Intn(3)], r.Intn(3), i + 1})
			}
			cases = append(cases, c)
		}
	}
	for _, c := range cases {
		fails, err := runFbCase(node, c)
		idx := o.Add("tt", c)
		o.Stats["runs"]++
		if c.Fallback {
			o.Stats["with-fallback"]++
		}
		for _, s := range c.Sends {
			o.Stats["addr:"+s.Addr]++
		}
		if err != nil {
			o.Notes = append(o.Notes, err.Error())
			continue
		}
		for _, f := range fails {
			o.Monitor = append(o.Monitor, util.MonitorFail{Case: idx, What: f})
		}
	}
	o.Write(out)
}
