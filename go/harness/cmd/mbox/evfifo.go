package main

// C03, family "evfifo": per-sender FIFO for the EVENT addressing mode, for small and large subscriber
// sets. One producer publishes numbered event messages back to back on an event with K local
// subscribers (K from 1 to well above any batching threshold a fan-out might have), and between two
// publications sometimes sends a numbered plain message (same priority) straight to some subscribers.
// Every subscriber must handle what this one sender sent to it in the order it was sent: the event
// messages among themselves and relative to the plain messages.

import (
	"encoding/json"
	"fmt"
	"math/rand"
	"sync"
	"time"

	"ergo.services/ergo"
	"ergo.services/ergo/act"
	"ergo.services/ergo/gen"
	"verifharness/util"
)

type evCase struct {
	Subs   int      `json:"subs"`
	Msgs   int      `json:"msgs"`
	Direct int      `json:"direct"` // every Direct-th step also sends a plain message to three subscribers (0 = never)
	Link   bool     `json:"link"`   // subscribers link instead of monitor
	Tags   []string `json:"tags"`
}

type evSub struct {
	act.Actor
	mu   *sync.Mutex
	seen *[]int
	done chan struct{}
	want int
	ev   gen.Event
	link bool
}

type evSubscribe struct{ ack chan error }

func (s *evSub) note(v int) {
	s.mu.Lock()
	*s.seen = append(*s.seen, v)
	n := len(*s.seen)
	s.mu.Unlock()
	if n == s.want {
		close(s.done)
	}
}

func (s *evSub) HandleEvent(m gen.MessageEvent) error {
	if v, ok := m.Message.(int); ok {
		s.note(v)
	}
	return nil
}

func (s *evSub) HandleMessage(from gen.PID, message any) error {
	if v, ok := message.(int); ok {
		s.note(v)
	}
	if m, ok := message.(evSubscribe); ok {
		var err error
		if s.link {
			_, err = s.LinkEvent(s.ev)
		} else {
			_, err = s.MonitorEvent(s.ev)
		}
		m.ack <- err
	}
	return nil
}

type evProducer struct {
	act.Actor
	c     evCase
	name  gen.Atom
	ready chan gen.Event
	subs  chan []gen.PID
	errc  chan error
}

func (p *evProducer) HandleMessage(from gen.PID, message any) error {
	if s, ok := message.(string); !ok || s != "go" {
		return nil
	}
	tok, err := p.RegisterEvent(p.name, gen.EventOptions{})
	if err != nil {
		p.errc <- err
		return nil
	}
	p.ready <- gen.Event{Name: p.name, Node: p.Node().Name()}
	subs := <-p.subs
	seq := 0
	for k := 0; k < p.c.Msgs; k++ {
		if err := p.SendEvent(p.name, tok, seq); err != nil {
			p.errc <- err
			return nil
		}
		seq++
		if p.c.Direct > 0 && k%p.c.Direct == p.c.Direct-1 {
			for j := 0; j < 3 && j < len(subs); j++ {
				if err := p.Send(subs[(k+j*7)%len(subs)], seq); err != nil {
					p.errc <- err
					return nil
				}
			}
			seq++
		}
	}
	p.errc <- nil
	return nil
}

var evSeq int

func runEvCase(node gen.Node, c evCase) []string {
	evSeq++
	prod := &evProducer{c: c, name: gen.Atom(fmt.Sprintf("evfifo%d", evSeq)), ready: make(chan gen.Event, 1), subs: make(chan []gen.PID, 1), errc: make(chan error, 1)}
	ppid, err := node.Spawn(func() gen.ProcessBehavior { return prod }, gen.ProcessOptions{})
	if err != nil {
		return []string{"cannot spawn the producer: " + err.Error()}
	}
	defer node.Kill(ppid)
	node.Send(ppid, "go")
	var ev gen.Event
	select {
	case ev = <-prod.ready:
	case err := <-prod.errc:
		return []string{fmt.Sprint("producer could not register the event: ", err)}
	case <-time.After(3 * time.Second):
		return []string{"producer did not register the event"}
	}
	type rec struct {
		mu   sync.Mutex
		seen []int
		done chan struct{}
	}
	recs := make([]*rec, c.Subs)
	var pids []gen.PID
	// what each subscriber is going to get: every event message; the plain messages addressed to it
	want := make([][]int, c.Subs)
	{
		seq := 0
		for k := 0; k < c.Msgs; k++ {
			for i := range want {
				want[i] = append(want[i], seq)
			}
			seq++
			if c.Direct > 0 && k%c.Direct == c.Direct-1 {
				for j := 0; j < 3 && j < c.Subs; j++ {
					i := (k + j*7) % c.Subs
					want[i] = append(want[i], seq)
				}
				seq++
			}
		}
	}
	for i := 0; i < c.Subs; i++ {
		r := &rec{done: make(chan struct{})}
		recs[i] = r
		n := len(want[i])
		pid, err := node.Spawn(func() gen.ProcessBehavior {
			return &evSub{mu: &r.mu, seen: &r.seen, done: r.done, want: n, ev: ev, link: c.Link}
		}, gen.ProcessOptions{})
		if err != nil {
			return []string{"cannot spawn a subscriber: " + err.Error()}
		}
		pids = append(pids, pid)
		ack := make(chan error, 1)
		node.Send(pid, evSubscribe{ack: ack})
		select {
		case err := <-ack:
			if err != nil {
				return []string{"a subscriber could not subscribe: " + err.Error()}
			}
		case <-time.After(3 * time.Second):
			return []string{"a subscriber did not subscribe"}
		}
	}
	defer func() {
		for _, p := range pids {
			node.Kill(p)
		}
	}()
	prod.subs <- pids
	select {
	case err := <-prod.errc:
		if err != nil {
			return []string{"the producer's send failed: " + err.Error()}
		}
	case <-time.After(10 * time.Second):
		return []string{"the producer did not finish"}
	}
	var fails []string
	for i, r := range recs {
		select {
		case <-r.done:
		case <-time.After(2 * time.Second):
		}
		r.mu.Lock()
		got := append([]int(nil), r.seen...)
		r.mu.Unlock()
		if fmt.Sprint(got) != fmt.Sprint(want[i]) {
			k := 0
			for k < len(got) && k < len(want[i]) && got[k] == want[i][k] {
				k++
			}
			g, w := "nothing", "nothing"
			if k < len(got) {
				g = fmt.Sprint("#", got[k])
			}
			if k < len(want[i]) {
				w = fmt.Sprint("#", want[i][k])
			}
			if len(fails) < 3 {
				fails = append(fails, fmt.Sprintf("subscriber %d of %d handled %d of %d items from the one producer; at position %d it handled %s where %s had been sent", i, c.Subs, len(got), len(want[i]), k, g, w))
			}
		}
	}
	return fails
}

func runEvFifo(n int, out string, replay json.RawMessage) {
	o := util.NewOut("mbox.evfifo")
	var cases []evCase
	if replay != nil {
		var c evCase
		if err := json.Unmarshal(replay, &c); err != nil {
			panic(err)
		}
		cases = append(cases, c, c, c)
	} else {
		r := util.Rng(303)
		sizes := []int{1, 2, 5, 16, 31, 32, 33, 40, 64, 65, 100, 130, 257}
		for i := 0; len(cases) < n; i++ {
			c := evCase{Subs: sizes[i%len(sizes)], Msgs: 150 + r.Intn(250), Link: r.Intn(3) == 0, Tags: []string{"evfifo"}}
			if r.Intn(2) == 0 {
				c.Direct = 2 + r.Intn(5)
			}
			cases = append(cases, c)
		}
		_ = rand.Int
	}
	opts := gen.NodeOptions{}
	opts.Network.Mode = gen.NetworkModeDisabled
	opts.Log.DefaultLogger.Disable = true
	node, err := ergo.StartNode(gen.Atom(fmt.Sprintf("evfifo%d@localhost", time.Now().UnixNano()%100000)), opts)
	if err != nil {
		panic(err)
	}
	defer node.StopForce()
	for _, c := range cases {
		fails := runEvCase(node, c)
		idx := o.Add("", c)
		for _, f := range fails {
			o.Monitor = append(o.Monitor, util.MonitorFail{Case: idx, What: f, Tags: c.Tags})
		}
		o.Stats[fmt.Sprintf("subscribers/%d", c.Subs)]++
		o.Stats["event-messages"] += c.Msgs
		if c.Direct > 0 {
			o.Stats["with-plain-messages-between"]++
		}
		if c.Link {
			o.Stats["linked"]++
		}
	}
	o.Stats["runs"] = len(cases)
	o.Write(out)
}
