// Harness for the Mbox engine (C03): the real lib.QueueMPSC against the sequential model, and a
// receiver parked inside a callback while several senders enqueue mixed priorities, exit
// signals and down notifications by pid / name / alias.
package main

import (
	"encoding/json"
	"flag"
	"fmt"
	"os"
)

func main() {
	if len(os.Args) < 2 {
		fmt.Fprintln(os.Stderr, "usage: mbox <queue|parked> [flags]")
		os.Exit(2)
	}
	fs := flag.NewFlagSet(os.Args[1], flag.ExitOnError)
	n := fs.Int("n", 300, "number of cases")
	out := fs.String("out", "", "output json")
	replay := fs.String("replay", "", "replay file")
	fs.Parse(os.Args[2:])
	var raw json.RawMessage
	if *replay != "" {
		b, err := os.ReadFile(*replay)
		if err != nil {
			panic(err)
		}
		var rp struct {
			Case json.RawMessage `json:"case"`
		}
		if err := json.Unmarshal(b, &rp); err != nil {
			panic(err)
		}
		raw = rp.Case
	}
	switch os.Args[1] {
	case "queue":
		runQueue(*n, *out, raw)
	case "parked":
		runParked(*n, *out, raw)
	case "fallback":
		runFallback(*n, *out, raw)
	case "fbring":
		runFbRing(*n, *out, raw)
	case "evfifo":
		runEvFifo(*n, *out, raw)
	default:
		os.Exit(2)
	}
}
