package main

import (
	"encoding/json"
	"fmt"
	"math/rand"
	"os"
	"strings"
	"sync"
	"time"

	"ergo.services/ergo"
	"ergo.services/ergo/act"
	"ergo.services/ergo/gen"
	"ergo.services/ergo/lib"
	"verifharness/util"
)

// what one sender does, in order
type action struct {
	Kind int    `json:"kind"` // 0 normal (plain Send), 1 high, 2 max, 3 exit signal, 9 a High/Max send to a process that does not exist (fails; not an item)
	Addr string `json:"addr"` // pid, name, alias (kinds 0..2)
	Seq  int    `json:"seq"`
}
type pCase struct {
	Recv    string     `json:"recv,omitempty"` // receiver's loop: "" / actor (act.Actor), sup (act.Supervisor), pool (act.Pool with one worker)
	Senders [][]action `json:"senders"`
	Logs    int        `json:"logs"`   // log messages enqueued in phase 1 (the receiver is a logger)
	Phase2  [][]action `json:"phase2"` // enqueued while the receiver is parked inside the first HandleLog
	Downs   int        `json:"downs"`  // monitored victims killed while the receiver is parked
	Size    int        `json:"size,omitempty"` // MailboxSize of the receiver (0: unbounded); refused sends are not items
	Tags    []string   `json:"tags,omitempty"`
}

type itemMsg struct {
	Sender, Kind, Seq int
}
type parkMsg struct{}
var refused sync.Map // "sender-seq" of the sends a bounded mailbox refused (current case)

type script struct {
	Bounded bool
	ID      int
	Actions []action
	PID     gen.PID
	Name    gen.Atom
	Alias   gen.Alias
	Done    chan struct{}
}

type handledItem struct{ Sender, Kind, Seq int }

// recvCore: what every kind of receiver shares (the log of handled items, the parking gates)
type recvCore struct {
	mu       sync.Mutex
	log      []handledItem
	parked   chan struct{}
	release  chan struct{}
	alias    gen.Alias
	victims  []gen.PID
	ready    chan struct{}
	setupErr error

	inlog       chan struct{} // closed when the first HandleLog is entered
	release2    chan struct{}
	parkLog     bool
	loggedFirst bool
}

type receiver struct {
	act.Actor
	*recvCore
}

func (r *receiver) HandleLog(message gen.MessageLog) error {
	var s, q int
	if n, _ := fmt.Sscanf(fmt.Sprintf(message.Format, message.Args...), "vlog-%d-%d", &s, &q); n != 2 {
		return nil
	}
	r.mu.Lock()
	r.log = append(r.log, handledItem{s, 5, q})
	first := !r.loggedFirst
	r.loggedFirst = true
	r.mu.Unlock()
	if first && r.parkLog {
		close(r.inlog)
		<-r.release2
	}
	return nil
}

type setupMsg struct{}

func (r *receiver) Init(args ...any) error {
	r.SetTrapExit(true)
	return nil
}

func (r *receiver) HandleMessage(from gen.PID, message any) error {
	r.handle(r, message)
	return nil
}

// handle: the body of HandleMessage of every receiver kind (p = the receiving process)
func (r *recvCore) handle(p gen.Process, message any) {
	switch m := message.(type) {
	case setupMsg:
		a, err := p.CreateAlias()
		if err != nil {
			r.setupErr = err
		}
		r.alias = a
		for _, v := range r.victims {
			if err := p.MonitorPID(v); err != nil {
				r.setupErr = err
			}
		}
		close(r.ready)
	case parkMsg:
		close(r.parked)
		<-r.release
	case itemMsg:
		r.mu.Lock()
		r.log = append(r.log, handledItem{m.Sender, m.Kind, m.Seq})
		r.mu.Unlock()
	case gen.MessageExitPID:
		var s, q int
		fmt.Sscanf(m.Reason.Error(), "x-%d-%d", &s, &q)
		r.mu.Lock()
		r.log = append(r.log, handledItem{s, 3, q})
		r.mu.Unlock()
	case gen.MessageDownPID:
		r.mu.Lock()
		r.log = append(r.log, handledItem{1000 + int(m.PID.ID%1000), 4, 0})
		r.mu.Unlock()
	}
}

// the same receiver on the dequeue loop of act.Supervisor (one idle child, state normal)
type supReceiver struct {
	act.Supervisor
	*recvCore
	child gen.Atom
}

func (r *supReceiver) Init(args ...any) (act.SupervisorSpec, error) {
	spec := act.SupervisorSpec{Type: act.SupervisorTypeOneForOne}
	spec.Restart.Strategy = act.SupervisorStrategyTemporary
	spec.Children = []act.SupervisorChildSpec{{Name: r.child, Factory: func() gen.ProcessBehavior { return &victim{} }}}
	return spec, nil
}

func (r *supReceiver) HandleMessage(from gen.PID, message any) error {
	r.handle(r, message)
	return nil
}

// ... and on the loop of act.Pool: High / Max messages and down notifications are handled by the pool
// process itself, Normal ones are forwarded (in dequeue order) to its single worker, which logs them
type poolReceiver struct {
	act.Pool
	*recvCore
}

func (r *poolReceiver) Init(args ...any) (act.PoolOptions, error) {
	return act.PoolOptions{PoolSize: 1, WorkerFactory: func() gen.ProcessBehavior { return &poolRecvWorker{} }, WorkerArgs: []any{r.recvCore}}, nil
}

func (r *poolReceiver) HandleMessage(from gen.PID, message any) error {
	r.handle(r, message)
	return nil
}

type poolRecvWorker struct {
	act.Actor
	core *recvCore
}

func (w *poolRecvWorker) Init(args ...any) error {
	w.core = args[0].(*recvCore)
	return nil
}

func (w *poolRecvWorker) HandleMessage(from gen.PID, message any) error {
	if m, ok := message.(itemMsg); ok {
		w.core.mu.Lock()
		w.core.log = append(w.core.log, handledItem{m.Sender, m.Kind, m.Seq})
		w.core.mu.Unlock()
	}
	return nil
}

type senderActor struct{ act.Actor }

func (s *senderActor) HandleMessage(from gen.PID, message any) error {
	sc, ok := message.(script)
	if !ok {
		return nil
	}
	for _, a := range sc.Actions {
		var err error
		if a.Kind == 9 {
			// a failing priority send must leave the sender's own priority as it was: the plain Sends that
			// follow are Normal again
			prio := gen.MessagePriorityHigh
			if a.Seq%2 == 0 {
				prio = gen.MessagePriorityMax
			}
			nobody := gen.PID{Node: sc.PID.Node, ID: sc.PID.ID + 1000000, Creation: sc.PID.Creation}
			if s.SendWithPriority(nobody, itemMsg{sc.ID, 9, a.Seq}, prio) == nil {
				fmt.Fprintln(os.Stderr, "send to a non-existent process succeeded")
			}
			continue
		}
		if a.Kind == 3 {
			err = s.SendExit(sc.PID, fmt.Errorf("x-%d-%d", sc.ID, a.Seq))
		} else {
			prio := gen.MessagePriorityNormal
			switch a.Kind {
			case 1:
				prio = gen.MessagePriorityHigh
			case 2:
				prio = gen.MessagePriorityMax
			}
			var to any = sc.PID
			switch a.Addr {
			case "name":
				to = sc.Name
			case "alias":
				to = sc.Alias
			}
			if a.Kind == 0 {
				err = s.Send(to, itemMsg{sc.ID, a.Kind, a.Seq}) // the sender's own (default: Normal) priority
			} else {
				err = s.SendWithPriority(to, itemMsg{sc.ID, a.Kind, a.Seq}, prio)
			}
		}
		if err != nil {
			if sc.Bounded {
				refused.Store(fmt.Sprintf("%d-%d", sc.ID, a.Seq), true) // a full queue of a bounded mailbox: not an item
			} else {
				fmt.Fprintln(os.Stderr, "send failed:", err)
			}
		}
	}
	close(sc.Done)
	return nil
}

type victim struct{ act.Actor }

func genPCase(r *rand.Rand) pCase {
	c := pCase{}
	ns := []int{1, 1, 2, 3}[r.Intn(4)]
	for s := 0; s < ns; s++ {
		var acts []action
		n := 2 + r.Intn(12)
		for i := 0; i < n; i++ {
			a := action{Kind: []int{0, 0, 0, 1, 1, 2, 2, 3, 0, 9}[r.Intn(10)], Addr: []string{"pid", "name", "alias"}[r.Intn(3)], Seq: i}
			acts = append(acts, a)
		}
		c.Senders = append(c.Senders, acts)
	}
	c.Downs = []int{0, 0, 1, 2}[r.Intn(4)]
	c.Recv = []string{"actor", "actor", "sup", "pool"}[r.Intn(4)]
	bounded := r.Intn(5) == 0
	if c.Recv != "actor" {
		// an exit signal ends a supervisor / pool, and neither can be a logger: Max priority instead
		for _, acts := range c.Senders {
			for i := range acts {
				if acts[i].Kind == 3 {
					acts[i].Kind = 2
				}
			}
		}
		return c
	}
	if bounded {
		// a bounded mailbox (each queue holds Size messages): the sends a full queue refuses are not items; whatever is
		// accepted is handled by class and per-sender order as ever. No victims / log messages (their pushes have no sender
		// that could be told)
		c.Size = 1 + r.Intn(3)
		c.Downs = 0
		return c
	}
	if r.Intn(2) == 0 {
		// the receiver is also a logger: log messages (lowest class), and a second phase in which
		// higher-class traffic arrives while the first log message is being handled
		c.Logs = 1 + r.Intn(4)
		for s := 0; s < 1+r.Intn(2); s++ {
			var acts []action
			for i := 0; i < 1+r.Intn(4); i++ {
				acts = append(acts, action{Kind: []int{0, 0, 1, 2}[r.Intn(4)], Addr: []string{"pid", "name", "alias"}[r.Intn(3)], Seq: i})
			}
			c.Phase2 = append(c.Phase2, acts)
		}
	}
	return c
}

var pseq int

// unregDone: pids whose unregisterProcess has returned (hook "unreg.done", build tag verif)
type unregSet struct {
	mu   sync.Mutex
	done map[gen.PID]bool
}

var unregDone = &unregSet{done: map[gen.PID]bool{}}

func (u *unregSet) hook(label string, obj any) {
	if label != "unreg.done" {
		return
	}
	if p, ok := obj.(*gen.PID); ok {
		u.mu.Lock()
		u.done[*p] = true
		u.mu.Unlock()
	}
}

func (u *unregSet) wait(pid gen.PID, d time.Duration) bool {
	deadline := time.Now().Add(d)
	for time.Now().Before(deadline) {
		u.mu.Lock()
		ok := u.done[pid]
		if ok {
			delete(u.done, pid)
		}
		u.mu.Unlock()
		if ok {
			return true
		}
		time.Sleep(100 * time.Microsecond)
	}
	return false
}

func nItems(acts []action) int {
	n := 0
	for _, a := range acts {
		if a.Kind != 9 {
			n++
		}
	}
	return n
}

func runPCase(node gen.Node, c pCase) (string, error) {
	refused.Range(func(k, _ any) bool { refused.Delete(k); return true })
	pseq++
	name := gen.Atom(fmt.Sprintf("recv%d", pseq))
	var victims []gen.PID
	for i := 0; i < c.Downs; i++ {
		v, err := node.Spawn(func() gen.ProcessBehavior { return &victim{} }, gen.ProcessOptions{})
		if err != nil {
			return "", err
		}
		victims = append(victims, v)
	}
	rc := &recvCore{parked: make(chan struct{}), release: make(chan struct{}), ready: make(chan struct{}), victims: victims,
		inlog: make(chan struct{}), release2: make(chan struct{}), parkLog: c.Logs > 0 && len(c.Phase2) > 0}
	factory := func() gen.ProcessBehavior { return &receiver{recvCore: rc} }
	switch c.Recv {
	case "sup":
		factory = func() gen.ProcessBehavior {
			return &supReceiver{recvCore: rc, child: gen.Atom(fmt.Sprintf("recvchild%d", pseq))}
		}
	case "pool":
		factory = func() gen.ProcessBehavior { return &poolReceiver{recvCore: rc} }
	}
	rpid, err := node.SpawnRegister(name, factory, gen.ProcessOptions{MailboxSize: int64(c.Size)})
	if err != nil {
		return "", err
	}
	lname := fmt.Sprintf("vlogger%d", pseq)
	if c.Logs > 0 {
		if err := node.LoggerAddPID(rpid, lname, gen.LogLevelInfo); err != nil {
			return "", err
		}
		defer node.LoggerDeletePID(rpid)
	}
	// High priority: a pool forwards Normal messages to its worker instead of handling them
	node.SendWithPriority(rpid, setupMsg{}, gen.MessagePriorityHigh)
	select {
	case <-rc.ready:
	case <-time.After(5 * time.Second):
		return "", fmt.Errorf("receiver setup timed out")
	}
	if rc.setupErr != nil {
		return "", rc.setupErr
	}
	if err := node.SendWithPriority(rpid, parkMsg{}, gen.MessagePriorityHigh); err != nil {
		return "", err
	}
	select {
	case <-rc.parked:
	case <-time.After(5 * time.Second):
		return "", fmt.Errorf("receiver did not park")
	}
	expected := 0
	var dones []chan struct{}
	var spids []gen.PID
	for i, acts := range c.Senders {
		sp, err := node.Spawn(func() gen.ProcessBehavior { return &senderActor{} }, gen.ProcessOptions{})
		if err != nil {
			return "", err
		}
		spids = append(spids, sp)
		d := make(chan struct{})
		dones = append(dones, d)
		node.Send(sp, script{Bounded: c.Size > 0, ID: i + 1, Actions: acts, PID: rpid, Name: name, Alias: rc.alias, Done: d})
		expected += nItems(acts)
	}
	for _, v := range victims {
		node.Kill(v)
		expected++
	}
	// A queue's length counter goes up BEFORE the pushed item is linked (lib/mpsc.go), so "the mailbox holds n
	// messages" does not mean the receiver can pop them all yet. Senders are done when their script returns; the
	// down notifications are pushed inside the victim's unregisterProcess: wait until that has returned.
	for _, v := range victims {
		if !unregDone.wait(v, 10*time.Second) {
			return "", fmt.Errorf("victim %s was not unregistered", v)
		}
	}
	for i := 0; i < c.Logs; i++ {
		node.Log().Info("vlog-%d-%d", 900, i)
		expected++
	}
	for _, d := range dones {
		select {
		case <-d:
		case <-time.After(5 * time.Second):
			return "", fmt.Errorf("sender did not finish")
		}
	}
	// what a bounded mailbox refused (the send returned an error) is not an item
	refused.Range(func(_, _ any) bool { expected--; return true })
	// every push has returned (sender scripts done, victims unregistered): the mailbox must now hold everything
	deadline := time.Now().Add(10 * time.Second)
	for {
		info, err := node.ProcessInfo(rpid)
		if err != nil {
			return "", err
		}
		q := info.MailboxQueues
		if int(q.Main+q.System+q.Urgent+q.Log) >= expected {
			break
		}
		if time.Now().After(deadline) {
			return "", fmt.Errorf("mailbox has %d of %d expected messages", q.Main+q.System+q.Urgent+q.Log, expected)
		}
		time.Sleep(time.Millisecond)
	}
	close(rc.release)
	if rc.parkLog {
		// second phase: wait until the receiver sits inside the first HandleLog, enqueue, release
		select {
		case <-rc.inlog:
		case <-time.After(5 * time.Second):
			return "", fmt.Errorf("receiver did not reach its first HandleLog")
		}
		exp2 := 0
		var dones2 []chan struct{}
		for i, acts := range c.Phase2 {
			sp, err := node.Spawn(func() gen.ProcessBehavior { return &senderActor{} }, gen.ProcessOptions{})
			if err != nil {
				return "", err
			}
			spids = append(spids, sp)
			d := make(chan struct{})
			dones2 = append(dones2, d)
			node.Send(sp, script{ID: 100 + i + 1, Actions: acts, PID: rpid, Name: name, Alias: rc.alias, Done: d})
			exp2 += nItems(acts)
		}
		for _, d := range dones2 {
			select {
			case <-d:
			case <-time.After(5 * time.Second):
				return "", fmt.Errorf("phase-2 sender did not finish")
			}
		}
		expected += exp2
		close(rc.release2)
	}
	deadline = time.Now().Add(10 * time.Second)
	for {
		rc.mu.Lock()
		n := len(rc.log)
		rc.mu.Unlock()
		if n >= expected {
			break
		}
		if time.Now().After(deadline) {
			break
		}
		time.Sleep(time.Millisecond)
	}
	time.Sleep(2 * time.Millisecond)
	rc.mu.Lock()
	log := append([]handledItem{}, rc.log...)
	rc.mu.Unlock()
	node.Kill(rpid)
	for _, sp := range spids {
		node.Kill(sp)
	}
	// Coq term
	var sent []string
	for i, acts := range c.Senders {
		var l []string
		for _, a := range acts {
			if a.Kind == 9 {
				continue
			}
			if _, no := refused.Load(fmt.Sprintf("%d-%d", i+1, a.Seq)); no {
				continue
			}
			l = append(l, fmt.Sprintf("mk_item %d %d %d", i+1, a.Kind, a.Seq))
		}
		sent = append(sent, "["+strings.Join(l, "; ")+"]")
	}
	for _, v := range victims {
		sent = append(sent, fmt.Sprintf("[mk_item %d 4 0]", 1000+int(v.ID%1000)))
	}
	if c.Logs > 0 {
		var l []string
		for i := 0; i < c.Logs; i++ {
			l = append(l, fmt.Sprintf("mk_item 900 5 %d", i))
		}
		sent = append(sent, "["+strings.Join(l, "; ")+"]")
	}
	var sent2 []string
	if rc.parkLog {
		for i, acts := range c.Phase2 {
			var l []string
			for _, a := range acts {
				if a.Kind == 9 {
					continue
				}
				l = append(l, fmt.Sprintf("mk_item %d %d %d", 100+i+1, a.Kind, a.Seq))
			}
			sent2 = append(sent2, "["+strings.Join(l, "; ")+"]")
		}
	}
	var h []string
	for _, x := range log {
		h = append(h, fmt.Sprintf("mk_item %d %d %d", x.Sender, x.Kind, x.Seq))
	}
	return fmt.Sprintf("mk_pcase [%s] [%s] [%s]", strings.Join(sent, "; "), strings.Join(sent2, "; "), strings.Join(h, "; ")), nil
}

func runParked(n int, out string, replay json.RawMessage) {
	o := util.NewOut("mbox.parked")
	opts := gen.NodeOptions{}
	opts.Network.Mode = gen.NetworkModeDisabled
	opts.Log.DefaultLogger.Disable = true
	opts.Log.Level = gen.LogLevelInfo // the receiver may be a logger; the default logger is off
	node, err := ergo.StartNode(gen.Atom(fmt.Sprintf("mbox%d@localhost", os.Getpid())), opts)
	if err != nil {
		panic(err)
	}
	hook := unregDone.hook
	lib.VerifHook.Store(&hook)
	defer lib.VerifHook.Store(nil)
	var cases []pCase
	if replay != nil {
		var c pCase
		if err := json.Unmarshal(replay, &c); err != nil {
			panic(err)
		}
		cases = append(cases, c)
		// development aid: VERIF_PARKED_REPEAT=n runs the replayed case n times and prints the distinct outcomes
		if rep := os.Getenv("VERIF_PARKED_REPEAT"); rep != "" {
			var n int
			fmt.Sscanf(rep, "%d", &n)
			dist := map[string]int{}
			for i := 0; i < n; i++ {
				term, err := runPCase(node, c)
				if err != nil {
					term = "ERR " + err.Error()
				}
				if j := strings.LastIndex(term, "] ["); j >= 0 {
					term = term[j:]
				}
				dist[term]++
			}
			for k, v := range dist {
				fmt.Println(v, k)
			}
			return
		}
	} else {
		r := util.Rng(32)
		for i := 0; i < n; i++ {
			cases = append(cases, genPCase(r))
		}
	}
	for _, c := range cases {
		term, err := runPCase(node, c)
		if err != nil {
			o.Notes = append(o.Notes, "case failed to run: "+err.Error())
			o.Stats["run-errors"]++
			continue
		}
		o.Add(term, c)
		if c.Recv == "" {
			o.Stats["receiver:actor"]++
		} else {
			o.Stats["receiver:"+c.Recv]++
		}
		o.Stats[fmt.Sprintf("senders:%d", len(c.Senders))]++
		o.Stats[fmt.Sprintf("downs:%d", c.Downs)]++
		if c.Logs > 0 {
			o.Stats["with-logs"]++
			o.Stats["logs"] += c.Logs
		}
		for _, acts := range c.Senders {
			for _, a := range acts {
				o.Stats[fmt.Sprintf("kind:%d", a.Kind)]++
				if a.Kind != 3 {
					o.Stats["addr:"+a.Addr]++
				}
			}
		}
	}
	o.Write(out)
}
