package main

import (
	"encoding/json"
	"fmt"
	"math/rand"
	"os"
	"strings"
	"sync"
	"time"

	"ergo.services/ergo"
	"ergo.services/ergo/act"
	"ergo.services/ergo/gen"
	"verifharness/util"
)

// what one sender does, in order
type action struct {
	Kind int    `json:"kind"` // 0 normal, 1 high, 2 max, 3 exit signal
	Addr string `json:"addr"` // pid, name, alias (kinds 0..2)
	Seq  int    `json:"seq"`
}
type pCase struct {
	Senders [][]action `json:"senders"`
	Downs   int        `json:"downs"` // monitored victims killed while the receiver is parked
	Tags    []string   `json:"tags,omitempty"`
}

type itemMsg struct {
	Sender, Kind, Seq int
}
type parkMsg struct{}
type script struct {
	ID      int
	Actions []action
	PID     gen.PID
	Name    gen.Atom
	Alias   gen.Alias
	Done    chan struct{}
}

type handledItem struct{ Sender, Kind, Seq int }

type receiver struct {
	act.Actor
	mu       sync.Mutex
	log      []handledItem
	parked   chan struct{}
	release  chan struct{}
	alias    gen.Alias
	victims  []gen.PID
	ready    chan struct{}
	setupErr error
}

type setupMsg struct{}

func (r *receiver) Init(args ...any) error {
	r.SetTrapExit(true)
	return nil
}

func (r *receiver) HandleMessage(from gen.PID, message any) error {
	switch m := message.(type) {
	case setupMsg:
		a, err := r.CreateAlias()
		if err != nil {
			r.setupErr = err
		}
		r.alias = a
		for _, v := range r.victims {
			if err := r.MonitorPID(v); err != nil {
				r.setupErr = err
			}
		}
		close(r.ready)
	case parkMsg:
		close(r.parked)
		<-r.release
	case itemMsg:
		r.mu.Lock()
		r.log = append(r.log, handledItem{m.Sender, m.Kind, m.Seq})
		r.mu.Unlock()
	case gen.MessageExitPID:
		var s, q int
		fmt.Sscanf(m.Reason.Error(), "x-%d-%d", &s, &q)
		r.mu.Lock()
		r.log = append(r.log, handledItem{s, 3, q})
		r.mu.Unlock()
	case gen.MessageDownPID:
		r.mu.Lock()
		r.log = append(r.log, handledItem{1000 + int(m.PID.ID%1000), 4, 0})
		r.mu.Unlock()
	}
	return nil
}

type senderActor struct{ act.Actor }

func (s *senderActor) HandleMessage(from gen.PID, message any) error {
	sc, ok := message.(script)
	if !ok {
		return nil
	}
	for _, a := range sc.Actions {
		var err error
		if a.Kind == 3 {
			err = s.SendExit(sc.PID, fmt.Errorf("x-%d-%d", sc.ID, a.Seq))
		} else {
			prio := gen.MessagePriorityNormal
			switch a.Kind {
			case 1:
				prio = gen.MessagePriorityHigh
			case 2:
				prio = gen.MessagePriorityMax
			}
			var to any = sc.PID
			switch a.Addr {
			case "name":
				to = sc.Name
			case "alias":
				to = sc.Alias
			}
			err = s.SendWithPriority(to, itemMsg{sc.ID, a.Kind, a.Seq}, prio)
		}
		if err != nil {
			fmt.Fprintln(os.Stderr, "send failed:", err)
		}
	}
	close(sc.Done)
	return nil
}

type victim struct{ act.Actor }

func genPCase(r *rand.Rand) pCase {
	c := pCase{}
	ns := []int{1, 1, 2, 3}[r.Intn(4)]
	for s := 0; s < ns; s++ {
		var acts []action
		n := 2 + r.Intn(12)
		for i := 0; i < n; i++ {
			a := action{Kind: []int{0, 0, 0, 1, 1, 2, 2, 3}[r.Intn(8)], Addr: []string{"pid", "name", "alias"}[r.Intn(3)], Seq: i}
			acts = append(acts, a)
		}
		c.Senders = append(c.Senders, acts)
	}
	c.Downs = []int{0, 0, 1, 2}[r.Intn(4)]
	return c
}

var pseq int

func runPCase(node gen.Node, c pCase) (string, error) {
	pseq++
	name := gen.Atom(fmt.Sprintf("recv%d", pseq))
	var victims []gen.PID
	for i := 0; i < c.Downs; i++ {
		v, err := node.Spawn(func() gen.ProcessBehavior { return &victim{} }, gen.ProcessOptions{})
		if err != nil {
			return "", err
		}
		victims = append(victims, v)
	}
	rc := &receiver{parked: make(chan struct{}), release: make(chan struct{}), ready: make(chan struct{}), victims: victims}
	rpid, err := node.SpawnRegister(name, func() gen.ProcessBehavior { return rc }, gen.ProcessOptions{})
	if err != nil {
		return "", err
	}
	node.Send(rpid, setupMsg{})
	select {
	case <-rc.ready:
	case <-time.After(5 * time.Second):
		return "", fmt.Errorf("receiver setup timed out")
	}
	if rc.setupErr != nil {
		return "", rc.setupErr
	}
	if err := node.Send(rpid, parkMsg{}); err != nil {
		return "", err
	}
	select {
	case <-rc.parked:
	case <-time.After(5 * time.Second):
		return "", fmt.Errorf("receiver did not park")
	}
	expected := 0
	var dones []chan struct{}
	var spids []gen.PID
	for i, acts := range c.Senders {
		sp, err := node.Spawn(func() gen.ProcessBehavior { return &senderActor{} }, gen.ProcessOptions{})
		if err != nil {
			return "", err
		}
		spids = append(spids, sp)
		d := make(chan struct{})
		dones = append(dones, d)
		node.Send(sp, script{ID: i + 1, Actions: acts, PID: rpid, Name: name, Alias: rc.alias, Done: d})
		expected += len(acts)
	}
	for _, v := range victims {
		node.Kill(v)
		expected++
	}
	for _, d := range dones {
		select {
		case <-d:
		case <-time.After(5 * time.Second):
			return "", fmt.Errorf("sender did not finish")
		}
	}
	// wait until the down notifications are in the mailbox too
	deadline := time.Now().Add(5 * time.Second)
	for {
		info, err := node.ProcessInfo(rpid)
		if err != nil {
			return "", err
		}
		q := info.MailboxQueues
		if int(q.Main+q.System+q.Urgent) >= expected {
			break
		}
		if time.Now().After(deadline) {
			return "", fmt.Errorf("mailbox has %d of %d expected messages", q.Main+q.System+q.Urgent, expected)
		}
		time.Sleep(time.Millisecond)
	}
	close(rc.release)
	deadline = time.Now().Add(5 * time.Second)
	for {
		rc.mu.Lock()
		n := len(rc.log)
		rc.mu.Unlock()
		if n >= expected {
			break
		}
		if time.Now().After(deadline) {
			break
		}
		time.Sleep(time.Millisecond)
	}
	time.Sleep(2 * time.Millisecond)
	rc.mu.Lock()
	log := append([]handledItem{}, rc.log...)
	rc.mu.Unlock()
	node.Kill(rpid)
	for _, sp := range spids {
		node.Kill(sp)
	}
	// Coq term
	var sent []string
	for i, acts := range c.Senders {
		var l []string
		for _, a := range acts {
			l = append(l, fmt.Sprintf("mk_item %d %d %d", i+1, a.Kind, a.Seq))
		}
		sent = append(sent, "["+strings.Join(l, "; ")+"]")
	}
	for _, v := range victims {
		sent = append(sent, fmt.Sprintf("[mk_item %d 4 0]", 1000+int(v.ID%1000)))
	}
	var h []string
	for _, x := range log {
		h = append(h, fmt.Sprintf("mk_item %d %d %d", x.Sender, x.Kind, x.Seq))
	}
	return fmt.Sprintf("mk_pcase [%s] [%s]", strings.Join(sent, "; "), strings.Join(h, "; ")), nil
}

func runParked(n int, out string, replay json.RawMessage) {
	o := util.NewOut("mbox.parked")
	opts := gen.NodeOptions{}
	opts.Network.Mode = gen.NetworkModeDisabled
	opts.Log.DefaultLogger.Disable = true
	opts.Log.Level = gen.LogLevelDisabled
	node, err := ergo.StartNode(gen.Atom(fmt.Sprintf("mbox%d@localhost", os.Getpid())), opts)
	if err != nil {
		panic(err)
	}
	var cases []pCase
	if replay != nil {
		var c pCase
		if err := json.Unmarshal(replay, &c); err != nil {
			panic(err)
		}
		cases = append(cases, c)
	} else {
		r := util.Rng(32)
		for i := 0; i < n; i++ {
			cases = append(cases, genPCase(r))
		}
	}
	for _, c := range cases {
		term, err := runPCase(node, c)
		if err != nil {
			o.Notes = append(o.Notes, "case failed to run: "+err.Error())
			o.Stats["run-errors"]++
			continue
		}
		o.Add(term, c)
		o.Stats[fmt.Sprintf("senders:%d", len(c.Senders))]++
		o.Stats[fmt.Sprintf("downs:%d", c.Downs)]++
		for _, acts := range c.Senders {
			for _, a := range acts {
				o.Stats[fmt.Sprintf("kind:%d", a.Kind)]++
				if a.Kind != 3 {
					o.Stats["addr:"+a.Addr]++
				}
			}
		}
	}
	o.Write(out)
}
