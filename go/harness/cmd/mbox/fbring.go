package main

// Sub-command "fbring" (C02): fallback routing over chains and rings. Up to four registered processes
// with bounded mailboxes, each with a fallback NAME (another process, itself, a name nobody holds, or
// none); some of them are blocked inside a callback with their mailbox full. ONE message is sent to one
// of them (or to a name nobody holds). The model (Mbox/Fallback.v) says where the message ends: in the
// mailbox of the first process on the fallback path whose mailbox takes it, wrapped once per process
// that refused it, or the sender gets "mailbox full" / "unknown" and nothing is queued anywhere.
// Before the fix a ring of full mailboxes recursed without end and the NODE died (fatal stack overflow,
// not recoverable): every case therefore runs in a child process.

import (
	"encoding/json"
	"errors"
	"fmt"
	"math/rand"
	"os"
	"os/exec"
	"sync"
	"time"

	"ergo.services/ergo"
	"ergo.services/ergo/act"
	"ergo.services/ergo/gen"
	"verifharness/util"
)

type frProc struct {
	Exists bool `json:"exists"`
	Full   bool `json:"full"`
	Fb     int  `json:"fb"` // index of the fallback name, -1 none
}

type frCase struct {
	Procs []frProc `json:"procs"`
	To    int      `json:"to"`
	Addr  string   `json:"addr"` // pid | name
	Tags  []string `json:"tags"`
}

type frObs struct {
	Res int    `json:"res"` // 0 delivered 1 mailbox full 2 unknown 3 the node died 4 something else
	Dst int    `json:"dst"` // who has the message (-1 nobody, -2 more than one)
	Wr  []int  `json:"wr"`  // pids of the MessageFallback wrappers, outermost first, as process indices
	Err string `json:"err,omitempty"`
}

type frActor struct {
	act.Actor
	idx  int
	gate chan struct{}
	busy chan struct{}
	mu   *sync.Mutex
	got  *[]frGot
}

type frGot struct {
	idx int
	msg any
}
type frBlock struct{}
type frFill struct{}
type frPayload struct{ N int }

func (a *frActor) HandleMessage(from gen.PID, message any) error {
	switch message.(type) {
	case frBlock:
		close(a.busy)
		<-a.gate
		return nil
	case frFill:
		return nil
	}
	a.mu.Lock()
	*a.got = append(*a.got, frGot{a.idx, message})
	a.mu.Unlock()
	return nil
}

func frName(i int) gen.Atom { return gen.Atom(fmt.Sprintf("fbring%d", i)) }

func frChild(c frCase) frObs {
	opts := gen.NodeOptions{}
	opts.Network.Mode = gen.NetworkModeDisabled
	opts.Log.Level = gen.LogLevelDisabled
	node, err := ergo.StartNode(gen.Atom(fmt.Sprintf("fbring%d@localhost", os.Getpid())), opts)
	if err != nil {
		return frObs{Res: 4, Dst: -1, Err: err.Error()}
	}
	defer node.StopForce()
	var mu sync.Mutex
	var got []frGot
	gate := make(chan struct{})
	pids := make([]gen.PID, len(c.Procs))
	index := map[gen.PID]int{}
	for i, p := range c.Procs {
		if !p.Exists {
			continue
		}
		po := gen.ProcessOptions{MailboxSize: 1}
		if p.Fb >= 0 {
			po.Fallback.Enable = true
			po.Fallback.Name = frName(p.Fb)
			po.Fallback.Tag = fmt.Sprintf("tag%d", i)
		}
		a := &frActor{idx: i, gate: gate, busy: make(chan struct{}), mu: &mu, got: &got}
		pid, err := node.SpawnRegister(frName(i), func() gen.ProcessBehavior { return a }, po)
		if err != nil {
			return frObs{Res: 4, Dst: -1, Err: err.Error()}
		}
		pids[i] = pid
		index[pid] = i
		if p.Full {
			node.Send(pid, frBlock{})
			select {
			case <-a.busy:
			case <-time.After(2 * time.Second):
				return frObs{Res: 4, Dst: -1, Err: "receiver did not enter its callback"}
			}
			if err := node.Send(pid, frFill{}); err != nil {
				return frObs{Res: 4, Dst: -1, Err: "cannot fill the mailbox: " + err.Error()}
			}
		}
	}
	var serr error
	if c.Addr == "name" || !c.Procs[c.To].Exists {
		serr = node.Send(gen.ProcessID{Name: frName(c.To), Node: node.Name()}, frPayload{7})
	} else {
		serr = node.Send(pids[c.To], frPayload{7})
	}
	time.Sleep(15 * time.Millisecond)
	o := frObs{Dst: -1}
	switch {
	case serr == nil:
		o.Res = 0
	case errors.Is(serr, gen.ErrProcessMailboxFull):
		o.Res = 1
	case errors.Is(serr, gen.ErrProcessUnknown) || errors.Is(serr, gen.ErrNameUnknown):
		o.Res = 2
	default:
		o.Res, o.Err = 4, serr.Error()
	}
	close(gate)
	time.Sleep(15 * time.Millisecond)
	mu.Lock()
	defer mu.Unlock()
	for _, g := range got {
		m := g.msg
		var wr []int
		for {
			fb, ok := m.(gen.MessageFallback)
			if !ok {
				break
			}
			k, known := index[fb.PID]
			if !known {
				k = -1
			}
			if fb.Tag != fmt.Sprintf("tag%d", k) {
				k = -9 // wrong tag
			}
			wr = append(wr, k)
			m = fb.Message
		}
		if _, ok := m.(frPayload); !ok {
			continue
		}
		if o.Dst != -1 {
			o.Dst = -2
			continue
		}
		o.Dst, o.Wr = g.idx, wr
	}
	return o
}

func genFrCase(r *rand.Rand, i int) frCase {
	n := 2 + r.Intn(3)
	c := frCase{Addr: []string{"pid", "name"}[r.Intn(2)], Tags: []string{"fbring"}}
	shape := i % 5
	for k := 0; k < n; k++ {
		p := frProc{Exists: r.Intn(8) != 0, Full: r.Intn(4) != 0, Fb: -1}
		switch shape {
		case 0: // ring
			p.Fb = (k + 1) % n
		case 1: // chain
			if k+1 < n {
				p.Fb = k + 1
			}
		default:
			switch r.Intn(5) {
			case 0:
			case 1:
				p.Fb = k
			default:
				p.Fb = r.Intn(n + 1) // n = a name nobody holds
			}
		}
		c.Procs = append(c.Procs, p)
	}
	if shape == 0 && r.Intn(2) == 0 {
		for k := range c.Procs {
			c.Procs[k].Exists, c.Procs[k].Full = true, true
		}
		c.Tags = append(c.Tags, "full-ring")
	}
	c.To = r.Intn(n)
	return c
}

func coqFrCase(c frCase, o frObs) string {
	var ps []string
	for _, p := range c.Procs {
		ps = append(ps, fmt.Sprintf("(%s, %s, %s)", util.B(p.Exists), util.B(p.Full), util.Z(int64(p.Fb))))
	}
	var wr []int64
	for _, w := range o.Wr {
		wr = append(wr, int64(w))
	}
	return fmt.Sprintf("mk_frcase %s %d %d %s %s", util.List(ps), c.To, o.Res, util.Z(int64(o.Dst)), util.ZList(wr))
}

func runFbRing(n int, out string, replay json.RawMessage) {
	// child mode: one case on stdin-less argv, the observation as one JSON line
	if s := os.Getenv("VERIF_FBRING_CASE"); s != "" {
		var c frCase
		if err := json.Unmarshal([]byte(s), &c); err != nil {
			panic(err)
		}
		b, _ := json.Marshal(frChild(c))
		fmt.Println("FBRING-OBS " + string(b))
		return
	}
	o := util.NewOut("mbox.fbring")
	var cases []frCase
	if replay != nil {
		var c frCase
		if err := json.Unmarshal(replay, &c); err != nil {
			panic(err)
		}
		cases = append(cases, c)
	} else {
		// corpus: the ring of two full mailboxes that killed the node before the fix, and a chain of three
		cases = append(cases,
			frCase{Procs: []frProc{{true, true, 1}, {true, true, 0}}, To: 0, Addr: "pid", Tags: []string{"corpus", "full-ring"}},
			frCase{Procs: []frProc{{true, true, 1}, {true, true, 2}, {true, false, 0}}, To: 0, Addr: "name", Tags: []string{"corpus"}},
			frCase{Procs: []frProc{{true, true, 1}, {true, true, 2}, {true, true, 0}}, To: 1, Addr: "pid", Tags: []string{"corpus", "full-ring"}})
		r := util.Rng(67)
		for i := 0; len(cases) < n; i++ {
			cases = append(cases, genFrCase(r, i))
		}
	}
	for _, c := range cases {
		js, _ := json.Marshal(c)
		cmd := exec.Command(os.Args[0], "fbring")
		cmd.Env = append(os.Environ(), "VERIF_FBRING_CASE="+string(js))
		done := make(chan struct{})
		var outb []byte
		go func() { outb, _ = cmd.CombinedOutput(); close(done) }()
		obs := frObs{Res: 3, Dst: -1}
		select {
		case <-done:
			found := false
			for _, line := range splitLines(string(outb)) {
				if len(line) > 11 && line[:11] == "FBRING-OBS " {
					if json.Unmarshal([]byte(line[11:]), &obs) == nil {
						found = true
					}
				}
			}
			if !found {
				obs = frObs{Res: 3, Dst: -1, Err: firstLines(string(outb), 3)}
			}
		case <-time.After(20 * time.Second):
			cmd.Process.Kill()
			obs.Err = "no answer within 20 s"
		}
		idx := o.Add(coqFrCase(c, obs), c)
		if obs.Res == 3 {
			o.Monitor = append(o.Monitor, util.MonitorFail{Case: idx, Tags: c.Tags,
				What: "one Send to a process whose fallback path is a ring of full mailboxes did not return: the node died / hung (" + obs.Err + ")"})
		}
		if obs.Res == 4 {
			o.Notes = append(o.Notes, fmt.Sprintf("case %d: %s", idx, obs.Err))
		}
		o.Stats[fmt.Sprintf("result/%d", obs.Res)]++
		o.Stats[fmt.Sprintf("wrappers/%d", len(obs.Wr))]++
		for _, t := range c.Tags {
			o.Stats["tag/"+t]++
		}
	}
	o.Stats["runs"] = len(cases)
	o.Write(out)
}

func splitLines(s string) []string {
	var out []string
	cur := ""
	for _, r := range s {
		if r == '\n' {
			out = append(out, cur)
			cur = ""
		} else {
			cur += string(r)
		}
	}
	return append(out, cur)
}

func firstLines(s string, n int) string {
	ls := splitLines(s)
	if len(ls) > n {
		ls = ls[:n]
	}
	r := ""
	for _, l := range ls {
		r += l + " | "
	}
	return r
}
