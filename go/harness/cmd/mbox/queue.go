package main

import (
	"encoding/json"
	"fmt"
	"math/rand"
	"strings"

	"ergo.services/ergo/lib"
	"verifharness/util"
)

type qOp struct {
	Op string `json:"op"` // push, pop, len, item
	V  int64  `json:"v"`
}
type qCase struct {
	Limit int64 `json:"limit"`
	Ops   []qOp `json:"ops"`
}

func genQCase(r *rand.Rand) qCase {
	c := qCase{Limit: []int64{0, 0, 1, 2, 3, 5}[r.Intn(6)]}
	n := 1 + r.Intn(40)
	v := int64(1)
	pushBias := 3 + r.Intn(5)
	for i := 0; i < n; i++ {
		switch x := r.Intn(10); {
		case x < pushBias:
			c.Ops = append(c.Ops, qOp{"push", v})
			v++
		case x < 8:
			c.Ops = append(c.Ops, qOp{Op: "pop"})
		case x < 9:
			c.Ops = append(c.Ops, qOp{Op: "len"})
		default:
			c.Ops = append(c.Ops, qOp{Op: "item"})
		}
	}
	return c
}

func runQCase(c qCase) (string, map[string]int) {
	st := map[string]int{}
	var q lib.QueueMPSC
	if c.Limit > 0 {
		q = lib.NewQueueLimitMPSC(c.Limit, false)
	} else {
		q = lib.NewQueueMPSC()
	}
	var ops, res []string
	for _, o := range c.Ops {
		switch o.Op {
		case "push":
			ok := q.Push(o.V)
			ops = append(ops, "QPush "+util.Z(o.V))
			res = append(res, "RBool "+util.B(ok))
			if !ok {
				st["push-refused"]++
			}
		case "pop":
			v, ok := q.Pop()
			ops = append(ops, "QPop")
			if ok {
				res = append(res, fmt.Sprintf("RVal (Some %s)", util.Z(v.(int64))))
				st["pop-hit"]++
			} else {
				res = append(res, "RVal None")
				st["pop-empty"]++
			}
		case "len":
			ops = append(ops, "QLen")
			res = append(res, "RLen "+util.Z(q.Len()))
		case "item":
			ops = append(ops, "QItem")
			it := q.Item()
			if it == nil {
				res = append(res, "RVal None")
			} else {
				res = append(res, fmt.Sprintf("RVal (Some %s)", util.Z(it.Value().(int64))))
			}
		}
	}
	return fmt.Sprintf("mk_qcase %s [%s] [%s]", util.Z(c.Limit), strings.Join(ops, "; "), strings.Join(res, "; ")), st
}

func runQueue(n int, out string, replay json.RawMessage) {
	o := util.NewOut("mbox.queue")
	var cases []qCase
	if replay != nil {
		var c qCase
		if err := json.Unmarshal(replay, &c); err != nil {
			panic(err)
		}
		cases = append(cases, c)
	} else {
		r := util.Rng(31)
		for i := 0; i < n; i++ {
			cases = append(cases, genQCase(r))
		}
	}
	for _, c := range cases {
		term, st := runQCase(c)
		o.Add(term, c)
		o.Stats[fmt.Sprintf("limit:%d", c.Limit)]++
		o.Stats["ops"] += len(c.Ops)
		for k, v := range st {
			o.Stats[k] += v
		}
	}
	o.Write(out)
}
