package main

import (
	"fmt"
	"math/rand"
	"net"
	"strings"
	"time"

	"ergo.services/ergo/gen"
	"ergo.services/ergo/net/handshake"
	"verifharness/util"
)

type pairCase struct {
	A    partyJ   `json:"a"`
	B    partyJ   `json:"b"`
	Pool int      `json:"pool"`
	HF   flagsJ   `json:"hf"` // handshake.Options.NetworkFlags both handshakes are created with: must not leak into what a party enforces
	Tags []string `json:"tags,omitempty"`
}

func genFlags(r *rand.Rand) flagsJ {
	switch r.Intn(5) {
	case 0:
		return flagsOf(gen.DefaultNetworkFlags)
	case 1:
		return flagsJ{} // Enable=false: "not customised"
	default:
		return flagsJ{r.Intn(4) > 0, r.Intn(2) == 0, r.Intn(2) == 0, r.Intn(2) == 0, r.Intn(2) == 0, r.Intn(2) == 0, r.Intn(2) == 0}
	}
}

func genParty(r *rand.Rand, name int) partyJ {
	return partyJ{Cookie: r.Intn(len(cookieStrings)), Name: name, Creation: []int64{1, 1700000000, 1700000001, 0, -5}[r.Intn(5)],
		Flags: genFlags(r), MMS: []int{0, 0, 1024, 65536, 1 << 30}[r.Intn(5)]}
}

func genPairCase(r *rand.Rand) pairCase {
	c := pairCase{A: genParty(r, 1+r.Intn(3)), B: genParty(r, 1+r.Intn(3)), Pool: []int{1, 3, 3, 7}[r.Intn(4)]}
	if r.Intn(10) < 8 {
		for c.B.Name == c.A.Name {
			c.B.Name = 1 + r.Intn(3)
		}
	}
	if r.Intn(2) == 0 {
		c.B.Cookie = c.A.Cookie
	}
	c.HF = genFlags(r)
	return c
}

type hsOutcome struct {
	res gen.HandshakeResult
	err error
}

// execPair runs the real Start against the real Accept over a pipe; both ends are tapped.
func execPair(c pairCase) (frames []frame, ra, rb hsOutcome) {
	ca, cb := net.Pipe()
	log := &wireLog{}
	ta := &tapConn{ca, true, log}
	tb := &tapConn{cb, false, log}
	ha := handshake.Create(handshake.Options{PoolSize: c.Pool, NetworkFlags: c.HF.gen()})
	hb := handshake.Create(handshake.Options{PoolSize: c.Pool, NetworkFlags: c.HF.gen()})
	cha := make(chan hsOutcome, 1)
	chb := make(chan hsOutcome, 1)
	go func() {
		r, err := ha.Start(c.A.node(), ta, c.A.hopts())
		if err != nil {
			ta.Close() // network.connect closes the socket on error
		}
		cha <- hsOutcome{r, err}
	}()
	go func() {
		r, err := hb.Accept(c.B.node(), tb, c.B.hopts())
		if err != nil {
			tb.Close() // network.accept closes the socket on error
		}
		chb <- hsOutcome{r, err}
	}()
	tm := time.After(10 * time.Second)
	for i := 0; i < 2; i++ {
		select {
		case ra = <-cha:
			cha = nil
		case rb = <-chb:
			chb = nil
		case <-tm:
			panic("handshake pair hangs")
		}
	}
	ca.Close()
	cb.Close()
	return log.frames, ra, rb
}

func coqPair(c pairCase, frames []frame, ra, rb hsOutcome) (string, *abstractor) {
	a := newAbstractor()
	a.bindParties(c.A, c.B)
	var w []string
	for _, f := range frames {
		side := 2
		if f.FromInit {
			side = 1
		}
		mkSalt := func() *term { return &term{K: "salt", N: side} }
		mkID := func() *term { return &term{K: "salt", N: 3} }
		m := a.absBytes(f.B, mkSalt, mkID)
		w = append(w, fmt.Sprintf("(%s, %s)", util.B(f.FromInit), m.coq))
	}
	return fmt.Sprintf("mk_pcase %s %s (%d)%%Z [%s] (%s) (%s)", c.A.coq(), c.B.coq(), c.Pool, strings.Join(w, "; "),
		a.absResult(ra.res, ra.err, false), a.absResult(rb.res, rb.err, false)), a
}

func runPair(n int, out, replay string) {
	o := util.NewOut("hs.pair")
	var cases []pairCase
	if replay != "" {
		var c pairCase
		loadReplay(replay, &c)
		cases = append(cases, c)
	} else {
		r := util.Rng(15)
		// every cookie pair once with default parties, then random configurations
		for i := range cookieStrings {
			for j := range cookieStrings {
				c := pairCase{A: partyJ{Cookie: i, Name: 1, Creation: 11, Flags: flagsOf(gen.DefaultNetworkFlags)},
					B: partyJ{Cookie: j, Name: 2, Creation: 22, Flags: flagsOf(gen.DefaultNetworkFlags), MMS: 4096}, Pool: 3}
				cases = append(cases, c)
			}
		}
		for len(cases) < n {
			cases = append(cases, genPairCase(r))
		}
	}
	for _, c := range cases {
		frames, ra, rb := execPair(c)
		s, a := coqPair(c, frames, ra, rb)
		o.Add(s, c)
		o.Stats["frames"] += len(frames)
		o.Stats["sha256-evaluations"] += a.hashes
		if c.A.Cookie == c.B.Cookie {
			o.Stats["same-cookie"]++
		} else {
			o.Stats["different-cookie"]++
		}
		if c.A.Name == c.B.Name {
			o.Stats["same-name"]++
		}
		if ra.err == nil && rb.err == nil {
			o.Stats["connected"]++
		} else {
			o.Stats["err-a:"+errClass(ra.err)]++
			o.Stats["err-b:"+errClass(rb.err)]++
		}
	}
	o.Write(out)
}
