package main

func runTab(n int, out, replay string)  {}
func runConn(n int, out, replay string) {}
func runReq(n int, out, replay string)  {}
