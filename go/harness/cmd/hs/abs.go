package main

import (
	"crypto/sha256"
	"encoding/binary"
	"encoding/json"
	"errors"
	"fmt"
	"io"
	"net"
	"os"
	"strings"
	"sync"
	"time"

	"ergo.services/ergo/gen"
	"ergo.services/ergo/net/edf"
	"ergo.services/ergo/net/handshake"
	"verifharness/util"
)

// ---- symbolic terms (mirror of Hs/Model.v term) ---------------------------------------------------

type term struct {
	K string // "salt" "cookie" "str" "h"
	N int
	L []*term
}

func (t *term) coq() string {
	switch t.K {
	case "salt":
		return fmt.Sprintf("Salt %d", t.N)
	case "cookie":
		return fmt.Sprintf("Cookie %d", t.N)
	case "str":
		return fmt.Sprintf("Str %d", t.N)
	case "h":
		p := make([]string, len(t.L))
		for i, x := range t.L {
			p[i] = x.coq()
		}
		return "H [" + strings.Join(p, "; ") + "]"
	}
	panic("term kind")
}

// abstractor maps the strings met on the wire back to terms.  Every H term it returns has been
// justified with the real SHA-256: hex(sha256(join(":", interp(args)))) equals the observed string.
type abstractor struct {
	atoms       map[string]*term // string -> term (cookies, salts, ids, names, digests already explained)
	order       []string         // insertion order (deterministic search)
	opaque      int
	emptyCookie bool // some party uses the empty cookie: "" may be a hash input
	hashes      int  // number of sha256 evaluations spent explaining digests
}

func newAbstractor() *abstractor {
	a := &abstractor{atoms: map[string]*term{}, opaque: 1000}
	a.atoms[""] = &term{K: "str", N: 0}
	return a
}

func (a *abstractor) bind(s string, t *term) {
	if s == "" {
		return
	}
	if _, ok := a.atoms[s]; ok {
		return
	}
	a.atoms[s] = t
	a.order = append(a.order, s)
}

func sha(parts ...string) string {
	h := sha256.New()
	h.Write([]byte(strings.Join(parts, ":")))
	return fmt.Sprintf("%x", h.Sum(nil))
}

func (a *abstractor) freshOpaque() *term {
	a.opaque++
	return &term{K: "str", N: a.opaque}
}

// digest explains a hex digest as H[...] over the atoms known so far (lists of length 1..3).
func (a *abstractor) digest(d string) *term {
	if t, ok := a.atoms[d]; ok {
		return t
	}
	keys := append([]string{}, a.order...)
	if a.emptyCookie {
		keys = append(keys, "")
	}
	try := func(parts ...string) *term {
		a.hashes++
		if sha(parts...) != d {
			return nil
		}
		var l []*term
		for _, p := range parts {
			if p == "" {
				l = append(l, &term{K: "cookie", N: 0})
				continue
			}
			l = append(l, flatT(a.atoms[p])...)
		}
		t := &term{K: "h", L: l}
		a.bind(d, t)
		return t
	}
	for _, x := range keys {
		if t := try(x); t != nil {
			return t
		}
	}
	for _, x := range keys {
		for _, y := range keys {
			if t := try(x, y); t != nil {
				return t
			}
		}
	}
	for _, x := range keys {
		for _, y := range keys {
			for _, z := range keys {
				if t := try(x, y, z); t != nil {
					return t
				}
			}
		}
	}
	t := a.freshOpaque()
	a.bind(d, t)
	return t
}

// ---- parties --------------------------------------------------------------------------------------

type flagsJ struct {
	Enable, Spawn, AppStart, Frag, PTransit, PAccept, Important bool
}

func (f flagsJ) gen() gen.NetworkFlags {
	return gen.NetworkFlags{Enable: f.Enable, EnableRemoteSpawn: f.Spawn, EnableRemoteApplicationStart: f.AppStart,
		EnableFragmentation: f.Frag, EnableProxyTransit: f.PTransit, EnableProxyAccept: f.PAccept, EnableImportantDelivery: f.Important}
}
func flagsOf(f gen.NetworkFlags) flagsJ {
	return flagsJ{f.Enable, f.EnableRemoteSpawn, f.EnableRemoteApplicationStart, f.EnableFragmentation, f.EnableProxyTransit, f.EnableProxyAccept, f.EnableImportantDelivery}
}
func (f flagsJ) coq() string {
	return fmt.Sprintf("(mk_flags %s %s %s %s %s %s %s)", util.B(f.Enable), util.B(f.Spawn), util.B(f.AppStart), util.B(f.Frag), util.B(f.PTransit), util.B(f.PAccept), util.B(f.Important))
}

type partyJ struct {
	Cookie   int    `json:"cookie"` // index into cookieStrings
	Name     int    `json:"name"`   // index into nameStrings
	Creation int64  `json:"creation"`
	Flags    flagsJ `json:"flags"`
	MMS      int    `json:"mms"`
}

var cookieStrings = []string{"", "cookie-one", "another cookie", "c3:with:colons", "4"}
var nameStrings = []string{"", "alpha@localhost", "beta@localhost", "gamma@example.org"}

func (p partyJ) coq() string {
	return fmt.Sprintf("(mk_party %d (Str %d) (%d)%%Z %s (%d)%%Z)", p.Cookie, p.Name, p.Creation, p.Flags.coq(), p.MMS)
}

type stubNode struct {
	name     gen.Atom
	creation int64
}

func (s stubNode) Name() gen.Atom       { return s.name }
func (s stubNode) Creation() int64      { return s.creation }
func (s stubNode) Version() gen.Version { return gen.Version{Name: "verif", Release: "1"} }

func (p partyJ) node() stubNode { return stubNode{gen.Atom(nameStrings[p.Name]), p.Creation} }
func (p partyJ) hopts() gen.HandshakeOptions {
	return gen.HandshakeOptions{Cookie: cookieStrings[p.Cookie], Flags: p.Flags.gen(), MaxMessageSize: p.MMS}
}

func (a *abstractor) bindParties(ps ...partyJ) {
	for i := 1; i < len(nameStrings); i++ {
		a.bind(nameStrings[i], &term{K: "str", N: i})
	}
	for _, p := range ps {
		if p.Cookie == 0 {
			a.emptyCookie = true
		}
		a.bind(cookieStrings[p.Cookie], &term{K: "cookie", N: p.Cookie})
	}
}

// ---- wire tap -------------------------------------------------------------------------------------

type frame struct {
	FromInit bool
	B        []byte
}

type wireLog struct {
	sync.Mutex
	frames []frame
}

type tapConn struct {
	net.Conn
	fromInit bool
	log      *wireLog
}

func (t *tapConn) Write(b []byte) (int, error) {
	t.log.Lock()
	t.log.frames = append(t.log.frames, frame{t.fromInit, append([]byte{}, b...)})
	t.log.Unlock()
	return t.Conn.Write(b)
}

// decodeFrame: the bytes of one handshake frame -> the EDF value (nil when it is not a complete
// well-formed frame).
func decodeFrame(b []byte) (v any, complete bool, ok bool) {
	if len(b) < 6 {
		return nil, false, false
	}
	if b[0] != 87 || b[1] != 1 {
		return nil, true, false
	}
	l := int(binary.BigEndian.Uint32(b[2:6]))
	if l > 65535 {
		return nil, true, false
	}
	if len(b) < 6+l {
		return nil, false, false
	}
	defer func() {
		if r := recover(); r != nil {
			v, complete, ok = nil, true, false
		}
	}()
	val, _, err := edf.Decode(b[6:], edf.Options{})
	if err != nil {
		return nil, true, false
	}
	return val, true, true
}

type absMsg struct {
	coq   string
	terms []*term
}

// absValue: a decoded handshake value -> Coq msg.  mkSalt/mkID give the term for a not yet known
// random string in a salt / id position.
func (a *abstractor) absValue(v any, mkSalt func() *term, mkID func() *term) absMsg {
	pl := func(s string, mk func() *term) *term {
		if t, ok := a.atoms[s]; ok {
			return t
		}
		if strings.Contains(s, ":") {
			parts := strings.Split(s, ":")
			var ts []*term
			for _, p := range parts {
				t, ok := a.atoms[p]
				if !ok || p == "" {
					ts = nil
					break
				}
				ts = append(ts, t)
			}
			if ts != nil {
				// right nested pairs
				t := ts[len(ts)-1]
				for i := len(ts) - 2; i >= 0; i-- {
					t = &term{K: "pair", L: []*term{ts[i], t}}
				}
				a.bind(s, t)
				return t
			}
		}
		t := mk()
		a.bind(s, t)
		return t
	}
	switch m := v.(type) {
	case handshake.MessageHello:
		s := pl(m.Salt, mkSalt)
		d := a.digest(m.Digest)
		return absMsg{fmt.Sprintf("MHello (%s) (%s)", coqT(s), coqT(d)), []*term{s, d}}
	case handshake.MessageJoin:
		n := pl(string(m.Node), a.freshOpaque)
		c := pl(m.ConnectionID, mkID)
		s := pl(m.Salt, mkSalt)
		d := a.digest(m.Digest)
		return absMsg{fmt.Sprintf("MJoin (%s) (%s) (%s) (%s)", coqT(n), coqT(c), coqT(s), coqT(d)), []*term{n, c, s, d}}
	case handshake.MessageIntroduce:
		n := pl(string(m.Node), a.freshOpaque)
		d := a.digest(m.Digest)
		return absMsg{fmt.Sprintf("MIntro (%s) (%d)%%Z %s (%d)%%Z (%s)", coqT(n), m.Creation, flagsOf(m.Flags).coq(), m.MaxMessageSize, coqT(d)), []*term{n, d}}
	case handshake.MessageAccept:
		i := pl(m.ID, mkID)
		d := a.digest(m.Digest)
		return absMsg{fmt.Sprintf("MAccept (%s) (%d)%%Z (%s)", coqT(i), m.PoolSize, coqT(d)), []*term{i, d}}
	}
	return absMsg{"MOther", nil}
}

func flatT(t *term) []*term {
	if t.K == "pair" {
		return append(flatT(t.L[0]), flatT(t.L[1])...)
	}
	return []*term{t}
}

func coqT(t *term) string {
	if t.K == "pair" {
		return fmt.Sprintf("Pair (%s) (%s)", coqT(t.L[0]), coqT(t.L[1]))
	}
	if t.K == "h" {
		p := make([]string, len(t.L))
		for i, x := range t.L {
			p[i] = coqT(x)
		}
		return "H [" + strings.Join(p, "; ") + "]"
	}
	return t.coq()
}

// absBytes: what the model sees for a byte string written by somebody as one "send"
func (a *abstractor) absBytes(b []byte, mkSalt, mkID func() *term) absMsg {
	v, complete, ok := decodeFrame(b)
	if !complete {
		return absMsg{"MEof", nil}
	}
	if !ok {
		return absMsg{"MBad", nil}
	}
	return a.absValue(v, mkSalt, mkID)
}

// ---- results --------------------------------------------------------------------------------------

func errClass(err error) string {
	if err == nil {
		return ""
	}
	s := err.Error()
	var ne net.Error
	switch {
	case strings.Contains(s, "incorrect") && strings.Contains(s, "digest"):
		return "EDigest"
	case strings.Contains(s, "same name"):
		return "ESameName"
	case errors.Is(err, io.EOF), errors.Is(err, io.ErrUnexpectedEOF), errors.Is(err, io.ErrClosedPipe), errors.Is(err, os.ErrDeadlineExceeded):
		return "EIO"
	case errors.As(err, &ne):
		return "EIO"
	}
	return "EMalformed"
}

func (a *abstractor) absResult(r gen.HandshakeResult, err error, join bool) string {
	if err != nil {
		return "OErr " + errClass(err)
	}
	peer, ok := a.atoms[string(r.Peer)]
	if !ok {
		peer = a.freshOpaque()
	}
	cid, ok := a.atoms[r.ConnectionID]
	if !ok {
		cid = a.freshOpaque()
	}
	if join {
		return fmt.Sprintf("OJoined (%s) (%s)", coqT(peer), coqT(cid))
	}
	return fmt.Sprintf("OOk (mk_res (%s) (%s) (%d)%%Z %s (%d)%%Z %s (%d)%%Z)", coqT(peer), coqT(cid), r.PeerCreation,
		flagsOf(r.PeerFlags).coq(), r.PeerMaxMessageSize, flagsOf(r.NodeFlags).coq(), r.NodeMaxMessageSize)
}

// isJoinResult: Accept returned through its Join branch (no peer flags/creation, Custom is an empty ConnectionOptions)
func isJoinResult(r gen.HandshakeResult) bool {
	co, ok := r.Custom.(handshake.ConnectionOptions)
	return ok && co.PoolSize == 0 && r.PeerCreation == 0 && r.Peer != ""
}

// ---- misc -----------------------------------------------------------------------------------------

func withTimeout(d time.Duration, f func()) bool {
	done := make(chan struct{})
	go func() { defer close(done); f() }()
	select {
	case <-done:
		return true
	case <-time.After(d):
		return false
	}
}

func loadReplay(path string, into any) {
	b, err := os.ReadFile(path)
	if err != nil {
		panic(err)
	}
	var rp struct {
		Case json.RawMessage `json:"case"`
	}
	if err := json.Unmarshal(b, &rp); err != nil {
		panic(err)
	}
	if err := json.Unmarshal(rp.Case, into); err != nil {
		panic(err)
	}
}
