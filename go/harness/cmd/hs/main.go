// Harness of the Hs engine (property C15): drives the real handshake (Start / Accept / Join) over
// in-memory pipes, real nodes with their permission tables, flags and cookies, and prints what the
// implementation did as Coq terms for the checkers of coq/theories/Hs/Cases.v.
package main

import (
	"flag"
	"fmt"
	"os"
)

func main() {
	if len(os.Args) < 2 {
		fmt.Fprintln(os.Stderr, "usage: hs <pair|jpair|adv|tab|conn|req> [flags]")
		os.Exit(2)
	}
	fs := flag.NewFlagSet(os.Args[1], flag.ExitOnError)
	n := fs.Int("n", 100, "number of cases")
	out := fs.String("out", "", "output json")
	replay := fs.String("replay", "", "replay file (json case)")
	fs.Parse(os.Args[2:])
	switch os.Args[1] {
	case "pair":
		runPair(*n, *out, *replay)
	case "jpair":
		runJPair(*n, *out, *replay)
	case "adv":
		runAdv(*n, *out, *replay)
	case "tab":
		runTab(*n, *out, *replay)
	case "conn":
		runConn(*n, *out, *replay)
	case "req":
		runReq(*n, *out, *replay)
	default:
		fmt.Fprintln(os.Stderr, "unknown subcommand")
		os.Exit(2)
	}
}
