package main

import (
	"fmt"
	"math/rand"
	"net"
	"os"
	"strings"
	"time"

	"ergo.services/ergo"
	"ergo.services/ergo/act"
	"ergo.services/ergo/gen"
	"ergo.services/ergo/net/handshake"
	"verifharness/util"
)

// ---- conn: GetNode between two real nodes, node / acceptor / route cookies -------------------------

type connCase struct {
	NodeA  int      `json:"node_a"`
	RouteA int      `json:"route_a"`
	NodeB  int      `json:"node_b"`
	AccB   int      `json:"acc_b"`
	PrevB  int      `json:"prev_b,omitempty"` // B's network ran with this node cookie first and was restarted (NetworkStop / NetworkStart) with node_b
	Tags   []string `json:"tags,omitempty"`
}

var nodeSeq int

func startNode(tag string, opts gen.NodeOptions) gen.Node {
	nodeSeq++
	opts.Log.DefaultLogger.Disable = true
	name := gen.Atom(fmt.Sprintf("vhs%s%dp%d@localhost", tag, nodeSeq, os.Getpid()))
	n, err := ergo.StartNode(name, opts)
	if err != nil {
		panic(err)
	}
	return n
}

func routeTo(b gen.Node, cookie string, flags gen.NetworkFlags) gen.NetworkRoute {
	accs, err := b.Network().Acceptors()
	if err != nil || len(accs) == 0 {
		panic("no acceptor")
	}
	info := accs[0].Info()
	var port uint16
	i := strings.LastIndex(info.Interface, ":")
	fmt.Sscanf(info.Interface[i+1:], "%d", &port)
	return gen.NetworkRoute{
		Route:  gen.Route{Host: "localhost", Port: port, TLS: false, HandshakeVersion: info.HandshakeVersion, ProtoVersion: info.ProtoVersion},
		Cookie: cookie,
		Flags:  flags,
	}
}

func hasNode(n gen.Node, peer gen.Atom, want bool) bool {
	deadline := time.Now().Add(400 * time.Millisecond)
	for {
		_, err := n.Network().Node(peer)
		if (err == nil) == want || time.Now().After(deadline) {
			return err == nil
		}
		time.Sleep(2 * time.Millisecond)
	}
}

func execConn(c connCase) (bool, bool) {
	ob := gen.NodeOptions{}
	ob.Network.Cookie = cookieStrings[c.NodeB]
	if c.PrevB != 0 {
		ob.Network.Cookie = cookieStrings[c.PrevB]
	}
	ob.Network.Acceptors = []gen.AcceptorOptions{{Cookie: cookieStrings[c.AccB]}}
	b := startNode("cb", ob)
	defer b.StopForce()
	if c.PrevB != 0 {
		// the node's network is restarted with another cookie: the endpoint in use is the one of the running network
		if err := b.NetworkStop(); err != nil {
			panic(err)
		}
		no := gen.NetworkOptions{Cookie: cookieStrings[c.NodeB], Acceptors: []gen.AcceptorOptions{{Cookie: cookieStrings[c.AccB]}}}
		if err := b.NetworkStart(no); err != nil {
			panic(err)
		}
	}
	oa := gen.NodeOptions{}
	oa.Network.Cookie = cookieStrings[c.NodeA]
	a := startNode("ca", oa)
	defer a.StopForce()
	_, err := a.Network().GetNodeWithRoute(b.Name(), routeTo(b, cookieStrings[c.RouteA], gen.NetworkFlags{}))
	okA := err == nil
	okB := hasNode(b, a.Name(), okA)
	return okA, okB
}

func runConn(n int, out, replay string) {
	o := util.NewOut("hs.conn")
	var cases []connCase
	if replay != "" {
		var c connCase
		loadReplay(replay, &c)
		cases = append(cases, c)
	} else {
		var all []connCase
		for na := 1; na <= 2; na++ {
			for ra := 0; ra <= 3; ra++ {
				for nb := 1; nb <= 2; nb++ {
					for ab := 0; ab <= 3; ab++ {
						all = append(all, connCase{NodeA: na, RouteA: ra, NodeB: nb, AccB: ab})
					}
				}
			}
		}
		r := util.Rng(19)
		r.Shuffle(len(all), func(i, j int) { all[i], all[j] = all[j], all[i] })
		// the combinations that separate the selection functions come first
		cases = append(cases, connCase{1, 0, 1, 0, 0, nil}, connCase{1, 0, 2, 1, 0, nil}, connCase{1, 0, 1, 3, 0, nil}, connCase{1, 3, 2, 3, 0, nil},
			connCase{1, 2, 2, 0, 0, nil}, connCase{1, 2, 1, 0, 0, nil}, connCase{2, 1, 1, 0, 0, nil}, connCase{1, 0, 2, 0, 0, nil},
			// the network of B restarted with another node cookie: an acceptor without its own cookie follows the node's CURRENT cookie
			connCase{1, 0, 1, 0, 2, []string{"network-restarted"}}, connCase{2, 0, 1, 0, 2, []string{"network-restarted"}},
			connCase{1, 2, 1, 0, 2, []string{"network-restarted"}}, connCase{2, 0, 2, 0, 1, []string{"network-restarted"}},
			connCase{1, 0, 2, 3, 1, []string{"network-restarted"}}, connCase{1, 3, 2, 3, 1, []string{"network-restarted"}})
		for i, c := range all {
			if len(cases) >= n {
				break
			}
			if i%3 == 2 {
				c.PrevB = 3 - c.NodeB // the other one of the two node cookies
				c.Tags = []string{"network-restarted"}
			}
			cases = append(cases, c)
		}
	}
	for _, c := range cases {
		okA, okB := execConn(c)
		o.Add(fmt.Sprintf("mk_ccase %d %d %d %d %s %s", c.NodeA, c.RouteA, c.NodeB, c.AccB, util.B(okA), util.B(okB)), c)
		if okA {
			o.Stats["connected"]++
		} else {
			o.Stats["refused"]++
		}
		if c.AccB != 0 {
			o.Stats["acceptor-own-cookie"]++
		}
		if c.RouteA != 0 {
			o.Stats["route-own-cookie"]++
		}
		if c.PrevB != 0 {
			o.Stats["network-restarted-with-other-cookie"]++
		}
	}
	o.Write(out)
}

// ---- req: remote spawn / application start between two real nodes ----------------------------------

type reqCase struct {
	Kind   string   `json:"kind"`         // spawn | app
	Flags  flagsJ   `json:"flags"`        // the target's flags for this connection: its acceptor's (target accepts) or its route's (target dials)
	NodeFl flagsJ   `json:"node_flags"`   // the target's node-level flags (NetworkOptions.Flags): used when the connection has none of its own
	Forge  int      `json:"forge"`        // spawn only: the request claims a parent process on peer <Forge> (0 = honest); the grant must still be decided by the connected peer
	Dial   bool     `json:"dial"`         // the TARGET opened the connection; the request comes back over it from the accepting side
	Expose bool     `json:"expose"`       // the requester's exposure switch FOR THIS KIND of request
	ExpOth bool     `json:"expose_other"` // its switch for the other kind (must not matter)
	Rogue  bool     `json:"rogue"`        // the requester ignores what the target advertised (its handshake reports all capabilities on)
	Ops    []tabOp  `json:"ops"`          // history on the target; peer 1 is the requester
	Name   int      `json:"name"`
	Tags   []string `json:"tags,omitempty"`
}

type reqApp struct{ name gen.Atom }

func (a *reqApp) Load(node gen.Node, args ...any) (gen.ApplicationSpec, error) {
	return gen.ApplicationSpec{Name: a.name, Group: []gen.ApplicationMemberSpec{{Name: gen.Atom(string(a.name) + "_m"), Factory: factoryA}}}, nil
}
func (a *reqApp) Start(mode gen.ApplicationMode) {}
func (a *reqApp) Terminate(reason error)         {}

type reqPair struct {
	a, b   gen.Node
	remote gen.RemoteNode
}

// rogueHS: the real handshake, but the initiator pretends the peer advertised every capability.
// An authenticated peer is free to do that; the target's own check must hold on its own.
type rogueHS struct{ gen.NetworkHandshake }

func (r rogueHS) Start(n gen.NodeHandshake, c net.Conn, o gen.HandshakeOptions) (gen.HandshakeResult, error) {
	res, err := r.NetworkHandshake.Start(n, c, o)
	res.PeerFlags = gen.DefaultNetworkFlags
	return res, err
}

// the node registers its built-in handshake under the standard version first; a distinct version
// makes the route select this one
func (r rogueHS) Version() gen.Version {
	v := r.NetworkHandshake.Version()
	v.Release += "-rogue"
	return v
}

func startReqPair(fl flagsJ, nodefl flagsJ, dial bool, exposeSpawn bool, exposeApp bool, rogue bool) *reqPair {
	ob := gen.NodeOptions{}
	ob.Network.Cookie = "req-cookie"
	ob.Network.Flags = nodefl.gen()
	if !dial {
		ob.Network.Acceptors = []gen.AcceptorOptions{{Flags: fl.gen()}}
	}
	ob.Security.ExposeEnvInfo = true
	b := startNode("rb", ob)
	oa := gen.NodeOptions{Env: map[gen.Env]any{"VERIFMARK": "from-requester"}}
	oa.Network.Cookie = "req-cookie"
	oa.Security.ExposeEnvRemoteSpawn = exposeSpawn
	oa.Security.ExposeEnvRemoteApplicationStart = exposeApp
	if rogue {
		oa.Network.Handshake = rogueHS{handshake.Create(handshake.Options{})}
	}
	a := startNode("ra", oa)
	if dial {
		// the target dials the requester (flags of the route, else its node-level flags); the requester
		// then uses the established connection for its request
		if _, err := b.Network().GetNodeWithRoute(a.Name(), routeTo(a, "", fl.gen())); err != nil {
			panic(err)
		}
		var remote gen.RemoteNode
		var err error
		for try := 0; try < 200; try++ {
			if remote, err = a.Network().Node(b.Name()); err == nil {
				break
			}
			time.Sleep(5 * time.Millisecond)
		}
		if err != nil {
			panic(err)
		}
		return &reqPair{a, b, remote}
	}
	route := routeTo(b, "", gen.NetworkFlags{})
	if rogue {
		route.Route.HandshakeVersion = rogueHS{handshake.Create(handshake.Options{})}.Version()
	}
	remote, err := a.Network().GetNodeWithRoute(b.Name(), route)
	if err != nil {
		panic(err)
	}
	return &reqPair{a, b, remote}
}

var reqSeq int

func execReq(p *reqPair, c reqCase) (obs string, envSeen bool, hist []string) {
	reqSeq++
	nameAtom := func(k int) gen.Atom { return gen.Atom(fmt.Sprintf("r%d_name%d", reqSeq, k)) }
	peer := func(i int) gen.Atom {
		if i == 1 {
			return p.a.Name()
		}
		return peerAtom(i)
	}
	if c.Kind == "app" {
		for k := 1; k <= 3; k++ {
			if _, err := p.b.ApplicationLoad(&reqApp{nameAtom(k)}); err != nil {
				panic(err)
			}
		}
	}
	for _, op := range c.Ops {
		var nodes []gen.Atom
		for _, q := range op.Nodes {
			nodes = append(nodes, peer(q))
		}
		switch {
		case c.Kind == "spawn" && op.Enable:
			f := factoryA
			if op.Fid == 2 {
				f = factoryB
			}
			p.b.Network().EnableSpawn(nameAtom(op.Name), f, nodes...)
		case c.Kind == "spawn":
			p.b.Network().DisableSpawn(nameAtom(op.Name), nodes...)
		case op.Enable:
			p.b.Network().EnableApplicationStart(nameAtom(op.Name), nodes...)
		default:
			p.b.Network().DisableApplicationStart(nameAtom(op.Name), nodes...)
		}
		if op.Enable {
			hist = append(hist, fmt.Sprintf("Enable %d %d %s", op.Name, op.Fid, nlist(op.Nodes)))
		} else {
			hist = append(hist, fmt.Sprintf("Disable %d %s", op.Name, nlist(op.Nodes)))
		}
	}
	var err error
	var pids []gen.PID
	if c.Kind == "spawn" && c.Forge > 0 {
		// a crafted request: parent / leader pids on another node's name (one the table may well enable)
		type routeSpawner interface {
			RouteSpawn(node gen.Atom, name gen.Atom, options gen.ProcessOptionsExtra, source gen.Atom) (gen.PID, error)
		}
		forged := gen.PID{Node: peer(c.Forge), ID: 1001, Creation: p.a.Creation()}
		var pid gen.PID
		fopts := gen.ProcessOptionsExtra{ParentPID: forged, ParentLeader: forged, ParentLogLevel: gen.LogLevelInfo}
		if c.Expose {
			// like an honest requester: the environment travels under the spawn switch only
			fopts.ParentEnv = p.a.EnvList()
		}
		pid, err = p.a.(routeSpawner).RouteSpawn(p.b.Name(), nameAtom(c.Name), fopts, p.a.Name())
		pids = append(pids, pid)
	} else if c.Kind == "spawn" {
		var pid gen.PID
		pid, err = p.remote.Spawn(nameAtom(c.Name), gen.ProcessOptions{})
		pids = append(pids, pid)
	} else {
		err = p.remote.ApplicationStart(nameAtom(c.Name), gen.ApplicationOptions{})
		if err == nil {
			if info, e := p.b.ApplicationInfo(nameAtom(c.Name)); e == nil {
				pids = info.Group
			}
		}
	}
	switch err {
	case nil:
		obs = "ObsGranted"
		for _, pid := range pids {
			if info, e := p.b.ProcessInfo(pid); e == nil {
				if _, ok := info.Env["VERIFMARK"]; ok {
					envSeen = true
				}
			}
		}
	case gen.ErrNotAllowed:
		obs = "ObsDenied"
	case gen.ErrNameUnknown:
		obs = "ObsUnknown"
	case gen.ErrTimeout:
		obs = "ObsNoAnswer"
	default:
		panic(fmt.Sprintf("unexpected request error: %v", err))
	}
	return
}

func runReq(n int, out, replay string) {
	o := util.NewOut("hs.req")
	var cases []reqCase
	if replay != "" {
		var c reqCase
		loadReplay(replay, &c)
		cases = append(cases, c)
	} else {
		r := util.Rng(20)
		configs := []flagsJ{
			flagsOf(gen.DefaultNetworkFlags),
			{Enable: true, Spawn: false, AppStart: true, PAccept: true, Important: true},
			{Enable: true, Spawn: true, AppStart: false, PAccept: true, Important: true},
			{Enable: true},
			{}, // not customised: the acceptor / route falls back to the node-level flags, those to the defaults
		}
		nodeConfigs := []flagsJ{
			{}, {},
			{Enable: true, Spawn: false, AppStart: true, PAccept: true, Important: true},
			{Enable: true, Spawn: true, AppStart: false, PAccept: true, Important: true},
		}
		// a rogue requester against every target configuration: the request is enabled for it in the table
		for _, fl := range configs {
			for _, k := range []string{"spawn", "app"} {
				cases = append(cases, reqCase{Kind: k, Flags: fl, Rogue: true, Name: 1, Ops: []tabOp{{true, 1, b2i(k == "spawn"), nil}}})
			}
		}
		// a spawn request that claims a parent on a node the name IS enabled for, sent by a peer it is not enabled for
		for _, dial := range []bool{false, true} {
			cases = append(cases, reqCase{Kind: "spawn", Flags: flagsOf(gen.DefaultNetworkFlags), Dial: dial, Forge: 2, Name: 1, Ops: []tabOp{{true, 1, 1, []int{2}}}})
			cases = append(cases, reqCase{Kind: "spawn", Flags: flagsOf(gen.DefaultNetworkFlags), Dial: dial, Forge: 2, Name: 1, Ops: []tabOp{{true, 1, 1, []int{1, 2}}}})
		}
		// the two exposure switches are independent: the environment travels with a spawn request only under the
		// spawn switch, with an application-start request only under the application-start switch
		for _, k := range []string{"spawn", "app"} {
			for _, ex := range []bool{false, true} {
				cases = append(cases, reqCase{Kind: k, Flags: flagsOf(gen.DefaultNetworkFlags), Expose: ex, ExpOth: !ex, Name: 1, Ops: []tabOp{{true, 1, b2i(k == "spawn"), nil}}})
			}
		}
		// the target dials and has only node-level flags (no route flags): they decide, in both directions of the table
		for _, nf := range nodeConfigs[2:] {
			for _, k := range []string{"spawn", "app"} {
				for _, dial := range []bool{true, false} {
					cases = append(cases, reqCase{Kind: k, NodeFl: nf, Dial: dial, Name: 1, Ops: []tabOp{{true, 1, b2i(k == "spawn"), nil}}})
				}
			}
		}
		for len(cases) < n {
			for _, fl := range configs {
				for _, ex := range []bool{false, true} {
					t := genTabCase(r)
					// make the requester (peer 1) and the requested name matter
					c := reqCase{Kind: t.Kind, Flags: fl, Expose: ex, Ops: t.Ops, Name: 1 + r.Intn(2)}
					c.ExpOth = r.Intn(2) == 0
					if c.Kind == "spawn" && r.Intn(4) == 0 {
						c.Forge = 2 + r.Intn(2)
					}
					c.NodeFl = nodeConfigs[r.Intn(len(nodeConfigs))]
					c.Dial = r.Intn(2) == 0
					cases = append(cases, c)
				}
			}
		}
	}
	gen.DefaultRequestTimeout = 1 // seconds; a refused request is dropped by the target without an answer
	timeouts := 0
	pairs := map[string]*reqPair{}
	defer func() {
		for _, p := range pairs {
			p.a.StopForce()
			p.b.StopForce()
		}
	}()
	for _, c := range cases {
		exSpawn, exApp := c.Expose, c.ExpOth
		if c.Kind == "app" {
			exSpawn, exApp = c.ExpOth, c.Expose
		}
		key := fmt.Sprintf("%v/%v/%v/%v/%v/%v", c.Flags, c.NodeFl, c.Dial, exSpawn, exApp, c.Rogue)
		p := pairs[key]
		if p == nil {
			p = startReqPair(c.Flags, c.NodeFl, c.Dial, exSpawn, exApp, c.Rogue)
			pairs[key] = p
		}
		if timeouts > 25 {
			o.Notes = append(o.Notes, "too many unanswered requests, remaining cases skipped")
			break
		}
		obs, env, hist := execReq(p, c)
		if obs == "ObsNoAnswer" {
			timeouts++
		}
		// the flags the target really uses for this connection
		eff := c.Flags
		if !eff.Enable {
			eff = c.NodeFl
		}
		if !eff.Enable {
			eff = flagsOf(gen.DefaultNetworkFlags)
		}
		if c.Dial {
			o.Stats["target-dials"]++
		}
		if c.NodeFl.Enable && !c.Flags.Enable {
			o.Stats["node-level-flags-decide"]++
		}
		kind := "KSpawn"
		if c.Kind == "app" {
			kind = "KAppStart"
		}
		believed := eff
		if c.Rogue {
			believed = flagsOf(gen.DefaultNetworkFlags)
			o.Stats["rogue-requester"]++
		}
		o.Add(fmt.Sprintf("mk_rcase %s %s %s [%s] %d 1 %s %s %s", kind, eff.coq(), believed.coq(), strings.Join(hist, "; "), c.Name, util.B(c.Expose), util.B(env), obs), c)
		o.Stats["kind:"+c.Kind]++
		o.Stats["obs:"+obs]++
		if env {
			o.Stats["env-arrived"]++
		}
		if c.Forge > 0 {
			o.Stats["forged-parent"]++
		}
		if c.Expose != c.ExpOth {
			o.Stats["exposure-switches-differ"]++
		}
	}
	o.Write(out)
}

var _ = rand.Int
var _ = act.Actor{}
