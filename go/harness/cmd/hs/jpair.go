package main

import (
	"fmt"
	"net"
	"strings"
	"time"

	"ergo.services/ergo/net/handshake"
	"verifharness/util"
)

type jpairCase struct {
	A    partyJ   `json:"a"`
	B    partyJ   `json:"b"`
	Cid  string   `json:"cid"`
	Tags []string `json:"tags,omitempty"`
}

type joinOutcome struct {
	tail []byte
	err  error
}

// execJoin runs the real Join against the real Accept over a tapped pipe.
func execJoin(c jpairCase) (frames []frame, ra joinOutcome, rb hsOutcome) {
	ca, cb := net.Pipe()
	log := &wireLog{}
	ta := &tapConn{ca, true, log}
	tb := &tapConn{cb, false, log}
	ha := handshake.Create(handshake.Options{})
	hb := handshake.Create(handshake.Options{})
	cha := make(chan joinOutcome, 1)
	chb := make(chan hsOutcome, 1)
	go func() {
		t, err := ha.Join(c.A.node(), ta, c.Cid, c.A.hopts())
		if err != nil {
			ta.Close()
		}
		cha <- joinOutcome{t, err}
	}()
	go func() {
		r, err := hb.Accept(c.B.node(), tb, c.B.hopts())
		if err != nil {
			tb.Close()
		}
		chb <- hsOutcome{r, err}
	}()
	tm := time.After(10 * time.Second)
	for i := 0; i < 2; i++ {
		select {
		case ra = <-cha:
			cha = nil
		case rb = <-chb:
			chb = nil
		case <-tm:
			panic("join pair hangs")
		}
	}
	ca.Close()
	cb.Close()
	return log.frames, ra, rb
}

func runJPair(n int, out, replay string) {
	o := util.NewOut("hs.jpair")
	var cases []jpairCase
	if replay != "" {
		var c jpairCase
		loadReplay(replay, &c)
		cases = append(cases, c)
	} else {
		r := util.Rng(16)
		for len(cases) < n {
			p := genPairCase(r)
			cases = append(cases, jpairCase{A: p.A, B: p.B, Cid: []string{"CONNECTION-ID-1", "x", "id:with:colon"}[r.Intn(3)]})
		}
	}
	for _, c := range cases {
		frames, ra, rb := execJoin(c)
		a := newAbstractor()
		a.bindParties(c.A, c.B)
		cid := &term{K: "str", N: 77}
		a.bind(c.Cid, cid)
		var w []string
		for _, f := range frames {
			side := 2
			if f.FromInit {
				side = 1
			}
			m := a.absBytes(f.B, func() *term { return &term{K: "salt", N: side} }, func() *term { return &term{K: "salt", N: 3} })
			w = append(w, fmt.Sprintf("(%s, %s)", util.B(f.FromInit), m.coq))
		}
		resA := "OJoined (Str 0) (Str 0)"
		if ra.err != nil {
			resA = "OErr " + errClass(ra.err)
		}
		s := fmt.Sprintf("mk_jcase %s %s (%s) [%s] (%s) (%s)", c.A.coq(), c.B.coq(), coqT(cid), strings.Join(w, "; "),
			resA, a.absResult(rb.res, rb.err, true))
		o.Add(s, c)
		if c.A.Cookie == c.B.Cookie {
			o.Stats["same-cookie"]++
		} else {
			o.Stats["different-cookie"]++
		}
		if ra.err == nil && rb.err == nil {
			o.Stats["joined"]++
		}
	}
	o.Write(out)
}
