package main

import (
	"encoding/binary"
	"fmt"
	"math/rand"
	"net"
	"strings"
	"sync"
	"time"

	"ergo.services/ergo/gen"
	"ergo.services/ergo/lib"
	"ergo.services/ergo/net/edf"
	"ergo.services/ergo/net/handshake"
	"verifharness/util"
)

// An adversary case: some honest sessions are recorded first (the adversary sees every byte), then
// a fresh real Accept / Start / Join of the target party is driven by the adversary alone.
type advCase struct {
	Role   string      `json:"role"` // accept | start | join
	Target partyJ      `json:"target"`
	Peer   partyJ      `json:"peer"`   // the honest peer of the recorded sessions
	Other  int         `json:"other"`  // a cookie the adversary does know (never the target's)
	NRec   int         `json:"nrec"`   // recorded hello sessions with the target's cookie (>=1)
	Script []advAction `json:"script"` // what the adversary sends
	Class  string      `json:"class"`
	Tags   []string    `json:"tags,omitempty"`
}

type advAction struct {
	Kind string `json:"kind"` // replay | trunc | corrupt | garbage | reflect | forge
	Sess int    `json:"sess"` // recorded session (0..NRec-1 hello sessions, NRec = join session, NRec+1 = other-cookie session)
	Msg  int    `json:"msg"`  // frame index inside that session (or inside the target's own output for reflect)
	At   int    `json:"at"`   // trunc length / corrupt offset / garbage length
	Seed int64  `json:"seed"`
	What string `json:"what"` // forge recipe
}

func encodeFrame(v any) []byte {
	buf := lib.TakeBuffer()
	defer lib.ReleaseBuffer(buf)
	buf.Allocate(6)
	buf.B[0] = 87
	buf.B[1] = 1
	if err := edf.Encode(v, buf, edf.Options{}); err != nil {
		panic(err)
	}
	binary.BigEndian.PutUint32(buf.B[2:6], uint32(buf.Len()-6))
	return append([]byte{}, buf.B...)
}

// gated connection of the target: records writes, lets the adversary see when the target is
// blocked in Read with everything consumed.
type gateConn struct {
	net.Conn
	mu       sync.Mutex
	inRead   bool
	consumed int
	out      [][]byte
}

func (g *gateConn) Read(b []byte) (int, error) {
	g.mu.Lock()
	g.inRead = true
	g.mu.Unlock()
	n, err := g.Conn.Read(b)
	g.mu.Lock()
	g.inRead = false
	g.consumed += n
	g.mu.Unlock()
	return n, err
}

func (g *gateConn) Write(b []byte) (int, error) {
	g.mu.Lock()
	g.out = append(g.out, append([]byte{}, b...))
	g.mu.Unlock()
	return g.Conn.Write(b)
}

type advRun struct {
	sent [][]byte // what the adversary wrote, action by action (only those delivered)
	out  [][]byte // frames the target wrote
	res  hsOutcome
	tags []string
}

func execAdv(c advCase, recorded [][]frame, cid string) advRun {
	ct, ca := net.Pipe()
	g := &gateConn{Conn: ct}
	done := make(chan hsOutcome, 1)
	h := handshake.Create(handshake.Options{PoolSize: 3})
	go func() {
		var r gen.HandshakeResult
		var err error
		func() {
			defer func() {
				if p := recover(); p != nil {
					err = fmt.Errorf("PANIC: %v", p)
				}
			}()
			switch c.Role {
			case "accept":
				r, err = h.Accept(c.Target.node(), g, c.Target.hopts())
			case "start":
				r, err = h.Start(c.Target.node(), g, c.Target.hopts())
			case "join":
				_, err = h.Join(c.Target.node(), g, cid, c.Target.hopts())
			}
		}()
		if err != nil {
			g.Close()
		}
		done <- hsOutcome{r, err}
	}()
	// the adversary reads everything the target writes
	go func() {
		b := make([]byte, 65536)
		for {
			if _, err := ca.Read(b); err != nil {
				return
			}
		}
	}()
	var run advRun
	written := 0
	finished := false
	var res hsOutcome
	waitReady := func() bool { // target blocked in Read with everything consumed, or finished
		deadline := time.Now().Add(5 * time.Second)
		for time.Now().Before(deadline) {
			select {
			case res = <-done:
				finished = true
				return false
			default:
			}
			g.mu.Lock()
			ok := g.inRead && g.consumed == written
			g.mu.Unlock()
			if ok {
				return true
			}
			time.Sleep(20 * time.Microsecond)
		}
		panic("adversary: target neither reads nor returns")
	}
	for _, act := range c.Script {
		if !waitReady() {
			break
		}
		g.mu.Lock()
		outSoFar := append([][]byte{}, g.out...)
		g.mu.Unlock()
		b := buildAction(act, recorded, outSoFar)
		if b == nil {
			continue
		}
		ca.SetWriteDeadline(time.Now().Add(3 * time.Second))
		n, _ := ca.Write(b)
		written += n
		if n > 0 {
			// a prefix that made the target give up counts as delivered: the frame is judged as a whole
			run.sent = append(run.sent, b)
		}
		if n < len(b) {
			break
		}
	}
	if !finished {
		waitReady()
	}
	ca.Close()
	if !finished {
		select {
		case res = <-done:
		case <-time.After(5 * time.Second):
			panic("adversary: target does not return after close")
		}
	}
	ct.Close()
	g.mu.Lock()
	run.out = g.out
	g.mu.Unlock()
	run.res = res
	return run
}

func findFrames(recorded [][]frame, sess int, fromInit bool) [][]byte {
	var r [][]byte
	if sess < 0 || sess >= len(recorded) {
		return nil
	}
	for _, f := range recorded[sess] {
		if f.FromInit == fromInit {
			r = append(r, f.B)
		}
	}
	return r
}

func decodeAs[T any](b []byte) (T, bool) {
	var zero T
	v, _, ok := decodeFrame(b)
	if !ok {
		return zero, false
	}
	t, ok := v.(T)
	return t, ok
}

// buildAction: the bytes of one adversary action (nil = not applicable in this case)
func buildAction(a advAction, recorded [][]frame, targetOut [][]byte) []byte {
	all := func(sess int) [][]byte {
		var r [][]byte
		if sess >= 0 && sess < len(recorded) {
			for _, f := range recorded[sess] {
				r = append(r, f.B)
			}
		}
		return r
	}
	pick := func() []byte {
		fs := all(a.Sess)
		if a.Msg < 0 || a.Msg >= len(fs) {
			return nil
		}
		return fs[a.Msg]
	}
	switch a.Kind {
	case "replay":
		return pick()
	case "trunc":
		b := pick()
		if b == nil || a.At >= len(b) {
			return nil
		}
		return b[:a.At]
	case "corrupt":
		b := append([]byte{}, pick()...)
		if len(b) == 0 {
			return nil
		}
		b[a.At%len(b)] ^= byte(1 + a.Seed%255)
		return b
	case "garbage":
		r := rand.New(rand.NewSource(a.Seed))
		b := make([]byte, a.At)
		r.Read(b)
		if len(b) >= 6 && a.Seed%2 == 0 { // a valid header in front of garbage
			b[0], b[1] = 87, 1
			binary.BigEndian.PutUint32(b[2:6], uint32(len(b)-6))
		}
		return b
	case "reflect":
		if a.Msg < 0 || a.Msg >= len(targetOut) {
			return nil
		}
		return targetOut[a.Msg]
	case "forge":
		return forge(a, recorded, targetOut)
	}
	return nil
}

// forge: frames an adversary can build from what it has seen (never using the target's cookie)
func forge(a advAction, recorded [][]frame, targetOut [][]byte) []byte {
	initF := findFrames(recorded, a.Sess, true)
	accF := findFrames(recorded, a.Sess, false)
	switch a.What {
	case "other-string": // a well formed frame carrying some other EDF value
		return encodeFrame("hello there")
	case "hello-colon": // Salt = "saltB:digestA", Digest = digestB of a recorded session: same bytes are hashed
		if len(initF) < 1 || len(accF) < 1 {
			return nil
		}
		h1, ok1 := decodeAs[handshake.MessageHello](initF[0])
		h2, ok2 := decodeAs[handshake.MessageHello](accF[0])
		if !ok1 || !ok2 {
			return nil
		}
		return encodeFrame(handshake.MessageHello{Salt: h2.Salt + ":" + h1.Digest, Digest: h2.Digest})
	case "hello-swap": // recorded salt with the digest of another recorded hello
		if len(initF) < 1 || len(accF) < 1 {
			return nil
		}
		h1, ok1 := decodeAs[handshake.MessageHello](initF[0])
		h2, ok2 := decodeAs[handshake.MessageHello](accF[0])
		if !ok1 || !ok2 {
			return nil
		}
		return encodeFrame(handshake.MessageHello{Salt: h1.Salt, Digest: h2.Digest})
	case "hello-othercookie": // computed with a cookie the adversary knows
		s := fmt.Sprintf("ADVSALT%d", a.Seed)
		return encodeFrame(handshake.MessageHello{Salt: s, Digest: sha(s, cookieStrings[a.At])})
	case "intro-renamed", "intro-digest-own", "intro-digest-hello2", "intro-digest-hello1", "intro-digest-other":
		if len(initF) < 2 {
			return nil
		}
		in, ok := decodeAs[handshake.MessageIntroduce](initF[1])
		if !ok {
			return nil
		}
		switch a.What {
		case "intro-renamed":
			in.Node = "mallory@evil"
		case "intro-digest-own": // the digest the target just sent
			if len(targetOut) < 1 {
				return nil
			}
			h, ok := decodeAs[handshake.MessageHello](targetOut[len(targetOut)-1])
			if !ok {
				return nil
			}
			in.Digest = h.Digest
		case "intro-digest-hello2":
			h, ok := decodeAs[handshake.MessageHello](accF[0])
			if !ok {
				return nil
			}
			in.Digest = h.Digest
		case "intro-digest-hello1":
			h, ok := decodeAs[handshake.MessageHello](initF[0])
			if !ok {
				return nil
			}
			in.Digest = h.Digest
		case "intro-digest-other":
			if len(targetOut) < 1 {
				return nil
			}
			h, ok := decodeAs[handshake.MessageHello](targetOut[len(targetOut)-1])
			if !ok {
				return nil
			}
			in.Digest = sha(h.Salt, cookieStrings[a.At])
		}
		return encodeFrame(in)
	case "join-renamed", "join-newid", "join-newsalt", "join-othercookie":
		if len(initF) < 1 {
			return nil
		}
		j, ok := decodeAs[handshake.MessageJoin](initF[0])
		if !ok {
			return nil
		}
		switch a.What {
		case "join-renamed":
			j.Node = "mallory@evil"
		case "join-newid":
			j.ConnectionID = "ANOTHER-ID"
		case "join-newsalt":
			j.Salt = "ADVSALT"
		case "join-othercookie":
			j.Salt = "ADVSALT"
			j.Digest = sha(j.ConnectionID, j.Salt, cookieStrings[a.At])
		}
		return encodeFrame(j)
	case "hello2-for-start": // acceptor side Hello built from the target's own hello and a known cookie
		if len(targetOut) < 1 {
			return nil
		}
		h, ok := decodeAs[handshake.MessageHello](targetOut[0])
		if !ok {
			return nil
		}
		s := "ADVSALT2"
		return encodeFrame(handshake.MessageHello{Salt: s, Digest: sha(s, h.Digest, cookieStrings[a.At])})
	case "hello2-echo-digest": // Salt chosen so that the hashed string starts like the target's own digest input
		if len(targetOut) < 1 {
			return nil
		}
		h, ok := decodeAs[handshake.MessageHello](targetOut[0])
		if !ok {
			return nil
		}
		return encodeFrame(handshake.MessageHello{Salt: h.Salt, Digest: h.Digest})
	case "accept-join-other": // Accept for a Join, digest with a known cookie
		if len(targetOut) < 1 {
			return nil
		}
		j, ok := decodeAs[handshake.MessageJoin](targetOut[0])
		if !ok {
			return nil
		}
		return encodeFrame(handshake.MessageAccept{Digest: sha(j.Digest, cookieStrings[a.At])})
	case "accept-join-echo":
		if len(targetOut) < 1 {
			return nil
		}
		j, ok := decodeAs[handshake.MessageJoin](targetOut[0])
		if !ok {
			return nil
		}
		return encodeFrame(handshake.MessageAccept{Digest: j.Digest})
	}
	return nil
}

// ---- case generation ------------------------------------------------------------------------------

func otherCookie(c int, r *rand.Rand) int {
	for {
		k := 1 + r.Intn(len(cookieStrings)-1)
		if k != c {
			return k
		}
	}
}

func genAdvCases(r *rand.Rand, n int, thorough bool) []advCase {
	var cases []advCase
	nrec := 1
	base := func(role string) advCase {
		c := advCase{Role: role, NRec: nrec}
		c.Target = genParty(r, 2)
		c.Target.Cookie = 1 + r.Intn(len(cookieStrings)-1)
		c.Peer = genParty(r, 1)
		c.Peer.Cookie = c.Target.Cookie
		c.Other = otherCookie(c.Target.Cookie, r)
		return c
	}
	add := func(c advCase, class string, tags []string, script ...advAction) {
		c.Class, c.Tags, c.Script = class, tags, script
		cases = append(cases, c)
	}
	rp := func(s, m int) advAction { return advAction{Kind: "replay", Sess: s, Msg: m} }
	fg := func(s int, what string, at int) advAction {
		return advAction{Kind: "forge", Sess: s, What: what, At: at, Seed: r.Int63n(1000)}
	}
	// frames of a recorded hello session: 0 Hello(i) 1 Hello(a) 2 Intro(i) 3 Accept(a) 4 Intro(a) 5 Accept(i)
	for len(cases) < n {
		// --- against Accept -------------------------------------------------------------------------
		nrec = 1 + r.Intn(2)
		c := base("accept")
		J := c.NRec // index of the recorded join session
		O := c.NRec + 1
		add(c, "acc-replay-initiator", nil, rp(0, 0), rp(0, 2), rp(0, 5))
		add(base("accept"), "acc-replay-hello-only", nil, rp(0, 0))
		add(base("accept"), "acc-replay-intro-first", nil, rp(0, 2))
		add(base("accept"), "acc-replay-accept-first", nil, rp(0, 3))
		add(base("accept"), "acc-replay-acceptor-frames", nil, rp(0, 1), rp(0, 4))
		add(base("accept"), "acc-replay-hello-then-hello", nil, rp(0, 0), rp(0, 0))
		add(base("accept"), "acc-join-replay", []string{"join-replay"}, rp(J, 0))
		add(base("accept"), "acc-join-replay-renamed", []string{"join-replay"}, fg(J, "join-renamed", 0))
		add(base("accept"), "acc-join-newid", nil, fg(J, "join-newid", 0))
		add(base("accept"), "acc-join-newsalt", nil, fg(J, "join-newsalt", 0))
		c = base("accept")
		add(c, "acc-join-othercookie", nil, fg(J, "join-othercookie", c.Other))
		add(base("accept"), "acc-join-accept-frame", nil, rp(J, 1))
		add(base("accept"), "acc-hello-colon-then-intro", nil, fg(0, "hello-colon", 0), rp(0, 2))
		add(base("accept"), "acc-hello-swap", nil, fg(0, "hello-swap", 0))
		c = base("accept")
		add(c, "acc-hello-othercookie", nil, fg(0, "hello-othercookie", c.Other), fg(0, "intro-digest-other", c.Other))
		add(base("accept"), "acc-replay-othercookie-session", nil, rp(O, 0), rp(O, 2))
		add(base("accept"), "acc-intro-renamed", nil, rp(0, 0), fg(0, "intro-renamed", 0))
		add(base("accept"), "acc-intro-digest-own", nil, rp(0, 0), fg(0, "intro-digest-own", 0))
		add(base("accept"), "acc-intro-digest-hello2", nil, rp(0, 0), fg(0, "intro-digest-hello2", 0))
		add(base("accept"), "acc-intro-digest-hello1", nil, rp(0, 0), fg(0, "intro-digest-hello1", 0))
		c = base("accept")
		add(c, "acc-intro-digest-other", nil, rp(0, 0), fg(0, "intro-digest-other", c.Other))
		add(base("accept"), "acc-reflect-hello", nil, rp(0, 0), advAction{Kind: "reflect", Msg: 0})
		add(base("accept"), "acc-other-value", nil, fg(0, "other-string", 0))
		add(base("accept"), "acc-other-value-2", nil, rp(0, 0), fg(0, "other-string", 0))
		if c.NRec > 1 {
			add(base("accept"), "acc-mix-sessions", nil, rp(0, 0), rp(1, 2))
		}
		for k := 0; k < 3; k++ {
			add(base("accept"), "acc-garbage", nil, advAction{Kind: "garbage", At: []int{1, 5, 6, 7, 40, 300}[r.Intn(6)], Seed: r.Int63n(1 << 30)})
			add(base("accept"), "acc-garbage-after-hello", nil, rp(0, 0), advAction{Kind: "garbage", At: []int{1, 6, 9, 64, 5000}[r.Intn(5)], Seed: r.Int63n(1 << 30)})
			add(base("accept"), "acc-corrupt-hello", nil, advAction{Kind: "corrupt", Sess: 0, Msg: 0, At: r.Intn(400), Seed: r.Int63n(255)})
			add(base("accept"), "acc-corrupt-intro", nil, rp(0, 0), advAction{Kind: "corrupt", Sess: 0, Msg: 2, At: r.Intn(3000), Seed: r.Int63n(255)})
			add(base("accept"), "acc-corrupt-join", nil, advAction{Kind: "corrupt", Sess: J, Msg: 0, At: r.Intn(300), Seed: r.Int63n(255)})
		}
		// truncation: every byte (thorough) or sampled positions (quick)
		step := 37
		if thorough {
			step = 1
		}
		for _, fm := range [][2]int{{0, 0}, {J, 0}} {
			for at := r.Intn(step); at < 260; at += step {
				add(base("accept"), "acc-trunc-first", nil, advAction{Kind: "trunc", Sess: fm[0], Msg: fm[1], At: at})
			}
		}
		for at := r.Intn(step * 8); at < 2600; at += step * 8 {
			add(base("accept"), "acc-trunc-intro", nil, rp(0, 0), advAction{Kind: "trunc", Sess: 0, Msg: 2, At: at})
		}
		// --- against Start --------------------------------------------------------------------------
		add(base("start"), "start-replay-acceptor", nil, rp(0, 1), rp(0, 3), rp(0, 4))
		add(base("start"), "start-replay-hello1", nil, rp(0, 0))
		add(base("start"), "start-reflect-own-hello", nil, advAction{Kind: "reflect", Msg: 0})
		add(base("start"), "start-echo-digest", nil, fg(0, "hello2-echo-digest", 0))
		c = base("start")
		add(c, "start-hello2-othercookie", nil, fg(0, "hello2-for-start", c.Other), rp(0, 3), rp(0, 4))
		add(base("start"), "start-accept-first", nil, rp(0, 3), rp(0, 4))
		add(base("start"), "start-other-value", nil, fg(0, "other-string", 0))
		add(base("start"), "start-garbage", nil, advAction{Kind: "garbage", At: []int{1, 6, 9, 64, 5000}[r.Intn(5)], Seed: r.Int63n(1 << 30)})
		add(base("start"), "start-corrupt-hello2", nil, advAction{Kind: "corrupt", Sess: 0, Msg: 1, At: r.Intn(400), Seed: r.Int63n(255)})
		for at := r.Intn(step); at < 260; at += step {
			add(base("start"), "start-trunc-hello2", nil, advAction{Kind: "trunc", Sess: 0, Msg: 1, At: at})
		}
		// --- against Join ---------------------------------------------------------------------------
		add(base("join"), "join-replay-accept", nil, rp(J, 1))
		add(base("join"), "join-replay-hello-accept", nil, rp(0, 3))
		add(base("join"), "join-reflect", nil, advAction{Kind: "reflect", Msg: 0})
		add(base("join"), "join-accept-echo", nil, fg(0, "accept-join-echo", 0))
		c = base("join")
		add(c, "join-accept-othercookie", nil, fg(0, "accept-join-other", c.Other))
		add(base("join"), "join-garbage", nil, advAction{Kind: "garbage", At: []int{1, 6, 9, 64}[r.Intn(4)], Seed: r.Int63n(1 << 30)})
		for at := r.Intn(step); at < 120; at += step {
			add(base("join"), "join-trunc-accept", nil, advAction{Kind: "trunc", Sess: J, Msg: 1, At: at})
		}
	}
	return cases
}

// ---- run --------------------------------------------------------------------------------------------

const advCid = "RECORDED-CONNECTION-ID"

func runAdvCase(c advCase) (string, advRun, *abstractor) {
	// record: NRec honest hello sessions peer -> target, one honest join, one hello session under another cookie
	var recorded [][]frame
	// the target plays in the recordings the role it is attacked in
	ini, acc := c.Peer, c.Target
	if c.Role != "accept" {
		ini, acc = c.Target, c.Peer
	}
	for i := 0; i < c.NRec; i++ {
		fr, ra, rb := execPair(pairCase{A: ini, B: acc, Pool: 3})
		if ra.err != nil || rb.err != nil {
			panic(fmt.Sprintf("recording failed: %v %v", ra.err, rb.err))
		}
		recorded = append(recorded, fr)
	}
	cid := advCid
	if acc, ok := decodeAs[handshake.MessageAccept](recorded[0][3].B); ok {
		cid = acc.ID // the id of the first recorded (still live) connection
	}
	fj, ja, jb := execJoin(jpairCase{A: ini, B: acc, Cid: cid})
	if ja.err != nil || jb.err != nil {
		panic("recording join failed")
	}
	recorded = append(recorded, fj)
	po, to := ini, acc
	po.Cookie, to.Cookie = c.Other, c.Other
	fo, _, _ := execPair(pairCase{A: po, B: to, Pool: 3})
	recorded = append(recorded, fo)

	run := execAdv(c, recorded, cid)
	// the known finding, narrowly: the accepted frame is a Join whose (ConnectionID, Salt, Digest) is
	// verbatim the one of the recorded honest Join (only the unauthenticated Node field may differ)
	if c.Role == "accept" && run.res.err == nil && len(run.sent) > 0 {
		j, ok1 := decodeAs[handshake.MessageJoin](run.sent[0])
		rj, ok2 := decodeAs[handshake.MessageJoin](fj[0].B)
		if ok1 && ok2 && j.ConnectionID == rj.ConnectionID && j.Salt == rj.Salt && j.Digest == rj.Digest {
			run.tags = append(run.tags, "join-replay")
		}
	}

	// abstraction: recorded sessions first (salt numbers 10*s+1, 10*s+2, id 10*s+3)
	a := newAbstractor()
	a.bindParties(c.Target)
	a.bind(cookieStrings[c.Other], &term{K: "cookie", N: c.Other})
	a.bind("mallory@evil", &term{K: "str", N: 66})
	var known []*term
	known = append(known, &term{K: "cookie", N: c.Other})
	for s, fr := range recorded {
		for _, f := range fr {
			side := 2
			if f.FromInit {
				side = 1
			}
			s, side := s, side
			m := a.absBytes(f.B, func() *term { return &term{K: "salt", N: 10*(s+1) + side} }, func() *term { return &term{K: "salt", N: 10*(s+1) + 3} })
			known = append(known, m.terms...)
		}
	}
	var outs, ins []string
	// the target's own frames: salt 901, connection id 902
	absOut := make([]absMsg, len(run.out))
	for i, b := range run.out {
		absOut[i] = a.absBytes(b, func() *term { return &term{K: "salt", N: 901} }, func() *term { return &term{K: "salt", N: 902} })
		outs = append(outs, absOut[i].coq)
	}
	for _, b := range run.sent {
		m := a.absBytes(b, a.freshOpaque, a.freshOpaque)
		ins = append(ins, m.coq)
	}
	var ks []string
	for _, t := range known {
		ks = append(ks, coqT(t))
	}
	role := "RAccept"
	res := a.absResult(run.res.res, run.res.err, run.res.err == nil && isJoinResult(run.res.res))
	switch c.Role {
	case "start":
		role = "RStart"
	case "join":
		cidT := a.atoms[cid]
		role = fmt.Sprintf("(RJoin (%s))", coqT(cidT))
		if run.res.err == nil {
			res = "OJoined (Str 0) (Str 0)"
		}
	}
	s := fmt.Sprintf("mk_acase %s %s 3%%Z 901 902 [%s] [%s] [%s] (%s)", role, c.Target.coq(), strings.Join(ks, "; "),
		strings.Join(ins, "; "), strings.Join(outs, "; "), res)
	return s, run, a
}

func runAdv(n int, out, replay string) {
	o := util.NewOut("hs.adv")
	var cases []advCase
	if replay != "" {
		var c advCase
		loadReplay(replay, &c)
		cases = append(cases, c)
	} else {
		cases = genAdvCases(util.Rng(17), n, n >= 3000)
	}
	for i, c := range cases {
		s, run, _ := runAdvCase(c)
		c.Tags = run.tags
		o.Add(s, c)
		o.Stats["class:"+c.Class]++
		o.Stats["role:"+c.Role]++
		o.Stats["delivered-frames"] += len(run.sent)
		if run.res.err == nil {
			o.Stats["accepted"]++
			o.Stats["accepted:"+c.Class]++
			// direct monitor: the adversary never had the cookie, so any acceptance violates the property
			o.Monitor = append(o.Monitor, util.MonitorFail{Case: i, What: fmt.Sprintf("a peer that does not know the cookie completed the handshake (%s, class %s): result peer=%q id=%q", c.Role, c.Class, run.res.res.Peer, run.res.res.ConnectionID)})
		} else {
			o.Stats["rejected:"+errClass(run.res.err)]++
			if strings.HasPrefix(run.res.err.Error(), "PANIC") {
				o.Notes = append(o.Notes, fmt.Sprintf("case %d: %v", i, run.res.err))
			}
		}
	}
	o.Write(out)
}
