package main

import (
	"fmt"
	"math/rand"
	"strings"
	"sync"

	"ergo.services/ergo"
	"ergo.services/ergo/act"
	"ergo.services/ergo/gen"
	"ergo.services/ergo/node"
	"verifharness/util"
)

type tabOp struct {
	Enable bool  `json:"enable"`
	Name   int   `json:"name"`
	Fid    int   `json:"fid"`
	Nodes  []int `json:"nodes"`
}

type tabCase struct {
	Kind string   `json:"kind"` // spawn | app
	Ops  []tabOp  `json:"ops"`
	Tags []string `json:"tags,omitempty"`
}

type behA struct{ act.Actor }
type behB struct{ act.Actor }

func factoryA() gen.ProcessBehavior { return &behA{} }
func factoryB() gen.ProcessBehavior { return &behB{} }

var (
	tabNodeOnce sync.Once
	tabNode     gen.Node
)

func theTabNode() gen.Node {
	tabNodeOnce.Do(func() {
		opts := gen.NodeOptions{}
		opts.Network.Mode = gen.NetworkModeDisabled
		opts.Log.DefaultLogger.Disable = true
		n, err := ergo.StartNode("verifhstab@localhost", opts)
		if err != nil {
			panic(err)
		}
		tabNode = n
	})
	return tabNode
}

func peerAtom(i int) gen.Atom { return gen.Atom(fmt.Sprintf("peer%d@host", i)) }

func genTabCase(r *rand.Rand) tabCase {
	c := tabCase{Kind: []string{"spawn", "app"}[r.Intn(2)]}
	n := 1 + r.Intn(8)
	for i := 0; i < n; i++ {
		op := tabOp{Enable: r.Intn(5) < 3, Name: 1 + r.Intn(5)/3}
		if r.Intn(6) == 0 {
			op.Name = 3
		}
		if c.Kind == "spawn" && op.Enable {
			op.Fid = 1
			if r.Intn(6) == 0 {
				op.Fid = 2
			}
		}
		switch r.Intn(4) {
		case 0: // no nodes: "any node" / remove the name
		default:
			k := 1 + r.Intn(3)
			for j := 0; j < k; j++ {
				op.Nodes = append(op.Nodes, 1+r.Intn(4))
			}
		}
		c.Ops = append(c.Ops, op)
	}
	return c
}

func nlist(l []int) string {
	p := make([]string, len(l))
	for i, v := range l {
		p[i] = fmt.Sprint(v)
	}
	return "[" + strings.Join(p, "; ") + "]"
}

var tabSeq int

func execTabCase(c tabCase) string {
	n := theTabNode()
	tabSeq++
	nameAtom := func(k int) gen.Atom { return gen.Atom(fmt.Sprintf("t%d_name%d", tabSeq, k)) }
	var hist, res []string
	for _, op := range c.Ops {
		var nodes []gen.Atom
		for _, p := range op.Nodes {
			nodes = append(nodes, peerAtom(p))
		}
		var err error
		switch {
		case c.Kind == "spawn" && op.Enable:
			f := factoryA
			if op.Fid == 2 {
				f = factoryB
			}
			err = n.Network().EnableSpawn(nameAtom(op.Name), f, nodes...)
		case c.Kind == "spawn":
			err = n.Network().DisableSpawn(nameAtom(op.Name), nodes...)
		case op.Enable:
			err = n.Network().EnableApplicationStart(nameAtom(op.Name), nodes...)
		default:
			err = n.Network().DisableApplicationStart(nameAtom(op.Name), nodes...)
		}
		if op.Enable {
			hist = append(hist, fmt.Sprintf("Enable %d %d %s", op.Name, op.Fid, nlist(op.Nodes)))
		} else {
			hist = append(hist, fmt.Sprintf("Disable %d %s", op.Name, nlist(op.Nodes)))
		}
		switch err {
		case nil:
			res = append(res, "TOk")
		case gen.ErrUnknown:
			res = append(res, "TErrUnknown")
		default:
			res = append(res, "TErrOther")
		}
	}
	var qs []string
	for name := 1; name <= 3; name++ {
		for _, peer := range []int{1, 2, 3, 4, 9} {
			var err error
			fid := 0
			if c.Kind == "spawn" {
				var typ string
				typ, err = node.VerifSpawnAccess(n, nameAtom(name), peerAtom(peer))
				switch typ {
				case "*main.behA":
					fid = 1
				case "*main.behB":
					fid = 2
				}
			} else {
				err = node.VerifApplicationStartAccess(n, nameAtom(name), peerAtom(peer))
			}
			acc := ""
			switch err {
			case nil:
				acc = fmt.Sprintf("(AAllowed %d)", fid)
			case gen.ErrNameUnknown:
				acc = "AUnknown"
			case gen.ErrNotAllowed:
				acc = "ADenied"
			default:
				panic(fmt.Sprintf("unexpected access error %v", err))
			}
			qs = append(qs, fmt.Sprintf("mk_tquery %d %d %s", name, peer, acc))
		}
	}
	return fmt.Sprintf("mk_tcase [%s] [%s] [%s]", strings.Join(hist, "; "), strings.Join(res, "; "), strings.Join(qs, "; "))
}

func runTab(n int, out, replay string) {
	o := util.NewOut("hs.tab")
	var cases []tabCase
	if replay != "" {
		var c tabCase
		loadReplay(replay, &c)
		cases = append(cases, c)
	} else {
		// the histories named in the findings first
		for _, k := range []string{"spawn", "app"} {
			cases = append(cases,
				tabCase{Kind: k, Ops: []tabOp{{true, 1, b2i(k == "spawn"), []int{1}}, {false, 1, 0, []int{1}}}},
				tabCase{Kind: k, Ops: []tabOp{{true, 1, b2i(k == "spawn"), []int{1, 2}}, {false, 1, 0, []int{1}}, {false, 1, 0, []int{2}}}},
				tabCase{Kind: k, Ops: []tabOp{{true, 1, b2i(k == "spawn"), nil}, {true, 1, b2i(k == "spawn"), []int{2}}}},
				tabCase{Kind: k, Ops: []tabOp{{true, 1, b2i(k == "spawn"), nil}, {false, 1, 0, []int{2}}}},
				tabCase{Kind: k, Ops: []tabOp{{true, 1, b2i(k == "spawn"), []int{1}}, {false, 1, 0, nil}, {true, 1, b2i(k == "spawn"), []int{2}}}},
			)
		}
		r := util.Rng(18)
		for len(cases) < n {
			cases = append(cases, genTabCase(r))
		}
	}
	for _, c := range cases {
		s := execTabCase(c)
		o.Add(s, c)
		o.Stats["kind:"+c.Kind]++
		o.Stats["ops"] += len(c.Ops)
		o.Stats["granted-queries"] += strings.Count(s, "AAllowed")
		o.Stats["denied-queries"] += strings.Count(s, "ADenied")
		o.Stats["unknown-queries"] += strings.Count(s, "AUnknown")
	}
	o.Write(out)
}

func b2i(b bool) int {
	if b {
		return 1
	}
	return 0
}
