package main

// The encodeType flag protocol (net/edf/encode.go encodeAny, register.go regEncoder and the
// container encoders): encodeAny sets state.encodeType = true on the state it is given and never
// restores it, so every container encoder has to reset the flag before the next key / value /
// field / item; containers work on state.child, which SIBLING containers of one parent share.
// The types below put an interface-typed component next to a concrete-typed sibling in every
// registered container kind, in both orders, and a container of interfaces next to a registered
// container of concrete elements (the sibling leaves state.child with the flag set).

import (
	"encoding/json"
	"fmt"
	"os"
	"path/filepath"

	"ergo.services/ergo/gen"
)

// registered maps: interface key / concrete value and the other way round
type FMapAnyI8 map[any]int8
type FMapAnyStr map[any]string
type FMapAnyPt map[any]HPoint
type FMapAnyL map[any][]int16
type FMapErrI16 map[error]int16
type FMapStrAny map[string]any
type FMapAtomErr map[gen.Atom]error
type FMapAnyAny map[any]any

// registered slices / arrays of interfaces, and of concrete elements
type FAnyArr [2]any
type FErrList []error
type FI16List []int16
type FStrArr [2]string
type FPtList []HPoint

// registered structs: an interface-typed field FOLLOWED by concrete-typed fields
type FAnyThen struct {
	A  any
	S  string
	I  int
	I8 int8
	B  bool
	At gen.Atom
	P  HPoint
	L  []int16
}
type FErrThen struct {
	E  error
	S  string
	U  uint16
	B  bool
	At gen.Atom
	P  HPoint
	L  []string
}
type FAlt struct {
	A  any
	I8 int8
	B  any
	S  string
	E  error
	U8 uint8
	C  any
}
type FThenAny struct {
	S string
	I int32
	A any
	E error
}

// containers of interfaces followed by registered containers of concrete elements: the siblings use
// the same state.child
type FAfterL struct { // smallest witness for the registered slice loop
	G []any
	L FI16List
}
type FAfterA struct { // ... and the registered array loop
	G []any
	A FStrArr
}
type FSib struct {
	G  []any
	L  HList
	RA FAnyArr
	Ar HArr
	GM map[string]any
	M  HMap
	RL HAnyList
	L2 FI16List
	RM FMapStrAny
	M2 FMapAnyI8
	SA FStrArr
	PL FPtList
}
type FSib2 struct {
	RL HAnyList
	L  FI16List
	RA FAnyArr
	SA FStrArr
	GA [1]any
	Ar HArr
	RM FMapAnyAny
	M  HMap
}
type FNest struct {
	X FAnyThen
	N int8
	Y FSib2
	Z FAlt
	T string
	W FMapAnyI8
	V FThenAny
}

var flagValues = []any{FMapAnyI8{}, FMapAnyStr{}, FMapAnyPt{}, FMapAnyL{}, FMapErrI16{}, FMapStrAny{}, FMapAtomErr{}, FMapAnyAny{},
	FAnyArr{}, FErrList{}, FI16List{}, FStrArr{}, FPtList{},
	FAnyThen{}, FErrThen{}, FAlt{}, FThenAny{}, FAfterL{}, FAfterA{}, FSib{}, FSib2{}, FNest{}}

var flagShorts []string // filled by registerAll

// ---- builders of model values ----
func vInt(i int64) *V      { return &V{K: "int", I: i} }
func vUint(u uint64) *V    { return &V{K: "uint", U: u} }
func vStr(s string) *V     { return &V{K: "bytes", S: []byte(s)} }
func vBool(b bool) *V      { return &V{K: "bool", B: b} }
func vList(l ...*V) *V     { return &V{K: "list", L: append([]*V{}, l...)} }
func vMap(kv ...[2]*V) *V  { return &V{K: "map", M: append([][2]*V{}, kv...)} }
func vAny(t *T, x *V) *V   { return &V{K: "any", T: t, X: x} }
func vErr(s string) *V     { return &V{K: "err", S: []byte(s)} }
func tPrim(p string) *T    { return &T{K: "prim", P: p} }
func tReg(n string) *T     { return &T{K: "reg", Name: n} }
func tSlice(e *T) *T       { return &T{K: "slice", E: e} }
func tArr(n int, e *T) *T  { return &T{K: "array", N: n, E: e} }
func tMap(k, e *T) *T      { return &T{K: "map", Key: k, E: e} }
func vPoint(x, y int64) *V { return vList(vInt(x), vInt(y)) }

var vAnyNil = &V{K: "anynil"}
var vErrNil = &V{K: "errnil"}
var tAny = &T{K: "any"}

// one deterministic value per flag type and per "interface values are nil / non-nil";
// iface(t, x) is the interface value to use: nil interface when nilIface
func flagValue(short string, nilIface bool) *V {
	iface := func(t *T, x *V) *V {
		if nilIface {
			return vAnyNil
		}
		return vAny(t, x)
	}
	ierr := func(s string) *V {
		if nilIface {
			return vErrNil
		}
		return vErr(s)
	}
	i8, str, i16 := tPrim("PInt8"), tPrim("PString"), tPrim("PInt16")
	switch short {
	case "FMapAnyI8":
		// the seeded change's witness: seedMapAnyInt8{"k":5}
		return vMap([2]*V{iface(str, vStr("k")), vInt(5)})
	case "FMapAnyStr":
		return vMap([2]*V{iface(tPrim("PInt"), vInt(7)), vStr("seven")})
	case "FMapAnyPt":
		return vMap([2]*V{iface(tPrim("PAtom"), vStr("abc")), vPoint(-1, 2)})
	case "FMapAnyL":
		return vMap([2]*V{iface(tPrim("PBool"), vBool(true)), vList(vInt(1), vInt(-2))})
	case "FMapErrI16":
		return vMap([2]*V{ierr("key error"), vInt(300)})
	case "FMapStrAny":
		return vMap([2]*V{vStr("a"), iface(i8, vInt(-3))}, [2]*V{vStr("b"), iface(str, vStr("x"))})
	case "FMapAtomErr":
		return vMap([2]*V{vStr("abc"), ierr("e1")}, [2]*V{vStr("x"), ierr("e2")})
	case "FMapAnyAny":
		return vMap([2]*V{vAny(str, vStr("k1")), iface(i8, vInt(1))}, [2]*V{vAny(tPrim("PInt"), vInt(2)), iface(tReg("HPoint"), vPoint(3, 4))})
	case "FAnyArr":
		return vList(iface(i16, vInt(-2)), iface(tReg("HList"), vList(vInt(9))))
	case "FErrList":
		return vList(ierr("first"), ierr(""), vErr("100%d"))
	case "FI16List":
		return vList(vInt(1), vInt(-32768), vInt(3))
	case "FStrArr":
		return vList(vStr(""), vStr("second"))
	case "FPtList":
		return vList(vPoint(1, 2), vPoint(-3, -4))
	case "FAnyThen":
		return vList(iface(tSlice(i8), vList(vInt(1), vInt(2))), vStr("after"), vInt(-77), vInt(5), vBool(true), vStr("abc"), vPoint(10, -20), vList(vInt(7), vInt(8)))
	case "FErrThen":
		return vList(ierr("boom"), vStr("after"), vUint(65535), vBool(false), vStr("x"), vPoint(0, 1), vList(vStr("p"), vStr("")))
	case "FAlt":
		return vList(iface(tPrim("PUint8"), vUint(200)), vInt(-128), iface(tReg("HPoint"), vPoint(1, 1)), vStr("mid"), ierr("alt"), vUint(255), iface(tMap(str, i8), vMap([2]*V{vStr("m"), vInt(1)})))
	case "FThenAny":
		return vList(vStr("first"), vInt(-5), iface(tPrim("PBool"), vBool(false)), ierr("last"))
	case "FAfterL":
		return vList(vList(iface(str, vStr("x"))), vList(vInt(7)))
	case "FAfterA":
		return vList(vList(iface(str, vStr("x"))), vList(vStr("p"), vStr("q")))
	case "FSib":
		return vList(
			vList(iface(i8, vInt(1)), iface(str, vStr("g"))),                             // G []any
			vList(vInt(100), vInt(-100)),                                                 // L HList
			flagValue("FAnyArr", nilIface),                                               // RA
			vList(vUint(1), vUint(2), vUint(65535)),                                      // Ar HArr
			vMap([2]*V{vStr("gm"), iface(i16, vInt(-1))}),                                // GM map[string]any
			vMap([2]*V{vStr("pt"), vPoint(5, 6)}),                                        // M HMap
			vList(iface(tPrim("PAtom"), vStr("abc")), iface(tPrim("PUint16"), vUint(7))), // RL HAnyList
			flagValue("FI16List", nilIface),                                              // L2
			flagValue("FMapStrAny", nilIface),                                            // RM
			flagValue("FMapAnyI8", false),                                                // M2 (a nil interface is a fine key too, but keep the witness)
			flagValue("FStrArr", nilIface),                                               // SA
			flagValue("FPtList", nilIface))                                               // PL
	case "FSib2":
		return vList(
			vList(iface(i8, vInt(-1))),                // RL HAnyList
			flagValue("FI16List", nilIface),           // L
			flagValue("FAnyArr", nilIface),            // RA
			flagValue("FStrArr", nilIface),            // SA
			vList(iface(tPrim("PBool"), vBool(true))), // GA [1]any
			vList(vUint(3), vUint(2), vUint(1)),       // Ar HArr
			flagValue("FMapAnyAny", nilIface),         // RM
			vMap([2]*V{vStr("k"), vPoint(-9, 9)}))     // M HMap
	case "FNest":
		return vList(flagValue("FAnyThen", nilIface), vInt(-1), flagValue("FSib2", nilIface), flagValue("FAlt", nilIface), vStr("t"),
			flagValue("FMapAnyI8", nilIface), flagValue("FThenAny", nilIface))
	}
	panic("flagValue " + short)
}

// deterministic cases: every flag type x {non-nil, nil interface values} x {no reg cache, reg cache} x
// {top level, element of a generic slice / array / map, dynamic value of an interface inside []any,
//
//	field of FNest}
func flagCorpus() []Case {
	var cs []Case
	str := tPrim("PString")
	for _, short := range flagShorts {
		for _, nilIface := range []bool{false, true} {
			v := flagValue(short, nilIface)
			t := tReg(short)
			nn := "nonnil"
			if nilIface {
				nn = "nil"
			}
			for ci, o := range []Opts{{}, {HasRegCache: true, RegCache: []RegCacheEnt{{Short: short, ID: 4096}, {Short: "HPoint", ID: 4097}, {Short: "HList", ID: 40000}}},
				{UseCache: true}} {
				on := []string{"plain", "regcache", "cache"}[ci]
				add := func(pos string, ct *T, cv *V) {
					cs = append(cs, Case{Label: fmt.Sprintf("flag-%s-%s-%s-%s", short, nn, on, pos), Opts: o, T: ct, V: cv})
				}
				if nilIface && ci != 0 {
					continue
				}
				add("top", t, v)
				if ci == 2 {
					continue
				}
				// twice in a row: the second copy starts from the state the first one left behind
				add("any", tSlice(tAny), vList(vAny(tPrim("PInt8"), vInt(1)), vAny(t, v), vAny(t, v), vAny(str, vStr("z"))))
				if ci == 1 {
					continue
				}
				add("slice", tSlice(t), vList(v, v))
				if nilIface {
					continue
				}
				add("array", tArr(2, t), vList(v, v))
				add("map", tMap(str, t), vMap([2]*V{vStr("only"), v}))
				add("mapany", tMap(tAny, t), vMap([2]*V{vAny(str, vStr("dyn")), v}))
			}
		}
	}
	return cs
}

func writeFlagCorpus(dir string) {
	for _, c := range flagCorpus() {
		c.Tags = []string{}
		b, err := json.MarshalIndent(map[string]any{"property": "C11",
			"note": "encodeType reset discipline: interface-typed and concrete-typed siblings in a registered container", "case": c}, "", " ")
		if err != nil {
			panic(err)
		}
		if err := os.WriteFile(filepath.Join(dir, c.Label+".json"), b, 0o644); err != nil {
			panic(err)
		}
	}
}

// ---- random cases of the same family ----
func (g *genCfg) flagCase() Case {
	r := g.r
	short := flagShorts[r.Intn(len(flagShorts))]
	t := tReg(short)
	switch r.Intn(9) {
	case 0:
		t = tSlice(t)
	case 1:
		t = tArr(1+r.Intn(2), t)
	case 2:
		t = tMap(g.genKeyType(), t)
	case 3:
		t = tSlice(tAny)
	case 4:
		t = tMap(tPrim("PString"), tAny)
	}
	o := g.genOpts()
	if r.Intn(2) == 0 {
		// reg cache that carries the type itself
		o.HasRegCache = true
		has := false
		for _, e := range o.RegCache {
			if e.Short == short {
				has = true
			}
		}
		if !has && len(o.RegCache) < len(regIDs) {
			used := map[uint16]bool{}
			for _, e := range o.RegCache {
				used[e.ID] = true
			}
			for _, id := range regIDs {
				if !used[id] {
					o.RegCache = append(o.RegCache, RegCacheEnt{Short: short, ID: id})
					break
				}
			}
		}
	}
	c := Case{Label: "flag-random", T: t, Opts: o}
	if t.K == "slice" && t.E.K == "any" || t.K == "map" && t.E.K == "any" {
		// interfaces holding values of the flag types (and others)
		ft := tReg(short)
		mk := func() *V {
			switch r.Intn(4) {
			case 0:
				return vAnyNil
			case 1:
				return g.genVal(tAny, 2, "inner")
			}
			return vAny(ft, g.genVal(ft, 2, "any"))
		}
		if t.K == "slice" {
			c.V = vList()
			for i, k := 0, 1+r.Intn(3); i < k; i++ {
				c.V.L = append(c.V.L, mk())
			}
		} else {
			c.V = vMap()
			for i, k := 0, 1+r.Intn(2); i < k; i++ {
				c.V.M = append(c.V.M, [2]*V{vStr(fmt.Sprintf("k%d", i)), mk()})
			}
		}
		return c
	}
	c.V = g.genVal(t, 0, "top")
	return c
}
