// Family `negotiated` (C11): two nodes with DIFFERENT registries.  Each node announces its tables in a
// real handshake.MessageIntroduce sent through the handshake's own framing (EDF-encoded, net.Pipe);
// the caches are built by the real net/handshake helpers (build-tag export VerifCaches) from the node's
// own table and the table received from the peer; values are encoded with node A's encode caches and
// decoded with node B's decode caches.
package main

import (
	"encoding/hex"
	"encoding/json"
	"errors"
	"fmt"
	"net"
	"os"
	"reflect"
	"sort"
	"strings"
	"sync"
	"time"

	"ergo.services/ergo/gen"
	"ergo.services/ergo/lib"
	"ergo.services/ergo/net/edf"
	"ergo.services/ergo/net/handshake"
	"verifharness/util"
)

// the texts sentinel errors are made of; entries 6 and 7 carry the same text (two different sentinel
// objects a node may register both; node B never does - its text -> sentinel map must be a function)
var negTexts = []string{"timed out", "unknown process", "normal", "neg sentinel A", "neg 100% sentinel %d", "",
	"dup text", "dup text", strings.Repeat("L", 300), "only sometimes", "zz"}

var sentA, sentB []error

type RegEnt struct {
	Sent int    `json:"sent"` // index into negTexts (= the node's sentinel object of that text)
	ID   uint16 `json:"id"`
}

type Nego struct {
	Kind    string         `json:"kind"`
	TA      []RegEnt       `json:"ta"` // node A's registry, registration order
	TB      []RegEnt       `json:"tb"`
	Atoms   []AtomCacheEnt `json:"atoms,omitempty"` // node A's atom table
	RegFull bool           `json:"reg_full"`        // node A announces edf.GetRegCache()
	Regs    []string       `json:"regs,omitempty"`  // otherwise: these names of it
	BAtoms  []AtomCacheEnt `json:"b_atoms,omitempty"`
	Cache   bool           `json:"cache"`
}

type NegCase struct {
	Label string   `json:"label"`
	Neg   Nego     `json:"neg"`
	T     *T       `json:"t"`
	V     *V       `json:"v"`
	Tags  []string `json:"tags"`
}

func (g *genCfg) registry(sel []int, base int) []RegEnt {
	var out []RegEnt
	for i, s := range sel {
		out = append(out, RegEnt{Sent: s, ID: uint16(base + i)})
	}
	return out
}

func (g *genCfg) errBase(n int) int {
	switch g.r.Intn(6) {
	case 0:
		return 65534 - n + 1 // the last ids addErrCache hands out
	case 1:
		return 32768 + 1 + g.r.Intn(20) // the node registered other errors before
	}
	return 32768
}

func noDupPair(sel []int) []int {
	var out []int
	seen7 := false
	for _, s := range sel {
		if s == 6 || s == 7 {
			if seen7 {
				continue
			}
			seen7 = true
		}
		out = append(out, s)
	}
	return out
}

func (g *genCfg) genNego() Nego {
	r := g.r
	n := len(negTexts)
	var ng Nego
	permA, permB := r.Perm(n), r.Perm(n)
	ka, kb := 1+r.Intn(n), 1+r.Intn(n)
	switch k := r.Intn(10); k {
	case 0:
		ng.Kind = "same-order"
		permB = append([]int{}, permA...)
		kb = ka
	case 1:
		ng.Kind = "reversed"
		kb = ka
		permB = make([]int, n)
		for i := 0; i < ka; i++ {
			permB[i] = permA[ka-1-i]
		}
	case 2:
		ng.Kind = "disjoint"
		ka = 1 + r.Intn(n/2)
		kb = 1 + r.Intn(n/2)
		permB = append([]int{}, permA[n/2:]...)
	case 3:
		ng.Kind = "b-empty"
		kb = 0
	case 4:
		ng.Kind = "a-empty"
		ka = 0
	case 5:
		ng.Kind = "rotated" // same set, ids shifted by one: every id means another text on the peer
		kb = ka
		permB = make([]int, n)
		for i := 0; i < ka; i++ {
			permB[i] = permA[(i+1)%ka]
		}
	default:
		ng.Kind = "overlap"
	}
	selA, selB := permA[:ka], noDupPair(permB[:kb])
	ng.TA = g.registry(selA, g.errBase(len(selA)))
	ng.TB = g.registry(selB, g.errBase(len(selB)))
	if ng.Kind == "same-order" || ng.Kind == "reversed" || ng.Kind == "rotated" {
		// identical id ranges: the same numeric ids mean different texts on the two nodes
		ng.TB = g.registry(selB, int(ng.TA[0].ID))
	}
	if r.Intn(3) > 0 {
		cands := [][]byte{[]byte("node@localhost"), []byte("abc"), []byte(""), []byte("src-0"), rep('a', 255), []byte("x"), []byte("registered_name")}
		pa := r.Perm(len(cands))
		k := 1 + r.Intn(len(cands))
		base := 256 + r.Intn(3)*1000
		for i := 0; i < k; i++ {
			ng.Atoms = append(ng.Atoms, AtomCacheEnt{Atom: string(cands[pa[i]]), ID: uint16(base + i)})
		}
		// node B's own atom table: same atoms under other ids (must not matter for this direction)
		pb := r.Perm(len(cands))
		for i := 0; i < 1+r.Intn(len(cands)); i++ {
			ng.BAtoms = append(ng.BAtoms, AtomCacheEnt{Atom: string(cands[pb[i]]), ID: uint16(256 + i)})
		}
	}
	switch r.Intn(4) {
	case 0:
	case 1:
		for _, rt := range regTypes {
			if r.Intn(2) == 0 {
				ng.Regs = append(ng.Regs, rt.Name)
			}
		}
	default:
		ng.RegFull = true
	}
	ng.Cache = r.Intn(3) == 0
	return ng
}

// the type of a negotiated case: mostly types with error / atom / registered components
func (g *genCfg) genNegType() *T {
	r := g.r
	pe := &T{K: "prim", P: "PError"}
	switch r.Intn(14) {
	case 0, 1, 2:
		return pe
	case 3:
		return &T{K: "slice", E: pe}
	case 4:
		return &T{K: "reg", Name: "HRec"}
	case 5:
		return &T{K: "reg", Name: "HMsg"}
	case 6:
		return &T{K: "slice", E: &T{K: "any"}}
	case 7:
		return &T{K: "map", Key: &T{K: "prim", P: "PString"}, E: pe}
	case 8:
		return &T{K: "array", N: 3, E: pe}
	case 9:
		return &T{K: "prim", P: []string{"PAtom", "PPid", "PEvent", "PAlias"}[r.Intn(4)]}
	case 10:
		return &T{K: "reg", Name: regTypes[r.Intn(len(regTypes))].Short}
	}
	for {
		t := g.genType(0, false)
		if t.K != "any" {
			return t
		}
	}
}

// sliceAny elements for case 6 are produced by genVal (dynamic types chosen at random); make errors
// frequent inside interfaces too
func (g *genCfg) genNegVal(t *T) *V {
	if t.K == "slice" && t.E.K == "any" && g.r.Intn(2) == 0 {
		out := &V{K: "list", L: []*V{}}
		pe := &T{K: "prim", P: "PError"}
		for i := 0; i < 1+g.r.Intn(3); i++ {
			out.L = append(out.L, &V{K: "any", T: pe, X: g.genPrim("PError", "any")})
		}
		return out
	}
	return g.genVal(t, 0, "top")
}

type negRun struct {
	eo, do    edf.Options
	introAatB handshake.MessageIntroduce
	encCache  string
	decCache  string
	decAtoms  string
	decRegs   string
	coqNego   string
	cachedA   map[int]bool
	textToB   map[string]int
	err       error
}

func exchange(m handshake.MessageIntroduce) (handshake.MessageIntroduce, error) {
	c1, c2 := net.Pipe()
	defer c1.Close()
	defer c2.Close()
	werr := make(chan error, 1)
	go func() { werr <- handshake.VerifWriteMessage(c1, m) }()
	v, _, err := handshake.VerifReadMessage(c2, 2*time.Second, nil)
	if err != nil {
		return handshake.MessageIntroduce{}, err
	}
	if e := <-werr; e != nil {
		return handshake.MessageIntroduce{}, e
	}
	got, ok := v.(handshake.MessageIntroduce)
	if !ok {
		return handshake.MessageIntroduce{}, fmt.Errorf("not a MessageIntroduce: %T", v)
	}
	return got, nil
}

func indexOf(l []error, e error) int {
	for i, s := range l {
		if s == e {
			return i
		}
	}
	return -1
}

func coqNames(l []AtomCacheEnt) string {
	var p []string
	for _, a := range l {
		p = append(p, fmt.Sprintf("(%d, %s)", a.ID, coqBytes([]byte(a.Atom))))
	}
	return "[" + strings.Join(p, "; ") + "]"
}

func coqETable(t []RegEnt) string {
	s := append([]RegEnt{}, t...)
	sort.Slice(s, func(i, j int) bool { return s[i].ID < s[j].ID })
	var p []string
	for _, e := range s {
		p = append(p, fmt.Sprintf("(%d, %d, %s)", e.Sent, e.ID, coqBytes([]byte(negTexts[e.Sent]))))
	}
	return "[" + strings.Join(p, "; ") + "]"
}

func setup(ng Nego) *negRun {
	run := &negRun{cachedA: map[int]bool{}, textToB: map[string]int{}}
	introA := handshake.MessageIntroduce{Node: "a@localhost", Creation: 1, Digest: "d"}
	introB := handshake.MessageIntroduce{Node: "b@localhost", Creation: 2, Digest: "d"}
	if len(ng.TA) > 0 {
		introA.ErrCache = map[uint16]error{}
		for _, e := range ng.TA {
			introA.ErrCache[e.ID] = sentA[e.Sent]
			run.cachedA[e.Sent] = true
		}
	}
	if len(ng.TB) > 0 {
		introB.ErrCache = map[uint16]error{}
		for _, e := range ng.TB {
			introB.ErrCache[e.ID] = sentB[e.Sent]
			run.textToB[negTexts[e.Sent]] = e.Sent
		}
	}
	if len(ng.Atoms) > 0 {
		introA.AtomCache = map[uint16]gen.Atom{}
		for _, a := range ng.Atoms {
			introA.AtomCache[a.ID] = gen.Atom(a.Atom)
		}
	}
	if len(ng.BAtoms) > 0 {
		introB.AtomCache = map[uint16]gen.Atom{}
		for _, a := range ng.BAtoms {
			introB.AtomCache[a.ID] = gen.Atom(a.Atom)
		}
	}
	full := edf.GetRegCache()
	var regsA []AtomCacheEnt // (id, name) pairs, reusing the pair type
	if ng.RegFull {
		introA.RegCache = full
	} else if len(ng.Regs) > 0 {
		introA.RegCache = map[uint16]string{}
		for id, name := range full {
			for _, want := range ng.Regs {
				if want == name {
					introA.RegCache[id] = name
				}
			}
		}
	}
	introB.RegCache = full
	for id, name := range introA.RegCache {
		regsA = append(regsA, AtomCacheEnt{Atom: name, ID: id})
	}
	sort.Slice(regsA, func(i, j int) bool { return regsA[i].ID < regsA[j].ID })

	// the tables cross the wire in the handshake's own framing
	aAtB, err := exchange(introA)
	if err != nil {
		run.err = fmt.Errorf("intro A->B: %v", err)
		return run
	}
	bAtA, err := exchange(introB)
	if err != nil {
		run.err = fmt.Errorf("intro B->A: %v", err)
		return run
	}
	run.introAatB = aAtB
	optsA := handshake.VerifCaches(introA, bAtA)
	optsB := handshake.VerifCaches(introB, aAtB)
	run.eo = edf.Options{AtomCache: optsA.EncodeAtomCache, RegCache: optsA.EncodeRegCache, ErrCache: optsA.EncodeErrCache}
	run.do = edf.Options{AtomCache: optsB.DecodeAtomCache, RegCache: optsB.DecodeRegCache, ErrCache: optsB.DecodeErrCache}
	if ng.Cache {
		run.eo.Cache, run.do.Cache = new(sync.Map), new(sync.Map)
	}

	// dumps of the real caches, sorted by id
	type ent struct {
		k  int
		t  string
		id uint16
	}
	dump := func(l []ent) string {
		sort.Slice(l, func(i, j int) bool { return l[i].id < l[j].id })
		var p []string
		for _, e := range l {
			p = append(p, fmt.Sprintf("(%d, %s, %d)", e.k, coqBytes([]byte(e.t)), e.id))
		}
		return "[" + strings.Join(p, "; ") + "]"
	}
	var encL, decL []ent
	if optsA.EncodeErrCache != nil {
		optsA.EncodeErrCache.Range(func(k, v any) bool {
			i := indexOf(sentA, k.(error))
			if i < 0 {
				i = 999999
			}
			encL = append(encL, ent{i, k.(error).Error(), v.(uint16)})
			return true
		})
	}
	if optsB.DecodeErrCache != nil {
		optsB.DecodeErrCache.Range(func(k, v any) bool {
			id := k.(uint16)
			e := v.(error)
			i := indexOf(sentB, e)
			if i < 0 {
				if ae, ok := aAtB.ErrCache[id]; ok && ae == e {
					i = 1000000 + int(id) // the object the intro decoder made for this id
				} else {
					i = 999999
				}
			}
			decL = append(decL, ent{i, e.Error(), id})
			return true
		})
	}
	run.encCache, run.decCache = dump(encL), dump(decL)
	names := func(m *sync.Map) string {
		var l []AtomCacheEnt
		if m != nil {
			m.Range(func(k, v any) bool {
				name := ""
				switch x := v.(type) {
				case gen.Atom:
					name = string(x)
				case string:
					name = x
				}
				l = append(l, AtomCacheEnt{Atom: name, ID: k.(uint16)})
				return true
			})
		}
		sort.Slice(l, func(i, j int) bool { return l[i].ID < l[j].ID })
		var p []string
		for _, a := range l {
			p = append(p, fmt.Sprintf("(%s, %d)", coqBytes([]byte(a.Atom)), a.ID))
		}
		return "[" + strings.Join(p, "; ") + "]"
	}
	run.decAtoms, run.decRegs = names(optsB.DecodeAtomCache), names(optsB.DecodeRegCache)

	atomsA := append([]AtomCacheEnt{}, ng.Atoms...)
	sort.Slice(atomsA, func(i, j int) bool { return atomsA[i].ID < atomsA[j].ID })
	regs := coqNames(regsA)
	if ng.RegFull {
		regs = "neg_regs_full"
	}
	run.coqNego = fmt.Sprintf("(mk_nego %d hreg %s %s %s %s)", modelFuel, coqNames(atomsA), regs, coqETable(ng.TA), coqETable(ng.TB))
	return run
}

// expectation in Go (mirrors Negotiate.neg_expect + strip_foreign): canonical form under A's cache,
// then every sentinel becomes B's sentinel of the same text or a plain error
func toReceiver(v *V, textToB map[string]int) *V {
	if v == nil {
		return nil
	}
	c := *v
	if v.K == "err" && v.Sent > 0 {
		if j, ok := textToB[string(v.S)]; ok {
			c.Sent = j + 1
		} else {
			c.Sent = 0
		}
	}
	c.X = toReceiver(v.X, textToB)
	if v.L != nil {
		c.L = make([]*V, len(v.L))
		for i := range v.L {
			c.L[i] = toReceiver(v.L[i], textToB)
		}
	}
	if v.M != nil {
		c.M = make([][2]*V, len(v.M))
		for i := range v.M {
			c.M[i] = [2]*V{toReceiver(v.M[i][0], textToB), toReceiver(v.M[i][1], textToB)}
		}
	}
	return &c
}

func execNeg(run *negRun, c *NegCase) (o obs) {
	defer func() {
		if r := recover(); r != nil {
			o.crash = fmt.Sprint(r)
		}
	}()
	sentinels = sentA
	rv := toGo(goType(c.T), c.V)
	b := lib.TakeBuffer()
	defer lib.ReleaseBuffer(b)
	o.encErr = edf.Encode(rv.Interface(), b, run.eo)
	if o.encErr != nil {
		return
	}
	o.enc = append([]byte{}, b.B...)
	x, tail, err := edf.Decode(o.enc, run.do)
	if err != nil {
		o.decErr = err
		return
	}
	o.tail = len(tail)
	if x == nil {
		o.decT, o.decV = &T{K: "any"}, &V{K: "anynil"}
		return
	}
	sentinels = sentB
	defer func() { sentinels = sentA }()
	xv := reflect.ValueOf(x)
	o.decT, o.decV = modelType(xv.Type()), fromGo(xv)
	return
}

func negPrelude() string {
	full := edf.GetRegCache()
	var l []AtomCacheEnt
	for id, name := range full {
		l = append(l, AtomCacheEnt{Atom: name, ID: id})
	}
	sort.Slice(l, func(i, j int) bool { return l[i].ID < l[j].ID })
	return coqPrelude() + "Definition neg_regs_full : list (N * bytes) := " + coqNames(l) + ".\n"
}

func mainNegotiated(n int, outp, replay string) {
	for _, t := range negTexts {
		sentA = append(sentA, errors.New(t))
		sentB = append(sentB, errors.New(t))
	}
	sentinels = sentA
	g := &genCfg{r: util.Rng(12)}

	var cases []NegCase
	if replay != "" {
		b, err := os.ReadFile(replay)
		if err != nil {
			panic(err)
		}
		var rp struct {
			Case NegCase `json:"case"`
		}
		if err := json.Unmarshal(b, &rp); err != nil {
			panic(err)
		}
		cases = append(cases, rp.Case)
	} else {
		per := 6
		for len(cases) < n {
			ng := g.genNego()
			// every sentinel of A once at top level, then mixed values
			for _, e := range ng.TA {
				if len(cases) >= n+len(ng.TA) {
					break
				}
				cases = append(cases, NegCase{Label: "sentinel-top", Neg: ng, T: &T{K: "prim", P: "PError"},
					V: &V{K: "err", Sent: e.Sent + 1, S: []byte(negTexts[e.Sent])}})
			}
			for i := 0; i < per; i++ {
				t := g.genNegType()
				cases = append(cases, NegCase{Label: "mixed", Neg: ng, T: t, V: g.genNegVal(t)})
			}
		}
	}

	o := util.NewOut("edf.negotiated")
	o.Extra["prelude"] = negPrelude()
	var run *negRun
	var last string
	for i := range cases {
		c := &cases[i]
		c.Tags = []string{}
		key, _ := json.Marshal(c.Neg)
		if run == nil || string(key) != last {
			run = setup(c.Neg)
			last = string(key)
			o.Stats["negotiations"]++
			o.Stats["kind:"+c.Neg.Kind]++
		}
		kl := &classify{o: Opts{}, cached: run.cachedA, tags: map[string]bool{}}
		kl.desc(c.T)
		kl.walk(c.T, c.V)
		var ob obs
		if run.err != nil {
			ob.crash = "handshake exchange failed: " + run.err.Error()
		} else {
			ob = execNeg(run, c)
		}
		encS := optNone(coqBytes(ob.enc), ob.encErr == nil && ob.crash == "")
		decS := "None"
		if ob.encErr == nil && ob.decErr == nil && ob.crash == "" {
			decS = fmt.Sprintf("(Some (%s, %s, %d))", coqT(ob.decT), coqV(ob.decV), ob.tail)
		}
		term := fmt.Sprintf("mk_ncase %s %s %s %s %s %s %s %s %s %s", run.coqNego, run.encCache, run.decCache, run.decAtoms, run.decRegs,
			coqT(c.T), coqV(c.V), util.B(!multiMap(c.V)), encS, decS)
		idx := o.Add(term, c)

		o.Stats["label:"+c.Label]++
		o.Stats["top:"+c.T.K]++
		fail := func(what string) {
			o.Monitor = append(o.Monitor, util.MonitorFail{Case: idx, What: what})
		}
		switch {
		case ob.crash != "":
			o.Stats["result:crash"]++
			fail("panic escaped / exchange failed: " + ob.crash)
		case ob.encErr != nil:
			o.Stats["result:encode-rejected"]++
			if !kl.overlong {
				fail("Encode rejected a representable value: " + ob.encErr.Error())
			}
		case ob.decErr != nil:
			o.Stats["result:decode-error"]++
			msg := ob.decErr.Error()
			if len(msg) > 120 {
				msg = msg[:120]
			}
			fail(fmt.Sprintf("node A's %d bytes (%s...) are rejected by node B: %s", len(ob.enc), hex.EncodeToString(ob.enc[:min(12, len(ob.enc))]), msg))
		default:
			o.Stats["result:ok"]++
			want := toReceiver(canon(c.V, run.cachedA), run.textToB)
			countSent(want, c.V, o.Stats)
			if ob.tail != 0 {
				fail(fmt.Sprintf("node B left %d bytes unread", ob.tail))
			} else if !eqT(ob.decT, c.T) {
				fail("decoded value has a different type: " + coqT(ob.decT) + " instead of " + coqT(c.T))
			} else if !eqV(ob.decV, want) {
				s := coqV(ob.decV)
				if len(s) > 200 {
					s = s[:200]
				}
				w := coqV(want)
				if len(w) > 200 {
					w = w[:200]
				}
				fail("node B decoded a different value (sentinel identity by text / text / atoms / types): got " + s + " want " + w)
			}
		}
	}
	if outp != "" {
		o.Write(outp)
	} else {
		json.NewEncoder(os.Stdout).Encode(o)
	}
}

// coverage: how the sentinels of the sent value arrive
func countSent(want, sent *V, st map[string]int) {
	if want == nil || sent == nil {
		return
	}
	if sent.K == "err" && sent.Sent > 0 {
		switch {
		case want.Sent > 0 && want.Sent != sent.Sent:
			st["sentinel:to-other-index-same-text"]++
		case want.Sent > 0:
			st["sentinel:to-b-sentinel"]++
		default:
			st["sentinel:to-plain-text"]++
		}
	}
	countSent(want.X, sent.X, st)
	for i := range sent.L {
		if i < len(want.L) {
			countSent(want.L[i], sent.L[i], st)
		}
	}
	for i := range sent.M {
		if i < len(want.M) {
			countSent(want.M[i][0], sent.M[i][0], st)
			countSent(want.M[i][1], sent.M[i][1], st)
		}
	}
}
