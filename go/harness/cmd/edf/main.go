// Harness for the Edf engine (C11): generates typed values aimed at the length / nesting /
// cache boundaries, runs the real edf.Encode / edf.Decode, and prints each observation as a Coq
// term (Edf/Cases.v mk_ecase) plus a JSON replay.  A direct Go monitor checks the round trip too.
package main

import (
	"encoding/hex"
	"encoding/json"
	"flag"
	"fmt"
	"os"
	"path/filepath"
	"reflect"
	"sort"
	"strings"
	"sync"

	"ergo.services/ergo/gen"
	"ergo.services/ergo/lib"
	"ergo.services/ergo/net/edf"
	"verifharness/util"
)

const modelFuel = 40

func buildOptions(o Opts) (edf.Options, edf.Options) {
	var e, d edf.Options
	if o.HasAtomCache {
		e.AtomCache, d.AtomCache = new(sync.Map), new(sync.Map)
		for _, a := range o.AtomCache {
			e.AtomCache.Store(gen.Atom(a.Atom), a.ID)
			d.AtomCache.Store(a.ID, gen.Atom(a.Atom))
		}
	}
	if o.HasAtomMap {
		// net/proto/enp.go: encodeOptions k -> v, decodeOptions v -> k
		e.AtomMapping, d.AtomMapping = new(sync.Map), new(sync.Map)
		for _, m := range o.AtomMap {
			e.AtomMapping.Store(gen.Atom(m[0]), gen.Atom(m[1]))
			d.AtomMapping.Store(gen.Atom(m[1]), gen.Atom(m[0]))
		}
	}
	if o.HasRegCache {
		e.RegCache, d.RegCache = new(sync.Map), new(sync.Map)
		for _, r := range o.RegCache {
			rt := regByShort[r.Short]
			e.RegCache.Store(rt.Type, []byte{131, byte(r.ID >> 8), byte(r.ID)})
			d.RegCache.Store(r.ID, rt.Name)
		}
	}
	if o.HasErrCache {
		e.ErrCache, d.ErrCache = new(sync.Map), new(sync.Map)
		for _, x := range o.ErrCache {
			e.ErrCache.Store(sentinels[x.Sent], x.ID)
			d.ErrCache.Store(x.ID, sentinels[x.Sent])
		}
	}
	if o.UseCache {
		e.Cache, d.Cache = new(sync.Map), new(sync.Map)
	}
	return e, d
}

func coqOpts(o Opts) string {
	ac, am, rc, ec := "None", "None", "None", "None"
	if o.HasAtomCache {
		var p []string
		for _, a := range o.AtomCache {
			p = append(p, fmt.Sprintf("(%s, %d)", coqBytes([]byte(a.Atom)), a.ID))
		}
		ac = "(Some [" + strings.Join(p, "; ") + "])"
	}
	if o.HasAtomMap {
		var p []string
		for _, m := range o.AtomMap {
			p = append(p, fmt.Sprintf("(%s, %s)", coqBytes([]byte(m[0])), coqBytes([]byte(m[1]))))
		}
		am = "(Some [" + strings.Join(p, "; ") + "])"
	}
	if o.HasRegCache {
		var p []string
		for _, r := range o.RegCache {
			p = append(p, fmt.Sprintf("(rn_%s, %d)", r.Short, r.ID))
		}
		rc = "(Some [" + strings.Join(p, "; ") + "])"
	}
	if o.HasErrCache {
		var p []string
		for _, x := range o.ErrCache {
			p = append(p, fmt.Sprintf("(%d, %s, %d)", x.Sent, coqBytes([]byte(sentinels[x.Sent].Error())), x.ID))
		}
		ec = "(Some [" + strings.Join(p, "; ") + "])"
	}
	return fmt.Sprintf("(mk_opts %d hreg %s %s %s %s)", modelFuel, ac, am, rc, ec)
}

type obs struct {
	enc    []byte
	encErr error
	decT   *T
	decV   *V
	tail   int
	decErr error
	crash  string
}

func execCase(c *Case) (o obs) {
	defer func() {
		if r := recover(); r != nil {
			o.crash = fmt.Sprint(r)
		}
	}()
	eo, do := buildOptions(c.Opts)
	rv := toGo(goType(c.T), c.V)
	b := lib.TakeBuffer()
	defer lib.ReleaseBuffer(b)
	o.encErr = edf.Encode(rv.Interface(), b, eo)
	if o.encErr != nil {
		return
	}
	o.enc = append([]byte{}, b.B...)
	x, tail, err := edf.Decode(o.enc, do)
	if err != nil {
		o.decErr = err
		return
	}
	o.tail = len(tail)
	if x == nil {
		o.decT, o.decV = &T{K: "any"}, &V{K: "anynil"}
		return
	}
	xv := reflect.ValueOf(x)
	o.decT, o.decV = modelType(xv.Type()), fromGo(xv)
	return
}

func multiMap(v *V) bool {
	if v == nil {
		return false
	}
	if len(v.M) >= 2 {
		return true
	}
	if multiMap(v.X) {
		return true
	}
	for _, e := range v.L {
		if multiMap(e) {
			return true
		}
	}
	for _, kv := range v.M {
		if multiMap(kv[0]) || multiMap(kv[1]) {
			return true
		}
	}
	return false
}

// ---- classification of a case (tags of the known findings, unrepresentable values) ----

type classify struct {
	o        Opts
	cached   map[int]bool
	overlong bool
	tags     map[string]bool
}

func (k *classify) atom(a []byte) {
	if len(a) > 255 {
		k.overlong = true
	}
	for _, m := range k.o.AtomMap {
		if k.o.HasAtomMap && m[0] == string(a) && len(m[1]) > 255 {
			k.tags["atommap-target>255"] = true
		}
	}
}

func (k *classify) desc(t *T) {
	switch t.K {
	case "slice", "array":
		k.desc(t.E)
	case "map":
		if t.Key.K == "array" || t.Key.K == "slice" || t.Key.K == "map" {
			k.tags["map-array-key"] = true
		}
		k.desc(t.Key)
		k.desc(t.E)
	}
}

func (k *classify) walk(t *T, v *V) {
	switch t.K {
	case "prim":
		switch t.P {
		case "PString":
			if len(v.S) > 65535 {
				k.overlong = true
			}
		case "PAtom":
			k.atom(v.S)
		case "PError":
			if v.K == "err" && len(v.S) > 32767 && !(v.Sent > 0 && k.cached[v.Sent-1]) {
				k.overlong = true
			}
		case "PPid", "PRef", "PAlias":
			k.atom(v.Node)
		case "PProcessID", "PEvent":
			k.atom(v.Node)
			if len(v.Node) <= 255 {
				k.atom(v.Name)
			}
		}
	case "any":
		if v.K == "any" {
			k.desc(v.T)
			k.walk(v.T, v.X)
		}
	case "slice", "array":
		if v.K == "list" {
			if len(v.L) > 0 && zeroWidth(t.E) {
				k.tags["zero-width-elem"] = true
			}
			for _, e := range v.L {
				k.walk(t.E, e)
			}
		}
	case "map":
		for _, kv := range v.M {
			k.walk(t.Key, kv[0])
			k.walk(t.E, kv[1])
		}
	case "reg":
		rt := regByShort[t.Name].Type
		if v.K == "marsh" {
			return
		}
		switch rt.Kind() {
		case reflect.Struct:
			for i, e := range v.L {
				k.walk(modelType(rt.Field(i).Type), e)
			}
		case reflect.Slice:
			k.walk(&T{K: "slice", E: modelType(rt.Elem())}, v)
		case reflect.Array:
			k.walk(&T{K: "array", N: rt.Len(), E: modelType(rt.Elem())}, v)
		case reflect.Map:
			k.walk(&T{K: "map", Key: modelType(rt.Key()), E: modelType(rt.Elem())}, v)
		case reflect.String:
			if len(v.S) > 65535 {
				k.overlong = true
			}
		}
	}
}

func cachedSentinels(o Opts) map[int]bool {
	m := map[int]bool{}
	if o.HasErrCache {
		for _, e := range o.ErrCache {
			if e.ID > 32767 {
				m[e.Sent] = true
			}
		}
	}
	return m
}

func optNone(s string, ok bool) string {
	if !ok {
		return "None"
	}
	return "(Some " + s + ")"
}

func main() {
	if len(os.Args) < 2 {
		fmt.Fprintln(os.Stderr, "usage: edf <roundtrip|negotiated|window> [flags]")
		os.Exit(2)
	}
	fs := flag.NewFlagSet(os.Args[1], flag.ExitOnError)
	n := fs.Int("n", 300, "number of random cases")
	outp := fs.String("out", "", "output json")
	replay := fs.String("replay", "", "replay file (json case)")
	known := fs.String("known", "", "comma separated tags of known findings whose input classes are generated too")
	corpus := fs.String("corpus", "", "directory of replay files run before the generated cases")
	wcorp := fs.String("writecorpus", "", "write the deterministic encodeType-flag cases as replay files into this directory and exit")
	fs.Parse(os.Args[2:])
	if os.Args[1] != "roundtrip" && os.Args[1] != "negotiated" && os.Args[1] != "window" {
		fmt.Fprintln(os.Stderr, "unknown subcommand")
		os.Exit(2)
	}
	registerAll()
	if *wcorp != "" {
		writeFlagCorpus(*wcorp)
		return
	}
	if os.Args[1] == "window" {
		mainWindow(*n, *outp, *replay)
		return
	}
	if os.Args[1] == "negotiated" {
		mainNegotiated(*n, *outp, *replay)
		return
	}

	g := &genCfg{r: util.Rng(11)}
	for _, t := range strings.Split(*known, ",") {
		switch t {
		case "zero-width-elem":
			g.zeroElem = true
		case "map-array-key":
			g.arrayKey = true
		case "atommap-target>255":
			g.longMap = true
		}
	}

	var cases []Case
	if *replay != "" {
		b, err := os.ReadFile(*replay)
		if err != nil {
			panic(err)
		}
		var rp struct {
			Case Case `json:"case"`
		}
		if err := json.Unmarshal(b, &rp); err != nil {
			panic(err)
		}
		cases = append(cases, rp.Case)
	} else {
		if *corpus != "" {
			files, _ := filepath.Glob(filepath.Join(*corpus, "*.json"))
			sort.Strings(files)
			for _, f := range files {
				b, err := os.ReadFile(f)
				if err != nil {
					panic(err)
				}
				var rp struct {
					Case Case `json:"case"`
				}
				if err := json.Unmarshal(b, &rp); err != nil {
					panic(f + ": " + err.Error())
				}
				// witnesses of known findings only when the finding is listed (else they are plain violations)
				ok := true
				for _, t := range rp.Case.Tags {
					if !strings.Contains(","+*known+",", ","+t+",") {
						ok = false
					}
				}
				if ok {
					cases = append(cases, rp.Case)
				}
			}
		}
		cases = append(cases, g.boundaryCases()...)
		for i := 0; i < *n; i++ {
			cases = append(cases, g.randomCase())
		}
	}

	o := util.NewOut("edf.roundtrip")
	o.Extra["prelude"] = coqPrelude()
	for i := range cases {
		c := &cases[i]
		kl := &classify{o: c.Opts, cached: cachedSentinels(c.Opts), tags: map[string]bool{}}
		kl.desc(c.T)
		kl.walk(c.T, c.V)
		c.Tags = []string{}
		for _, t := range []string{"zero-width-elem", "map-array-key", "atommap-target>255"} {
			if kl.tags[t] {
				c.Tags = append(c.Tags, t)
			}
		}
		ob := execCase(c)

		encS := optNone(coqBytes(ob.enc), ob.encErr == nil && ob.crash == "")
		decS := "None"
		if ob.encErr == nil && ob.decErr == nil && ob.crash == "" {
			decS = fmt.Sprintf("(Some (%s, %s, %d))", coqT(ob.decT), coqV(ob.decV), ob.tail)
		}
		term := fmt.Sprintf("mk_ecase %s %s %s %s %s %s", coqOpts(c.Opts), coqT(c.T), coqV(c.V), util.B(!multiMap(c.V)), encS, decS)
		idx := o.Add(term, c)

		// ---- statistics
		o.Stats["label:"+c.Label]++
		o.Stats["top:"+c.T.K]++
		if c.T.K == "prim" {
			o.Stats["prim:"+c.T.P]++
		}
		if c.T.K == "reg" {
			o.Stats["reg:"+c.T.Name]++
		}
		for _, f := range []struct {
			n string
			b bool
		}{{"atomcache", c.Opts.HasAtomCache}, {"atommap", c.Opts.HasAtomMap}, {"regcache", c.Opts.HasRegCache}, {"errcache", c.Opts.HasErrCache}, {"cache", c.Opts.UseCache}} {
			if f.b {
				o.Stats["opt:"+f.n]++
			}
		}
		for _, t := range c.Tags {
			o.Stats["tag:"+t]++
		}
		switch {
		case ob.crash != "":
			o.Stats["result:crash"]++
		case ob.encErr != nil:
			o.Stats["result:encode-rejected"]++
		case ob.decErr != nil:
			o.Stats["result:decode-error"]++
		default:
			o.Stats["result:ok"]++
			switch l := len(ob.enc); {
			case l < 16:
				o.Stats["size:<16"]++
			case l < 256:
				o.Stats["size:<256"]++
			case l < 4096:
				o.Stats["size:<4096"]++
			default:
				o.Stats["size:>=4096"]++
			}
		}

		// ---- direct monitor: Decode(Encode(v)) == v, same type, empty tail; rejection only of
		// unrepresentable values
		fail := func(what string) {
			o.Monitor = append(o.Monitor, util.MonitorFail{Case: idx, What: what})
		}
		switch {
		case ob.crash != "":
			fail("panic escaped Encode/Decode: " + ob.crash)
		case ob.encErr != nil:
			if !kl.overlong {
				fail("Encode rejected a representable value: " + ob.encErr.Error())
			}
		case ob.decErr != nil:
			msg := ob.decErr.Error()
			if len(msg) > 120 {
				msg = msg[:120]
			}
			fail(fmt.Sprintf("Encode produced %d bytes (%s...) that Decode rejects: %s", len(ob.enc), hex.EncodeToString(ob.enc[:min(12, len(ob.enc))]), msg))
		default:
			want := canon(c.V, kl.cached)
			if ob.tail != 0 {
				fail(fmt.Sprintf("Decode left %d bytes of the encoder's output unread", ob.tail))
			} else if !eqT(ob.decT, c.T) {
				fail("decoded value has a different type: " + coqT(ob.decT) + " instead of " + coqT(c.T))
			} else if !eqV(ob.decV, want) {
				s := coqV(ob.decV)
				if len(s) > 200 {
					s = s[:200]
				}
				fail("decoded value differs from the encoded one: got " + s)
			}
		}
	}
	if *outp != "" {
		o.Write(*outp)
	} else {
		json.NewEncoder(os.Stdout).Encode(o)
	}
}

func min(a, b int) int {
	if a < b {
		return a
	}
	return b
}
