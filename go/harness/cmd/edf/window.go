package main

// Family `window` (C11): the REAL handshake.Start / handshake.Accept over a pipe while the node's
// registries (atoms, registered types, sentinel errors) GROW during the handshake. Each party announces
// a snapshot of its tables in MessageIntroduce; the caches it encodes with afterwards must be built from
// that very snapshot (the peer's decode caches are), whatever was registered in between. The harness
// registers fresh items at scripted points (inside the Write of the k-th frame of a side, i.e. after the
// message was built and before the peer has it), then dumps the announced tables from the wire, the six
// caches of both ends, and probes every registered item in both directions with the negotiated options.

import (
	"encoding/binary"
	"encoding/json"
	"errors"
	"fmt"
	"net"
	"os"
	"reflect"
	"sort"
	"strings"
	"sync"
	"time"

	"ergo.services/ergo/gen"
	"ergo.services/ergo/lib"
	"ergo.services/ergo/net/edf"
	"ergo.services/ergo/net/handshake"
	"verifharness/util"
)

type WinStep struct {
	Side  int    `json:"side"`  // 0 = dialing party (Start), 1 = accepting party (Accept)
	Frame int    `json:"frame"` // the registration happens inside the Write of this side's Frame-th message
	Kind  string `json:"kind"`  // atom | err | type
}

type WinCase struct {
	Pre   []string  `json:"pre"` // kinds registered before the handshake starts
	Steps []WinStep `json:"steps"`
	Post  []string  `json:"post"` // kinds registered after both ends returned
	Tags  []string  `json:"tags,omitempty"`
}

type winItem struct {
	kind  string
	name  string // atom text / error text / registered type name
	val   any
	phase int // 0 pre, 1 window, 2 post
}

var (
	winSeq     int
	winTypeIdx int
	winMu      sync.Mutex
)

type winNode struct{ name gen.Atom }

func (s winNode) Name() gen.Atom       { return s.name }
func (s winNode) Creation() int64      { return 1 }
func (s winNode) Version() gen.Version { return gen.Version{Name: "verif", Release: "1"} }

// winRegister registers one fresh item of the kind (nil when the type pool is exhausted)
func winRegister(kind string, phase int) *winItem {
	winMu.Lock()
	defer winMu.Unlock()
	winSeq++
	switch kind {
	case "atom":
		a := gen.Atom(fmt.Sprintf("winatom%d", winSeq))
		if err := edf.RegisterAtom(a); err != nil {
			panic(err)
		}
		return &winItem{kind, string(a), a, phase}
	case "err":
		e := errors.New(fmt.Sprintf("winerr%d", winSeq))
		if err := edf.RegisterError(e); err != nil {
			panic(err)
		}
		return &winItem{kind, e.Error(), e, phase}
	case "type":
		if winTypeIdx >= len(winTypes) {
			return nil
		}
		v := winTypes[winTypeIdx]
		winTypeIdx++
		if err := edf.RegisterTypeOf(v); err != nil {
			panic(err)
		}
		t := reflect.TypeOf(v)
		return &winItem{kind, fmt.Sprintf("#%s/%s", t.PkgPath(), t.Name()), v, phase}
	}
	panic("kind " + kind)
}

type winTap struct {
	net.Conn
	side   int
	n      int
	steps  []WinStep
	items  *[]*winItem
	frames *[][]byte
	mu     *sync.Mutex
}

func (t *winTap) Write(b []byte) (int, error) {
	k := t.n
	t.n++
	for _, s := range t.steps {
		if s.Side == t.side && s.Frame == k {
			if it := winRegister(s.Kind, 1); it != nil {
				t.mu.Lock()
				*t.items = append(*t.items, it)
				t.mu.Unlock()
			}
		}
	}
	if t.side == 0 || t.side == 1 {
		t.mu.Lock()
		*t.frames = append(*t.frames, append([]byte{byte(t.side)}, b...))
		t.mu.Unlock()
	}
	return t.Conn.Write(b)
}

type winEnt struct {
	name string
	id   uint16
}

func winSorted(l []winEnt) []winEnt {
	sort.Slice(l, func(i, j int) bool {
		if l[i].id != l[j].id {
			return l[i].id < l[j].id
		}
		return l[i].name < l[j].name
	})
	return l
}

func winCoqByName(l []winEnt) string { // list (bytes * N)
	var p []string
	for _, e := range winSorted(l) {
		p = append(p, fmt.Sprintf("(%s, %d)", coqBytes([]byte(e.name)), e.id))
	}
	return "[" + strings.Join(p, "; ") + "]"
}

func winCoqByID(l []winEnt) string { // list (N * bytes)
	var p []string
	for _, e := range winSorted(l) {
		p = append(p, fmt.Sprintf("(%d, %s)", e.id, coqBytes([]byte(e.name))))
	}
	return "[" + strings.Join(p, "; ") + "]"
}

// dump of a cache (*sync.Map) as (name, id) pairs; enc says which way round the map is
func winDump(m *sync.Map, enc bool) []winEnt {
	var l []winEnt
	if m == nil {
		return l
	}
	name := func(x any) (string, bool) {
		switch v := x.(type) {
		case gen.Atom:
			return string(v), true
		case string:
			return v, true
		case error:
			return v.Error(), true
		case reflect.Type:
			return fmt.Sprintf("#%s/%s", v.PkgPath(), v.Name()), true
		}
		return "", false
	}
	id := func(x any) (uint16, bool) {
		switch v := x.(type) {
		case uint16:
			return v, true
		case []byte: // edf.regCache: {edtReg, id hi, id lo}
			if len(v) == 3 {
				return binary.BigEndian.Uint16(v[1:3]), true
			}
		}
		return 0, false
	}
	m.Range(func(k, v any) bool {
		var n string
		var i uint16
		var ok1, ok2 bool
		if enc {
			n, ok1 = name(k)
			i, ok2 = id(v)
		} else {
			i, ok1 = id(k)
			n, ok2 = name(v)
		}
		if ok1 && ok2 {
			l = append(l, winEnt{n, i})
		} else {
			l = append(l, winEnt{fmt.Sprintf("?%T/%T", k, v), 0})
		}
		return true
	})
	return l
}

func winSnapshot(m handshake.MessageIntroduce) (atoms, regs, errs []winEnt) {
	for id, a := range m.AtomCache {
		atoms = append(atoms, winEnt{string(a), id})
	}
	for id, n := range m.RegCache {
		regs = append(regs, winEnt{n, id})
	}
	for id, e := range m.ErrCache {
		if e != nil {
			errs = append(errs, winEnt{e.Error(), id})
		}
	}
	return
}

type winRun struct {
	err          string
	introA       handshake.MessageIntroduce
	introB       handshake.MessageIntroduce
	haveA, haveB bool
	optsA, optsB handshake.ConnectionOptions
	items        []*winItem
	inWindow     int
}

func execWindow(c WinCase) (r winRun) {
	for _, k := range c.Pre {
		if it := winRegister(k, 0); it != nil {
			r.items = append(r.items, it)
		}
	}
	ca, cb := net.Pipe()
	var mu sync.Mutex
	var frames [][]byte
	ta := &winTap{Conn: ca, side: 0, steps: c.Steps, items: &r.items, frames: &frames, mu: &mu}
	tb := &winTap{Conn: cb, side: 1, steps: c.Steps, items: &r.items, frames: &frames, mu: &mu}
	ha := handshake.Create(handshake.Options{PoolSize: 1})
	hb := handshake.Create(handshake.Options{PoolSize: 1})
	type outc struct {
		res gen.HandshakeResult
		err error
	}
	cha, chb := make(chan outc, 1), make(chan outc, 1)
	ho := gen.HandshakeOptions{Cookie: "wincookie", Flags: gen.DefaultNetworkFlags}
	go func() {
		res, err := ha.Start(winNode{"wina@localhost"}, ta, ho)
		if err != nil {
			ta.Close()
		}
		cha <- outc{res, err}
	}()
	go func() {
		res, err := hb.Accept(winNode{"winb@localhost"}, tb, ho)
		if err != nil {
			tb.Close()
		}
		chb <- outc{res, err}
	}()
	var ra, rb outc
	tm := time.After(10 * time.Second)
	for i := 0; i < 2; i++ {
		select {
		case ra = <-cha:
			cha = nil
		case rb = <-chb:
			chb = nil
		case <-tm:
			panic("window: handshake hangs")
		}
	}
	ca.Close()
	cb.Close()
	for _, k := range c.Post {
		if it := winRegister(k, 2); it != nil {
			r.items = append(r.items, it)
		}
	}
	if ra.err != nil || rb.err != nil {
		r.err = fmt.Sprintf("start: %v / accept: %v", ra.err, rb.err)
		return
	}
	var ok bool
	if r.optsA, ok = ra.res.Custom.(handshake.ConnectionOptions); !ok {
		r.err = "start: no ConnectionOptions"
		return
	}
	if r.optsB, ok = rb.res.Custom.(handshake.ConnectionOptions); !ok {
		r.err = "accept: no ConnectionOptions"
		return
	}
	for _, f := range frames {
		b := f[1:]
		if len(b) < 6 {
			continue
		}
		v, _, err := edf.Decode(b[6:], edf.Options{})
		if err != nil {
			continue
		}
		if m, ok := v.(handshake.MessageIntroduce); ok {
			if f[0] == 0 {
				r.introA, r.haveA = m, true
			} else {
				r.introB, r.haveB = m, true
			}
		}
	}
	if !r.haveA || !r.haveB {
		r.err = "window: Introduce frames not seen on the wire"
	}
	for _, it := range r.items {
		if it.phase == 1 {
			r.inWindow++
		}
	}
	return
}

// winProbe: the item encoded with X's negotiated encode caches and decoded with the peer's decode caches
func winProbe(it *winItem, from, to handshake.ConnectionOptions) (ok bool, what string) {
	defer func() {
		if r := recover(); r != nil {
			ok, what = false, fmt.Sprintf("panic: %v", r)
		}
	}()
	eo := edf.Options{AtomCache: from.EncodeAtomCache, RegCache: from.EncodeRegCache, ErrCache: from.EncodeErrCache}
	do := edf.Options{AtomCache: to.DecodeAtomCache, RegCache: to.DecodeRegCache, ErrCache: to.DecodeErrCache}
	b := lib.TakeBuffer()
	defer lib.ReleaseBuffer(b)
	if err := edf.Encode(it.val, b, eo); err != nil {
		return false, "Encode: " + err.Error()
	}
	v, tail, err := edf.Decode(b.B, do)
	if err != nil {
		return false, fmt.Sprintf("Decode of % x: %v", b.B, err)
	}
	if len(tail) != 0 {
		return false, "Decode left a tail"
	}
	switch it.kind {
	case "atom":
		if a, isAtom := v.(gen.Atom); !isAtom || a != it.val.(gen.Atom) {
			return false, fmt.Sprintf("atom %q decoded as %#v", it.name, v)
		}
	case "err":
		e, isErr := v.(error)
		if !isErr || e.Error() != it.name {
			return false, fmt.Sprintf("error %q decoded as %#v", it.name, v)
		}
		if it.phase == 0 && e != it.val.(error) {
			return false, fmt.Sprintf("sentinel %q registered before the handshake came back as another object", it.name)
		}
	case "type":
		if !reflect.DeepEqual(v, it.val) {
			return false, fmt.Sprintf("%s decoded as %#v", it.name, v)
		}
	}
	return true, ""
}

func genWinCase(g *genCfg) WinCase {
	r := g.r
	kinds := []string{"atom", "atom", "err", "err", "type"}
	var c WinCase
	for i := r.Intn(3); i > 0; i-- {
		c.Pre = append(c.Pre, kinds[r.Intn(len(kinds))])
	}
	for i := 1 + r.Intn(3); i > 0; i-- {
		c.Steps = append(c.Steps, WinStep{Side: r.Intn(2), Frame: r.Intn(4), Kind: kinds[r.Intn(len(kinds))]})
	}
	for i := r.Intn(2); i > 0; i-- {
		c.Post = append(c.Post, kinds[r.Intn(len(kinds))])
	}
	return c
}

func mainWindow(n int, outp, replay string) {
	g := &genCfg{r: util.Rng(13)}
	var cases []WinCase
	if replay != "" {
		b, err := os.ReadFile(replay)
		if err != nil {
			panic(err)
		}
		var rp struct {
			Case WinCase `json:"case"`
		}
		if err := json.Unmarshal(b, &rp); err != nil {
			panic(err)
		}
		cases = append(cases, rp.Case)
	} else {
		// every (side, frame, kind) once, then random scripts
		for side := 0; side < 2; side++ {
			for fr := 0; fr < 4; fr++ {
				for _, k := range []string{"atom", "err", "type"} {
					cases = append(cases, WinCase{Pre: []string{k}, Steps: []WinStep{{side, fr, k}}})
				}
			}
		}
		for len(cases) < n {
			cases = append(cases, genWinCase(g))
		}
	}
	o := util.NewOut("edf.window")
	for i := range cases {
		c := &cases[i]
		c.Tags = []string{}
		r := execWindow(*c)
		triple := func(a, b, c string) string { return "(" + a + ", " + b + ", " + c + ")" }
		var term string
		var probes []string
		var fails []string
		if r.err == "" {
			for _, it := range r.items {
				for dir := 0; dir < 2; dir++ {
					var ok bool
					var what string
					if dir == 0 {
						ok, what = winProbe(it, r.optsA, r.optsB)
					} else {
						ok, what = winProbe(it, r.optsB, r.optsA)
					}
					kn := map[string]int{"atom": 0, "err": 1, "type": 2}[it.kind]
					probes = append(probes, fmt.Sprintf("(%d, %d, %s, %s)", kn, it.phase, util.B(dir == 0), util.B(ok)))
					o.Stats[fmt.Sprintf("probe:%s:phase%d", it.kind, it.phase)]++
					if !ok {
						d := "dialer -> acceptor"
						if dir == 1 {
							d = "acceptor -> dialer"
						}
						fails = append(fails, fmt.Sprintf("%s %q (registered %s) sent %s with the negotiated caches: %s", it.kind, it.name,
							[]string{"before the handshake", "during the handshake", "after the handshake"}[it.phase], d, what))
					}
				}
			}
			aA, rA, eA := winSnapshot(r.introA)
			aB, rB, eB := winSnapshot(r.introB)
			dumpE := func(o handshake.ConnectionOptions) string {
				return triple(winCoqByName(winDump(o.EncodeAtomCache, true)), winCoqByName(winDump(o.EncodeRegCache, true)), winCoqByName(winDump(o.EncodeErrCache, true)))
			}
			dumpD := func(o handshake.ConnectionOptions) string {
				return triple(winCoqByName(winDump(o.DecodeAtomCache, false)), winCoqByName(winDump(o.DecodeRegCache, false)), winCoqByName(winDump(o.DecodeErrCache, false)))
			}
			term = fmt.Sprintf("mk_wcase true %s %s %s %s %s %s (%d) [%s]",
				triple(winCoqByID(aA), winCoqByID(rA), winCoqByID(eA)), triple(winCoqByID(aB), winCoqByID(rB), winCoqByID(eB)),
				dumpE(r.optsA), dumpD(r.optsA), dumpE(r.optsB), dumpD(r.optsB), r.inWindow, strings.Join(probes, "; "))
			o.Stats["handshake:ok"]++
			if r.inWindow > 0 {
				o.Stats["registered-in-window"]++
			}
		} else {
			term = "mk_wcase false ([], [], []) ([], [], []) ([], [], []) ([], [], []) ([], [], []) ([], [], []) 0 []"
			o.Stats["handshake:failed"]++
			fails = append(fails, "the handshake between two honest parties failed: "+r.err)
		}
		idx := o.Add(term, c)
		for _, s := range c.Steps {
			o.Stats[fmt.Sprintf("step:side%d:frame%d:%s", s.Side, s.Frame, s.Kind)]++
		}
		for _, f := range fails {
			o.Monitor = append(o.Monitor, util.MonitorFail{Case: idx, What: f})
		}
	}
	if outp != "" {
		o.Write(outp)
	}
}
