package main

import (
	"errors"
	"fmt"
	"io"
	"reflect"
	"time"

	"ergo.services/ergo/gen"
	"ergo.services/ergo/net/edf"
)

// Types the harness registers with edf.RegisterTypeOf (dependencies first).
type HInt int
type HI8 int8
type HU16 uint16
type HStr string
type HF32 float32
type HF64 float64
type HBool bool
type HEmpty struct{}
type HPoint struct {
	X int
	Y int16
}
type HKey [2]int8
type HZArr [0]int32
type HList []int32
type HAnyList []any
type HArr [3]uint16
type HMap map[string]HPoint
type HRec struct {
	Name string
	Node gen.Atom
	Pid  gen.PID
	Err  error
	Bin  []byte
	Any  any
	L    []int32
	M    map[string]int8
	A    [2]uint8
	P    HPoint
	T    time.Time
	S    HStr
}
type HMsg struct {
	A  any
	L  []HPoint
	E  []error
	R  gen.Ref
	Al gen.Alias
	Ev gen.Event
	PI gen.ProcessID
	F  float32
	U  uint64
	K  map[HKey]HList
}

// ---- custom marshalers (register.go, case Marshaler / case encoding.BinaryMarshaler) ----
// The model sees a marshaler value as its abstract state (a byte string) and the registry entry as the
// pair of the user's functions (Edf/Model.v: RMarsh mar_xor unmar_xor / RMarsh mar_rev unmar_rev).

// HMar: edf.Marshaler / edf.Unmarshaler.  State = Data (nil and empty are one state); the payload is
// Data with every byte xor 0x5a, streamed in chunks so that the buffer grows INSIDE MarshalEDF.
type HMar struct{ Data []byte }

func (m HMar) MarshalEDF(w io.Writer) error {
	const chunk = 1500
	for i := 0; i < len(m.Data); i += chunk {
		j := i + chunk
		if j > len(m.Data) {
			j = len(m.Data)
		}
		p := make([]byte, j-i)
		for k := range p {
			p[k] = m.Data[i+k] ^ 0x5a
		}
		if _, err := w.Write(p); err != nil {
			return err
		}
	}
	return nil
}

func (m *HMar) UnmarshalEDF(b []byte) error {
	m.Data = make([]byte, len(b))
	for k := range b {
		m.Data[k] = b[k] ^ 0x5a
	}
	return nil
}

// HBin: encoding.BinaryMarshaler / BinaryUnmarshaler.  State = S; the payload is S reversed.
type HBin struct{ S string }

func (m HBin) MarshalBinary() ([]byte, error) {
	p := make([]byte, len(m.S))
	for k := range p {
		p[k] = m.S[len(m.S)-1-k]
	}
	return p, nil
}

func (m *HBin) UnmarshalBinary(b []byte) error {
	p := make([]byte, len(b))
	for k := range p {
		p[k] = b[len(b)-1-k]
	}
	m.S = string(p)
	return nil
}

// a marshaler value that comes late in a message: the buffer is nearly full when MarshalEDF starts
type HLate struct {
	Pad  []byte
	M    HMar
	Tail string
	B    HBin
	N    int16
}

var (
	hmarType = reflect.TypeOf(HMar{})
	hbinType = reflect.TypeOf(HBin{})
)

type regType struct {
	Short string
	Type  reflect.Type
	Name  string // "#main/HInt"
}

var regTypes []regType
var regByType = map[reflect.Type]*regType{}
var regByShort = map[string]*regType{}

// sentinel error objects (identity matters): some of ergo's, some of the harness
var sentinels = []error{
	gen.ErrTimeout, gen.ErrProcessUnknown, gen.TerminateReasonNormal,
	errors.New("harness sentinel A"), errors.New("harness 100% sentinel %d"), errors.New(""),
}

func registerAll() {
	for _, v := range []any{HInt(0), HI8(0), HU16(0), HStr(""), HF32(0), HF64(0), HBool(false),
		HEmpty{}, HPoint{}, HKey{}, HZArr{}, HList{}, HAnyList{}, HArr{}, HMap{}, HRec{}, HMsg{},
		HMar{}, HBin{}, HLate{}} {
		registerOne(v)
	}
	for _, v := range flagValues {
		registerOne(v)
		flagShorts = append(flagShorts, reflect.TypeOf(v).Name())
	}
	for i := range regTypes {
		regByType[regTypes[i].Type] = &regTypes[i]
		regByShort[regTypes[i].Short] = &regTypes[i]
	}
}

func registerOne(v any) {
	{
		if err := edf.RegisterTypeOf(v); err != nil {
			panic(fmt.Sprintf("register %T: %v", v, err))
		}
		t := reflect.TypeOf(v)
		rt := regType{Short: t.Name(), Type: t, Name: fmt.Sprintf("#%s/%s", t.PkgPath(), t.Name())}
		regTypes = append(regTypes, rt)
	}
}
