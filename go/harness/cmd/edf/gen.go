package main

import (
	"bytes"
	"math"
	"math/rand"
	"os"
	"time"
)

type AtomCacheEnt struct {
	Atom string `json:"atom"`
	ID   uint16 `json:"id"`
}
type RegCacheEnt struct {
	Short string `json:"short"`
	ID    uint16 `json:"id"`
}
type ErrCacheEnt struct {
	Sent int    `json:"sent"`
	ID   uint16 `json:"id"`
}
type Opts struct {
	HasAtomCache bool           `json:"has_atom_cache"`
	AtomCache    []AtomCacheEnt `json:"atom_cache,omitempty"`
	HasAtomMap   bool           `json:"has_atom_map"`
	AtomMap      [][2]string    `json:"atom_map,omitempty"`
	HasRegCache  bool           `json:"has_reg_cache"`
	RegCache     []RegCacheEnt  `json:"reg_cache,omitempty"`
	HasErrCache  bool           `json:"has_err_cache"`
	ErrCache     []ErrCacheEnt  `json:"err_cache,omitempty"`
	UseCache     bool           `json:"use_cache"`
}

type Case struct {
	Label string   `json:"label"`
	Opts  Opts     `json:"opts"`
	T     *T       `json:"t"`
	V     *V       `json:"v"`
	Tags  []string `json:"tags"`
}

type genCfg struct {
	r        *rand.Rand
	zeroElem bool // allow zero-width element types (known finding zero-width-elem)
	arrayKey bool // allow unnamed array map keys (known finding map-array-key)
	longMap  bool // allow atom mapping targets > 255 (known finding atommap-target>255)
}

func rep(b byte, n int) []byte { return bytes.Repeat([]byte{b}, n) }

var atomPool = [][]byte{
	[]byte("node@localhost"), []byte("abc"), []byte(""), []byte("src-0"), []byte("src-1"), []byte("x"),
	[]byte("registered_name"), rep('a', 255), rep('b', 254), []byte("caf\xc3\xa9"), []byte("ev%d"),
}

func (g *genCfg) atom() []byte {
	if g.r.Intn(40) == 0 {
		return rep('L', 256+g.r.Intn(3)) // too long: must be rejected
	}
	return atomPool[g.r.Intn(len(atomPool))]
}

func (g *genCfg) smallBytes() []byte {
	r := g.r
	var n int
	switch r.Intn(10) {
	case 0:
		n = 0
	case 1:
		n = 1
	case 2:
		n = []int{255, 256, 257}[r.Intn(3)]
	default:
		n = r.Intn(24)
	}
	if n >= 255 {
		return rep(byte('A'+r.Intn(26)), n)
	}
	b := make([]byte, n)
	for i := range b {
		switch r.Intn(8) {
		case 0:
			b[i] = '%'
		case 1:
			b[i] = byte(r.Intn(256))
		default:
			b[i] = byte('a' + r.Intn(26))
		}
	}
	return b
}

// n bytes: a long run of one byte (printed compactly as a Coq term) with distinct markers at both ends
func markedBytes(n int) []byte {
	b := rep('A', n)
	for i := 0; i < 4 && i < n; i++ {
		b[i] = byte(n>>(8*i)) ^ byte(0x10+i)
	}
	for i := 1; i <= 3 && n-i >= 4; i++ {
		b[n-i] = byte(0xf0 + i)
	}
	return b
}

// state of a marshaler value: mostly small, sometimes around the 4096-byte capacity of a fresh lib.Buffer
func (g *genCfg) marshState() []byte {
	r := g.r
	switch r.Intn(8) {
	case 0:
		return []byte{}
	case 1:
		return markedBytes([]int{4080, 4090, 4096, 5000, 9000}[r.Intn(5)])
	}
	return g.smallBytes()
}

var primNames = []string{"PBool", "PInt", "PInt8", "PInt16", "PInt32", "PInt64", "PUint", "PUint8", "PUint16",
	"PUint32", "PUint64", "PFloat32", "PFloat64", "PString", "PBinary", "PAtom", "PError", "PPid", "PProcessID",
	"PRef", "PAlias", "PEvent", "PTime"}

func zeroWidth(t *T) bool {
	switch t.K {
	case "array":
		return t.N == 0 || zeroWidth(t.E)
	case "reg":
		return t.Name == "HEmpty" || t.Name == "HZArr"
	}
	return false
}

// elem: the type is used as an element of a slice/array/map
func (g *genCfg) genType(depth int, elem bool) *T {
	r := g.r
	for {
		t := g.genType1(depth)
		if elem && !g.zeroElem && zeroWidth(t) {
			continue
		}
		_ = r
		return t
	}
}

func (g *genCfg) genType1(depth int) *T {
	r := g.r
	k := r.Intn(100)
	if depth >= 6 {
		k = r.Intn(40)
	}
	switch {
	case k < 40:
		return &T{K: "prim", P: primNames[r.Intn(len(primNames))]}
	case k < 50:
		return &T{K: "reg", Name: regTypes[r.Intn(len(regTypes))].Short}
	case k < 60:
		return &T{K: "any"}
	case k < 75:
		e := g.genType(depth+1, true)
		if e.K == "prim" && e.P == "PUint8" {
			return &T{K: "prim", P: "PBinary"} // []uint8 IS []byte
		}
		return &T{K: "slice", E: e}
	case k < 85:
		n := r.Intn(4)
		e := g.genType(depth+1, n > 0)
		return &T{K: "array", N: n, E: e}
	default:
		return &T{K: "map", Key: g.genKeyType(), E: g.genType(depth+1, false)}
	}
}

func (g *genCfg) genKeyType() *T {
	r := g.r
	if g.arrayKey && r.Intn(8) == 0 {
		return &T{K: "array", N: 1 + r.Intn(2), E: &T{K: "prim", P: "PInt8"}}
	}
	switch r.Intn(10) {
	case 0:
		return &T{K: "reg", Name: "HKey"}
	case 1:
		return &T{K: "reg", Name: "HPoint"}
	case 2:
		return &T{K: "reg", Name: "HStr"}
	case 3:
		return &T{K: "any"}
	case 4:
		return &T{K: "prim", P: "PAtom"}
	case 5:
		return &T{K: "prim", P: "PInt"}
	case 6:
		return &T{K: "prim", P: "PUint8"}
	case 7:
		return &T{K: "prim", P: "PBool"}
	}
	return &T{K: "prim", P: "PString"}
}

func (g *genCfg) genInt(bits uint, signed bool) *V {
	r := g.r
	if signed {
		min := int64(-1) << (bits - 1)
		max := -(min + 1)
		c := []int64{min, max, -1, 0, 1, min + 1, max - 1}
		if r.Intn(2) == 0 {
			return &V{K: "int", I: c[r.Intn(len(c))]}
		}
		x := int64(r.Uint64())
		if bits < 64 {
			x = x >> (64 - bits)
		}
		return &V{K: "int", I: x}
	}
	var max uint64 = math.MaxUint64
	if bits < 64 {
		max = (uint64(1) << bits) - 1
	}
	c := []uint64{0, 1, max, max - 1, max / 2, max/2 + 1}
	if r.Intn(2) == 0 {
		return &V{K: "uint", U: c[r.Intn(len(c))]}
	}
	return &V{K: "uint", U: r.Uint64() & max}
}

var times [][]byte

func init() {
	add := func(t time.Time) {
		b, err := t.MarshalBinary()
		if err != nil {
			panic(err)
		}
		times = append(times, b)
	}
	add(time.Time{})
	add(time.Unix(0, 0).UTC())
	add(time.Unix(1700000000, 123456789).UTC())
	add(time.Unix(1700000000, 999999999).In(time.FixedZone("x", 3*3600)))
	add(time.Unix(-5000000000, 1).In(time.FixedZone("y", -(11*3600 + 30*60))))
	add(time.Unix(1, 0).In(time.FixedZone("z", 3*3600+17))) // seconds offset: version 2
	add(time.Date(9999, 12, 31, 23, 59, 59, 999999999, time.UTC))
}

func (g *genCfg) genPrim(p string, ctx string) *V {
	r := g.r
	switch p {
	case "PBool":
		return &V{K: "bool", B: r.Intn(2) == 0}
	case "PInt", "PInt64":
		return g.genInt(64, true)
	case "PInt8":
		return g.genInt(8, true)
	case "PInt16":
		return g.genInt(16, true)
	case "PInt32":
		return g.genInt(32, true)
	case "PUint", "PUint64":
		return g.genInt(64, false)
	case "PUint8":
		return g.genInt(8, false)
	case "PUint16":
		return g.genInt(16, false)
	case "PUint32":
		return g.genInt(32, false)
	case "PFloat32":
		c := []uint32{0, 0x80000000, 0x3fc00000, 0x7f800000, 0xff800000, 0x7fc00000, 0x7fa00001, 0xffa00000, 0x7f800001, 0x7fffffff, 1, 0x007fffff}
		if r.Intn(3) > 0 {
			return &V{K: "f32", U: uint64(c[r.Intn(len(c))])}
		}
		return &V{K: "f32", U: uint64(r.Uint32())}
	case "PFloat64":
		c := []uint64{0, 1 << 63, 0x3ff8000000000000, 0x7ff0000000000000, 0xfff0000000000000, 0x7ff8000000000000, 0x7ff0000000000001, 0xfff4000000000000, 1}
		if r.Intn(3) > 0 {
			return &V{K: "f64", U: c[r.Intn(len(c))]}
		}
		return &V{K: "f64", U: r.Uint64()}
	case "PString":
		return &V{K: "bytes", S: g.smallBytes()}
	case "PBinary":
		if r.Intn(5) == 0 {
			return &V{K: "binnil"}
		}
		return &V{K: "bytes", S: g.smallBytes()}
	case "PAtom":
		return &V{K: "bytes", S: g.atom()}
	case "PError":
		k := r.Intn(10)
		if ctx != "inner" && k == 0 {
			k = 1
		}
		switch {
		case k == 0:
			return &V{K: "errnil"}
		case k < 5:
			i := r.Intn(len(sentinels))
			return &V{K: "err", Sent: i + 1, S: []byte(sentinels[i].Error())}
		default:
			return &V{K: "err", S: g.smallBytes()}
		}
	case "PPid":
		return &V{K: "pid", Node: g.atom(), U: g.genInt(64, false).U, Cr: g.genInt(64, true).I}
	case "PProcessID", "PEvent":
		return &V{K: "names", Node: g.atom(), Name: g.atom()}
	case "PRef", "PAlias":
		return &V{K: "ref", Node: g.atom(), Cr: g.genInt(64, true).I, ID: [3]uint64{g.genInt(64, false).U, r.Uint64(), uint64(r.Intn(3))}}
	case "PTime":
		return &V{K: "bytes", S: times[r.Intn(len(times))]}
	}
	panic("genPrim " + p)
}

// ctx: "top" (argument of Encode), "any" (dynamic value of an interface), "inner"
func (g *genCfg) genVal(t *T, depth int, ctx string) *V {
	r := g.r
	n := func() int {
		if depth >= 5 {
			return r.Intn(2)
		}
		return []int{0, 1, 1, 2, 3}[r.Intn(5)]
	}
	switch t.K {
	case "prim":
		return g.genPrim(t.P, ctx)
	case "any":
		if r.Intn(5) == 0 || depth >= 7 {
			return &V{K: "anynil"}
		}
		var dt *T
		for {
			dt = g.genType(depth+1, false)
			if dt.K != "any" {
				break
			}
		}
		return &V{K: "any", T: dt, X: g.genVal(dt, depth+1, "any")}
	case "slice":
		if r.Intn(5) == 0 {
			return &V{K: "nil"}
		}
		out := &V{K: "list", L: []*V{}}
		for i, k := 0, n(); i < k; i++ {
			out.L = append(out.L, g.genVal(t.E, depth+1, "inner"))
		}
		return out
	case "array":
		out := &V{K: "list", L: []*V{}}
		for i := 0; i < t.N; i++ {
			out.L = append(out.L, g.genVal(t.E, depth+1, "inner"))
		}
		return out
	case "map":
		return g.genMap(t.Key, t.E, depth)
	case "reg":
		rt := regByShort[t.Name].Type
		mt := rt
		if mt == hmarType || mt == hbinType {
			return &V{K: "marsh", S: g.marshState()}
		}
		switch mt.Kind().String() {
		case "struct":
			out := &V{K: "list", L: []*V{}}
			for i := 0; i < mt.NumField(); i++ {
				out.L = append(out.L, g.genVal(modelType(mt.Field(i).Type), depth+1, "inner"))
			}
			return out
		case "slice":
			return g.genVal(&T{K: "slice", E: modelType(mt.Elem())}, depth, "inner")
		case "array":
			return g.genVal(&T{K: "array", N: mt.Len(), E: modelType(mt.Elem())}, depth, "inner")
		case "map":
			return g.genMap(modelType(mt.Key()), modelType(mt.Elem()), depth)
		default:
			for p, pt := range primTypes {
				if pt.Kind() == mt.Kind() && pt.PkgPath() == "" && pt != bytesType && pt != errType {
					return g.genPrim(p, "inner")
				}
			}
		}
	}
	panic("genVal " + t.K)
}

func isNaNKey(v *V) bool {
	switch v.K {
	case "f64":
		return math.IsNaN(math.Float64frombits(v.U))
	case "f32":
		return math.IsNaN(float64(math.Float32frombits(uint32(v.U))))
	case "any":
		return isNaNKey(v.X)
	}
	for _, e := range v.L {
		if isNaNKey(e) {
			return true
		}
	}
	return false
}

func (g *genCfg) genMap(kt, et *T, depth int) *V {
	r := g.r
	if r.Intn(5) == 0 {
		return &V{K: "nil"}
	}
	out := &V{K: "map", M: [][2]*V{}}
	k := []int{0, 1, 1, 1, 2, 3}[r.Intn(6)]
	if depth >= 5 {
		k = r.Intn(2)
	}
	for i := 0; i < k; i++ {
		var key *V
		if kt.K == "any" {
			// comparable dynamic values only
			dt := &T{K: "prim", P: []string{"PInt", "PString", "PAtom", "PBool", "PUint16"}[r.Intn(5)]}
			key = &V{K: "any", T: dt, X: g.genVal(dt, depth+1, "any")}
		} else if kt.K == "prim" && kt.P == "PError" {
			// error keys: plain errors (a sentinel is a distinct key object with possibly the same text), sometimes nil
			if r.Intn(6) == 0 {
				key = &V{K: "errnil"}
			} else {
				key = &V{K: "err", S: g.smallBytes()}
			}
		} else {
			key = g.genVal(kt, depth+1, "inner")
		}
		dup := isNaNKey(key)
		for _, kv := range out.M {
			// equal after the canonical form too (e.g. -0.0 / +0.0 are the same Go map key: avoid floats)
			if eqV(kv[0], key) {
				dup = true
			}
		}
		if dup {
			continue
		}
		out.M = append(out.M, [2]*V{key, g.genVal(et, depth+1, "inner")})
	}
	return out
}

var regIDs = []uint16{4096, 4097, 5000, 32768, 65535, 40000, 4100}
var atomIDs = []uint16{255, 256, 257, 1000, 40000, 65535, 300}
var errIDs = []uint16{32767, 32768, 32769, 40000, 65534, 50000}

func (g *genCfg) genOpts() Opts {
	r := g.r
	var o Opts
	if r.Intn(2) == 0 {
		o.HasAtomCache = true
		perm := r.Perm(len(atomIDs))
		n := r.Intn(5)
		cands := [][]byte{[]byte("node@localhost"), []byte("abc"), []byte(""), []byte("dst-0"), rep('a', 255), []byte("x"), []byte("src-1")}
		pa := r.Perm(len(cands))
		for i := 0; i < n; i++ {
			o.AtomCache = append(o.AtomCache, AtomCacheEnt{Atom: string(cands[pa[i]]), ID: atomIDs[perm[i]]})
		}
	}
	if r.Intn(3) == 0 {
		o.HasAtomMap = true
		if r.Intn(4) > 0 {
			dst := "dst-0"
			switch r.Intn(6) {
			case 0:
				dst = string(rep('d', 255))
			case 1:
				if g.longMap {
					dst = string(rep('D', 256+r.Intn(200)))
				}
			}
			o.AtomMap = append(o.AtomMap, [2]string{"src-0", dst})
			if r.Intn(2) == 0 {
				o.AtomMap = append(o.AtomMap, [2]string{"src-1", "dst-1"})
			}
		}
	}
	if r.Intn(2) == 0 {
		o.HasRegCache = true
		perm := r.Perm(len(regIDs))
		pt := r.Perm(len(regTypes))
		n := r.Intn(len(regIDs))
		for i := 0; i < n; i++ {
			o.RegCache = append(o.RegCache, RegCacheEnt{Short: regTypes[pt[i]].Short, ID: regIDs[perm[i]]})
		}
	}
	if r.Intn(2) == 0 {
		o.HasErrCache = true
		perm := r.Perm(len(errIDs))
		ps := r.Perm(len(sentinels))
		n := r.Intn(len(sentinels))
		for i := 0; i < n; i++ {
			o.ErrCache = append(o.ErrCache, ErrCacheEnt{Sent: ps[i], ID: errIDs[perm[i]]})
		}
	}
	o.UseCache = r.Intn(3) == 0
	return o
}

// fixed boundary cases: a handful of large values
func (g *genCfg) boundaryCases() []Case {
	var cs []Case
	str := &T{K: "prim", P: "PString"}
	for _, n := range []int{32767, 32768, 65533, 65534, 65535, 65536} {
		cs = append(cs, Case{Label: "boundary-string", T: str, V: &V{K: "bytes", S: rep('s', n)}})
	}
	cs = append(cs, Case{Label: "boundary-string", T: &T{K: "slice", E: str},
		V: &V{K: "list", L: []*V{{K: "bytes", S: rep('t', 65535)}, {K: "bytes", S: []byte("tail")}}}})
	cs = append(cs, Case{Label: "boundary-string", T: &T{K: "any"}, Opts: Opts{},
		V: &V{K: "any", T: &T{K: "slice", E: &T{K: "any"}}, X: &V{K: "list", L: []*V{{K: "any", T: str, X: &V{K: "bytes", S: rep('u', 65534)}}}}}})
	cs[len(cs)-1].T = &T{K: "slice", E: &T{K: "any"}}
	cs[len(cs)-1].V = cs[len(cs)-1].V.X
	cs = append(cs, Case{Label: "boundary-string", T: &T{K: "reg", Name: "HStr"}, V: &V{K: "bytes", S: rep('h', 65535)}})
	cs = append(cs, Case{Label: "boundary-string", T: &T{K: "reg", Name: "HStr"}, V: &V{K: "bytes", S: rep('h', 65536)}})
	et := &T{K: "prim", P: "PError"}
	for _, n := range []int{32766, 32767, 32768, 65535} {
		cs = append(cs, Case{Label: "boundary-error", T: et, V: &V{K: "err", S: rep('%', n)}})
	}
	cs = append(cs, Case{Label: "boundary-error", T: &T{K: "slice", E: et}, V: &V{K: "list", L: []*V{{K: "err", S: rep('e', 32767)}, {K: "errnil"}}}})
	bt := &T{K: "prim", P: "PBinary"}
	for _, n := range []int{65535, 65536, 70001} {
		cs = append(cs, Case{Label: "boundary-binary", T: bt, V: &V{K: "bytes", S: rep(0xfe, n)}})
	}
	at := &T{K: "prim", P: "PAtom"}
	for _, n := range []int{254, 255, 256, 300} {
		cs = append(cs, Case{Label: "boundary-atom", T: at, V: &V{K: "bytes", S: rep('n', n)}})
		cs = append(cs, Case{Label: "boundary-atom", T: &T{K: "prim", P: "PPid"}, V: &V{K: "pid", Node: rep('n', n), U: 1, Cr: 2}})
		cs = append(cs, Case{Label: "boundary-atom", T: &T{K: "prim", P: "PEvent"}, V: &V{K: "names", Node: []byte("n"), Name: rep('n', n)}})
		cs = append(cs, Case{Label: "boundary-atom", T: at, V: &V{K: "bytes", S: rep('n', n)},
			Opts: Opts{HasAtomCache: true, AtomCache: []AtomCacheEnt{{Atom: string(rep('n', n)), ID: 256}}}})
	}
	// cache id thresholds
	for _, id := range []uint16{254, 255, 256, 257} {
		cs = append(cs, Case{Label: "threshold-atom", T: at, V: &V{K: "bytes", S: []byte("abc")},
			Opts: Opts{HasAtomCache: true, AtomCache: []AtomCacheEnt{{Atom: "abc", ID: id}}}})
	}
	for _, id := range []uint16{32766, 32767, 32768, 65534} {
		cs = append(cs, Case{Label: "threshold-error", T: et, V: &V{K: "err", Sent: 1, S: []byte(sentinels[0].Error())},
			Opts: Opts{HasErrCache: true, ErrCache: []ErrCacheEnt{{Sent: 0, ID: id}}}})
	}
	for _, id := range []uint16{4096, 4097, 65535} {
		cs = append(cs, Case{Label: "threshold-reg", T: &T{K: "reg", Name: "HPoint"}, V: &V{K: "list", L: []*V{{K: "int", I: -7}, {K: "int", I: 300}}},
			Opts: Opts{HasRegCache: true, RegCache: []RegCacheEnt{{Short: "HPoint", ID: id}}}})
	}
	// element counts around the byte boundaries of the uint32 count
	i8 := &T{K: "prim", P: "PInt8"}
	many := func(n int) *V {
		out := &V{K: "list", L: []*V{}}
		for i := 0; i < n; i++ {
			out.L = append(out.L, &V{K: "int", I: -3})
		}
		return out
	}
	counts := []int{255, 256, 257, 1000}
	if os.Getenv("VERIF_TIER") == "thorough" {
		counts = append(counts, 65535, 65536, 65537)
	}
	for _, n := range counts {
		cs = append(cs, Case{Label: "boundary-count", T: &T{K: "slice", E: i8}, V: many(n)})
	}
	cs = append(cs, Case{Label: "boundary-count", T: &T{K: "array", N: 256, E: i8}, V: many(256)})
	hl := many(257)
	cs = append(cs, Case{Label: "boundary-count", T: &T{K: "reg", Name: "HList"}, V: hl})
	cs = append(cs, Case{Label: "boundary-count", T: &T{K: "any"}, V: &V{K: "any", T: &T{K: "slice", E: &T{K: "any"}}, X: &V{K: "list", L: []*V{{K: "any", T: &T{K: "slice", E: i8}, X: many(256)}}}}})
	cs[len(cs)-1].T, cs[len(cs)-1].V = cs[len(cs)-1].V.T, cs[len(cs)-1].V.X
	bm := &V{K: "map", M: [][2]*V{}}
	for i := 0; i < 256; i++ {
		bm.M = append(bm.M, [2]*V{{K: "int", I: int64(i) - 100}, {K: "bool", B: i%3 == 0}})
	}
	cs = append(cs, Case{Label: "boundary-count", T: &T{K: "map", Key: &T{K: "prim", P: "PInt"}, E: &T{K: "prim", P: "PBool"}}, V: bm})
	// custom marshalers: payload sizes around the capacity of a fresh lib.Buffer (4096), so that the
	// buffer is reallocated while MarshalEDF writes (the length prefix is written afterwards)
	pat := markedBytes
	mt, bt2, lt := &T{K: "reg", Name: "HMar"}, &T{K: "reg", Name: "HBin"}, &T{K: "reg", Name: "HLate"}
	for _, n := range []int{0, 1, 2, 4078, 4079, 4080, 4091, 4092, 4093, 4094, 4095, 4096, 4097, 5000, 8192, 70000} {
		cs = append(cs, Case{Label: "marshaler", T: mt, V: &V{K: "marsh", S: pat(n)}})
		cs = append(cs, Case{Label: "marshaler", T: bt2, V: &V{K: "marsh", S: pat(n)}})
	}
	cs = append(cs, Case{Label: "marshaler", T: mt, V: &V{K: "marsh", S: pat(4090)},
		Opts: Opts{HasRegCache: true, RegCache: []RegCacheEnt{{Short: "HMar", ID: 4096}}}})
	late := func(pad, m, b int) *V {
		return &V{K: "list", L: []*V{{K: "bytes", S: pat(pad)}, {K: "marsh", S: pat(m)}, {K: "bytes", S: []byte("tail")},
			{K: "marsh", S: pat(b)}, {K: "int", I: -2}}}
	}
	for _, pad := range []int{0, 4000, 4050, 4060, 4064, 4065, 4066, 4067, 4068, 4070, 4090, 8100, 8170} {
		for _, m := range []int{0, 1, 5, 100, 5000} {
			cs = append(cs, Case{Label: "marshaler-late", T: lt, V: late(pad, m, 3)})
		}
	}
	cs = append(cs, Case{Label: "marshaler-late", T: lt, V: late(10, 10, 5000)})
	cs = append(cs, Case{Label: "marshaler-nested", T: &T{K: "slice", E: mt},
		V: &V{K: "list", L: []*V{{K: "marsh", S: pat(2000)}, {K: "marsh", S: pat(0)}, {K: "marsh", S: pat(2100)}, {K: "marsh", S: pat(7)}}}})
	cs = append(cs, Case{Label: "marshaler-nested", T: &T{K: "map", Key: &T{K: "prim", P: "PString"}, E: mt},
		V: &V{K: "map", M: [][2]*V{{{K: "bytes", S: pat(4070)}, {K: "marsh", S: pat(40)}}}}})
	cs = append(cs, Case{Label: "marshaler-nested", T: &T{K: "slice", E: &T{K: "any"}},
		V: &V{K: "list", L: []*V{{K: "any", T: str, X: &V{K: "bytes", S: pat(4060)}}, {K: "any", T: mt, X: &V{K: "marsh", S: pat(64)}},
			{K: "any", T: bt2, X: &V{K: "marsh", S: pat(5000)}}, {K: "anynil"}}}})
	cs = append(cs, Case{Label: "marshaler-nested", T: &T{K: "array", N: 2, E: lt}, V: &V{K: "list", L: []*V{late(2000, 30, 3), late(2000, 90, 0)}}})
	// deep nesting
	deep := &T{K: "prim", P: "PInt8"}
	dv := &V{K: "int", I: -128}
	for i := 0; i < 6; i++ {
		if i%2 == 0 {
			deep = &T{K: "slice", E: deep}
		} else {
			deep = &T{K: "array", N: 1, E: deep}
		}
		dv = &V{K: "list", L: []*V{dv}}
	}
	cs = append(cs, Case{Label: "deep", T: deep, V: dv})
	if g.zeroElem {
		cs = append(cs, Case{Label: "zero-width", T: &T{K: "array", N: 1, E: &T{K: "array", N: 0, E: &T{K: "prim", P: "PInt"}}},
			V: &V{K: "list", L: []*V{{K: "list", L: []*V{}}}}})
		cs = append(cs, Case{Label: "zero-width", T: &T{K: "slice", E: &T{K: "reg", Name: "HEmpty"}},
			V: &V{K: "list", L: []*V{{K: "list", L: []*V{}}, {K: "list", L: []*V{}}}}})
	}
	if g.arrayKey {
		cs = append(cs, Case{Label: "array-key", T: &T{K: "map", Key: &T{K: "array", N: 2, E: &T{K: "prim", P: "PInt8"}}, E: &T{K: "prim", P: "PString"}},
			V: &V{K: "map", M: [][2]*V{{{K: "list", L: []*V{{K: "int", I: 1}, {K: "int", I: 2}}}, {K: "bytes", S: []byte("x")}}}}})
	}
	if g.longMap {
		cs = append(cs, Case{Label: "atommap-long", T: at, V: &V{K: "bytes", S: []byte("src-0")},
			Opts: Opts{HasAtomMap: true, AtomMap: [][2]string{{"src-0", string(rep('D', 300))}}}})
		cs = append(cs, Case{Label: "atommap-long", T: at, V: &V{K: "bytes", S: []byte("src-0")},
			Opts: Opts{HasAtomMap: true, AtomMap: [][2]string{{"src-0", string(rep('D', 300))}},
				HasAtomCache: true, AtomCache: []AtomCacheEnt{{Atom: "abc", ID: 300}}}})
	}
	return cs
}

func (g *genCfg) randomCase() Case {
	if g.r.Intn(4) == 0 {
		return g.flagCase()
	}
	var t *T
	for {
		t = g.genType(0, false)
		if t.K != "any" {
			break
		}
	}
	c := Case{Label: "random", T: t, Opts: g.genOpts()}
	c.V = g.genVal(t, 0, "top")
	return c
}
