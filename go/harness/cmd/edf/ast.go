package main

import (
	"bytes"
	"encoding/hex"
	"errors"
	"fmt"
	"math"
	"reflect"
	"strings"
	"time"
	"unsafe"

	"ergo.services/ergo/gen"
)

// T: a Go type as the model sees it.
type T struct {
	K    string `json:"k"`           // prim any slice array map reg
	P    string `json:"p,omitempty"` // PInt ...
	N    int    `json:"n,omitempty"`
	E    *T     `json:"e,omitempty"`
	Key  *T     `json:"key,omitempty"`
	Name string `json:"name,omitempty"` // short Go name of a registered type
}

// V: a value as the model sees it.
type V struct {
	K    string  `json:"k"` // bool int f32 f64 bytes binnil errnil err pid names ref anynil any nil list map marsh (S = state of a marshaler value)
	B    bool    `json:"b,omitempty"`
	I    int64   `json:"i,omitempty"`
	U    uint64  `json:"u,omitempty"` // uint values, float bits, pid id
	S    []byte  `json:"s,omitempty"`
	Sent int     `json:"sent,omitempty"` // 1+index of the sentinel, 0 = none
	Node []byte  `json:"node,omitempty"`
	Name []byte  `json:"name,omitempty"`
	Cr   int64   `json:"cr,omitempty"`
	ID   [3]uint64 `json:"id,omitempty"`
	T    *T      `json:"t,omitempty"`
	X    *V      `json:"x,omitempty"`
	L    []*V    `json:"l,omitempty"`
	M    [][2]*V `json:"m,omitempty"`
}

var (
	anyType   = reflect.TypeOf((*any)(nil)).Elem()
	errType   = reflect.TypeOf((*error)(nil)).Elem()
	bytesType = reflect.TypeOf([]byte(nil))
	timeType  = reflect.TypeOf(time.Time{})
)

var primTypes = map[string]reflect.Type{
	"PBool": reflect.TypeOf(false), "PInt": reflect.TypeOf(int(0)), "PInt8": reflect.TypeOf(int8(0)),
	"PInt16": reflect.TypeOf(int16(0)), "PInt32": reflect.TypeOf(int32(0)), "PInt64": reflect.TypeOf(int64(0)),
	"PUint": reflect.TypeOf(uint(0)), "PUint8": reflect.TypeOf(uint8(0)), "PUint16": reflect.TypeOf(uint16(0)),
	"PUint32": reflect.TypeOf(uint32(0)), "PUint64": reflect.TypeOf(uint64(0)),
	"PFloat32": reflect.TypeOf(float32(0)), "PFloat64": reflect.TypeOf(float64(0)),
	"PString": reflect.TypeOf(""), "PBinary": bytesType, "PAtom": reflect.TypeOf(gen.Atom("")),
	"PError": errType, "PPid": reflect.TypeOf(gen.PID{}), "PProcessID": reflect.TypeOf(gen.ProcessID{}),
	"PRef": reflect.TypeOf(gen.Ref{}), "PAlias": reflect.TypeOf(gen.Alias{}), "PEvent": reflect.TypeOf(gen.Event{}),
	"PTime": timeType,
}
var primByType = map[reflect.Type]string{}

func init() {
	for k, v := range primTypes {
		primByType[v] = k
	}
}

func goType(t *T) reflect.Type {
	switch t.K {
	case "prim":
		return primTypes[t.P]
	case "any":
		return anyType
	case "slice":
		return reflect.SliceOf(goType(t.E))
	case "array":
		return reflect.ArrayOf(t.N, goType(t.E))
	case "map":
		return reflect.MapOf(goType(t.Key), goType(t.E))
	case "reg":
		return regByShort[t.Name].Type
	}
	panic("goType: " + t.K)
}

func modelType(rt reflect.Type) *T {
	if p, ok := primByType[rt]; ok {
		return &T{K: "prim", P: p}
	}
	if rt == anyType {
		return &T{K: "any"}
	}
	if r, ok := regByType[rt]; ok {
		return &T{K: "reg", Name: r.Short}
	}
	if rt.Implements(errType) {
		return &T{K: "prim", P: "PError"}
	}
	switch rt.Kind() {
	case reflect.Slice:
		return &T{K: "slice", E: modelType(rt.Elem())}
	case reflect.Array:
		return &T{K: "array", N: rt.Len(), E: modelType(rt.Elem())}
	case reflect.Map:
		return &T{K: "map", Key: modelType(rt.Key()), E: modelType(rt.Elem())}
	}
	panic(fmt.Sprintf("modelType: unsupported %v", rt))
}

func setBits32(v reflect.Value, bits uint32) { *(*uint32)(v.Addr().UnsafePointer()) = bits }
func setBits64(v reflect.Value, bits uint64) { *(*uint64)(v.Addr().UnsafePointer()) = bits }
func addressable(v reflect.Value) reflect.Value {
	if v.CanAddr() {
		return v
	}
	p := reflect.New(v.Type())
	p.Elem().Set(v)
	return p.Elem()
}

// toGo builds the Go value (addressable) of Go type rt from v.
func toGo(rt reflect.Type, v *V) reflect.Value {
	out := reflect.New(rt).Elem()
	switch rt {
	case primTypes["PPid"]:
		out.Set(reflect.ValueOf(gen.PID{Node: gen.Atom(v.Node), ID: v.U, Creation: v.Cr}))
		return out
	case primTypes["PProcessID"]:
		out.Set(reflect.ValueOf(gen.ProcessID{Node: gen.Atom(v.Node), Name: gen.Atom(v.Name)}))
		return out
	case primTypes["PEvent"]:
		out.Set(reflect.ValueOf(gen.Event{Node: gen.Atom(v.Node), Name: gen.Atom(v.Name)}))
		return out
	case primTypes["PRef"]:
		out.Set(reflect.ValueOf(gen.Ref{Node: gen.Atom(v.Node), Creation: v.Cr, ID: v.ID}))
		return out
	case primTypes["PAlias"]:
		out.Set(reflect.ValueOf(gen.Alias{Node: gen.Atom(v.Node), Creation: v.Cr, ID: v.ID}))
		return out
	case timeType:
		var t time.Time
		if err := t.UnmarshalBinary(v.S); err != nil {
			panic(err)
		}
		out.Set(reflect.ValueOf(t))
		return out
	case bytesType:
		if v.K == "binnil" {
			return out
		}
		out.SetBytes(append([]byte{}, v.S...))
		return out
	case errType:
		switch v.K {
		case "errnil":
		case "err":
			if v.Sent > 0 {
				out.Set(reflect.ValueOf(sentinels[v.Sent-1]))
			} else {
				out.Set(reflect.ValueOf(errors.New(string(v.S))))
			}
		default:
			panic("toGo error: " + v.K)
		}
		return out
	case anyType:
		if v.K == "anynil" {
			return out
		}
		out.Set(toGo(goType(v.T), v.X))
		return out
	case hmarType:
		out.Set(reflect.ValueOf(HMar{Data: append([]byte{}, v.S...)}))
		return out
	case hbinType:
		out.Set(reflect.ValueOf(HBin{S: string(v.S)}))
		return out
	}
	switch rt.Kind() {
	case reflect.Bool:
		out.SetBool(v.B)
	case reflect.Int, reflect.Int8, reflect.Int16, reflect.Int32, reflect.Int64:
		out.SetInt(v.I)
	case reflect.Uint, reflect.Uint8, reflect.Uint16, reflect.Uint32, reflect.Uint64:
		out.SetUint(v.U)
	case reflect.Float32:
		setBits32(out, uint32(v.U))
	case reflect.Float64:
		setBits64(out, v.U)
	case reflect.String:
		out.SetString(string(v.S))
	case reflect.Slice:
		if v.K == "nil" {
			return out
		}
		out.Set(reflect.MakeSlice(rt, len(v.L), len(v.L)))
		for i, e := range v.L {
			out.Index(i).Set(toGo(rt.Elem(), e))
		}
	case reflect.Array:
		for i, e := range v.L {
			out.Index(i).Set(toGo(rt.Elem(), e))
		}
	case reflect.Map:
		if v.K == "nil" {
			return out
		}
		out.Set(reflect.MakeMap(rt))
		for _, kv := range v.M {
			out.SetMapIndex(toGo(rt.Key(), kv[0]), toGo(rt.Elem(), kv[1]))
		}
	case reflect.Struct:
		for i, e := range v.L {
			out.Field(i).Set(toGo(rt.Field(i).Type, e))
		}
	default:
		panic(fmt.Sprintf("toGo: %v", rt))
	}
	return out
}

func errToV(e error) *V {
	for i, s := range sentinels {
		if s == e {
			return &V{K: "err", Sent: i + 1, S: []byte(e.Error())}
		}
	}
	return &V{K: "err", S: []byte(e.Error())}
}

// fromGo reads a Go value back into the model's view.
func fromGo(rv reflect.Value) *V {
	rt := rv.Type()
	switch rt {
	case primTypes["PPid"]:
		p := rv.Interface().(gen.PID)
		return &V{K: "pid", Node: []byte(p.Node), U: p.ID, Cr: p.Creation}
	case primTypes["PProcessID"]:
		p := rv.Interface().(gen.ProcessID)
		return &V{K: "names", Node: []byte(p.Node), Name: []byte(p.Name)}
	case primTypes["PEvent"]:
		p := rv.Interface().(gen.Event)
		return &V{K: "names", Node: []byte(p.Node), Name: []byte(p.Name)}
	case primTypes["PRef"]:
		p := rv.Interface().(gen.Ref)
		return &V{K: "ref", Node: []byte(p.Node), Cr: p.Creation, ID: p.ID}
	case primTypes["PAlias"]:
		p := rv.Interface().(gen.Alias)
		return &V{K: "ref", Node: []byte(p.Node), Cr: p.Creation, ID: p.ID}
	case timeType:
		b, err := rv.Interface().(time.Time).MarshalBinary()
		if err != nil {
			panic(err)
		}
		return &V{K: "bytes", S: b}
	case bytesType:
		if rv.IsNil() {
			return &V{K: "binnil"}
		}
		return &V{K: "bytes", S: append([]byte{}, rv.Bytes()...)}
	case errType:
		if rv.IsNil() {
			return &V{K: "errnil"}
		}
		return errToV(rv.Interface().(error))
	case anyType:
		if rv.IsNil() {
			return &V{K: "anynil"}
		}
		e := rv.Elem()
		return &V{K: "any", T: modelType(e.Type()), X: fromGo(e)}
	case hmarType:
		return &V{K: "marsh", S: append([]byte{}, rv.Interface().(HMar).Data...)}
	case hbinType:
		return &V{K: "marsh", S: []byte(rv.Interface().(HBin).S)}
	}
	if _, isReg := regByType[rt]; !isReg && rt.Implements(errType) {
		return errToV(rv.Interface().(error))
	}
	switch rt.Kind() {
	case reflect.Bool:
		return &V{K: "bool", B: rv.Bool()}
	case reflect.Int, reflect.Int8, reflect.Int16, reflect.Int32, reflect.Int64:
		return &V{K: "int", I: rv.Int()}
	case reflect.Uint, reflect.Uint8, reflect.Uint16, reflect.Uint32, reflect.Uint64:
		return &V{K: "uint", U: rv.Uint()}
	case reflect.Float32:
		a := addressable(rv)
		return &V{K: "f32", U: uint64(*(*uint32)(a.Addr().UnsafePointer()))}
	case reflect.Float64:
		a := addressable(rv)
		return &V{K: "f64", U: *(*uint64)(a.Addr().UnsafePointer())}
	case reflect.String:
		return &V{K: "bytes", S: []byte(rv.String())}
	case reflect.Slice:
		if rv.IsNil() {
			return &V{K: "nil"}
		}
		out := &V{K: "list", L: []*V{}}
		for i := 0; i < rv.Len(); i++ {
			out.L = append(out.L, fromGo(rv.Index(i)))
		}
		return out
	case reflect.Array:
		out := &V{K: "list", L: []*V{}}
		for i := 0; i < rv.Len(); i++ {
			out.L = append(out.L, fromGo(rv.Index(i)))
		}
		return out
	case reflect.Map:
		if rv.IsNil() {
			return &V{K: "nil"}
		}
		out := &V{K: "map", M: [][2]*V{}}
		it := rv.MapRange()
		for it.Next() {
			out.M = append(out.M, [2]*V{fromGo(it.Key()), fromGo(it.Value())})
		}
		return out
	case reflect.Struct:
		out := &V{K: "list", L: []*V{}}
		for i := 0; i < rv.NumField(); i++ {
			out.L = append(out.L, fromGo(rv.Field(i)))
		}
		return out
	}
	panic(fmt.Sprintf("fromGo: %v", rt))
}

func _unused() { _ = unsafe.Pointer(nil); _ = math.Pi }

// ---- equality of model views (maps unordered) ----

func eqT(a, b *T) bool {
	if a == nil || b == nil {
		return a == b
	}
	return a.K == b.K && a.P == b.P && a.N == b.N && a.Name == b.Name && eqT(a.E, b.E) && eqT(a.Key, b.Key)
}

func eqV(a, b *V) bool {
	if a == nil || b == nil {
		return a == b
	}
	if a.K != b.K || a.B != b.B || a.I != b.I || a.U != b.U || a.Sent != b.Sent || a.Cr != b.Cr || a.ID != b.ID ||
		!bytes.Equal(a.S, b.S) || !bytes.Equal(a.Node, b.Node) || !bytes.Equal(a.Name, b.Name) || !eqT(a.T, b.T) || !eqV(a.X, b.X) {
		return false
	}
	if len(a.L) != len(b.L) || len(a.M) != len(b.M) {
		return false
	}
	for i := range a.L {
		if !eqV(a.L[i], b.L[i]) {
			return false
		}
	}
	for _, kv := range a.M {
		found := false
		for _, kw := range b.M {
			if eqV(kv[0], kw[0]) && eqV(kv[1], kw[1]) {
				found = true
				break
			}
		}
		if !found {
			return false
		}
	}
	return true
}

func quiet32(b uint32) uint32 {
	if b&0x7f800000 == 0x7f800000 && b&0x007fffff != 0 {
		return b | 0x00400000
	}
	return b
}

// canon: what the property allows to differ (mirrors Edf.Model.canon).
func canon(v *V, cachedSent map[int]bool) *V {
	if v == nil {
		return nil
	}
	c := *v
	switch v.K {
	case "f32":
		c.U = uint64(quiet32(uint32(v.U)))
	case "binnil":
		c.K = "bytes"
		c.S = nil
	case "err":
		if v.Sent > 0 && !cachedSent[v.Sent-1] {
			c.Sent = 0
		}
	}
	c.X = canon(v.X, cachedSent)
	if v.L != nil {
		c.L = make([]*V, len(v.L))
		for i := range v.L {
			c.L[i] = canon(v.L[i], cachedSent)
		}
	}
	if v.M != nil {
		c.M = make([][2]*V, len(v.M))
		for i := range v.M {
			c.M[i] = [2]*V{canon(v.M[i][0], cachedSent), canon(v.M[i][1], cachedSent)}
		}
	}
	return &c
}

// ---- Coq printing ----

func coqBytes(b []byte) string {
	if len(b) == 0 {
		return "[]"
	}
	// longest run of one byte
	best, bi := 0, 0
	for i := 0; i < len(b); {
		j := i
		for j < len(b) && b[j] == b[i] {
			j++
		}
		if j-i > best {
			best, bi = j-i, i
		}
		i = j
	}
	if best >= 48 {
		var parts []string
		if bi > 0 {
			parts = append(parts, coqBytes(b[:bi]))
		}
		parts = append(parts, fmt.Sprintf("rp %d \"%02x\"", best, b[bi]))
		if bi+best < len(b) {
			parts = append(parts, coqBytes(b[bi+best:]))
		}
		return "(" + strings.Join(parts, " ++ ") + ")"
	}
	return "(hx \"" + hex.EncodeToString(b) + "\")"
}

func coqT(t *T) string {
	switch t.K {
	case "prim":
		return "(TPrim " + t.P + ")"
	case "any":
		return "TAny"
	case "slice":
		return "(TSlice " + coqT(t.E) + ")"
	case "array":
		return fmt.Sprintf("(TArray %d %s)", t.N, coqT(t.E))
	case "map":
		return "(TMap " + coqT(t.Key) + " " + coqT(t.E) + ")"
	case "reg":
		return "(TReg rn_" + t.Name + ")"
	}
	panic("coqT")
}

func coqZ(i int64) string {
	if i < 0 {
		return fmt.Sprintf("(%d)%%Z", i)
	}
	return fmt.Sprintf("%d%%Z", i)
}

func coqV(v *V) string {
	switch v.K {
	case "bool":
		if v.B {
			return "(VBool true)"
		}
		return "(VBool false)"
	case "int":
		return "(VInt " + coqZ(v.I) + ")"
	case "uint":
		return fmt.Sprintf("(VInt %d%%Z)", v.U)
	case "f32":
		return fmt.Sprintf("(VF32 %d)", v.U)
	case "f64":
		return fmt.Sprintf("(VF64 %d)", v.U)
	case "bytes":
		return "(VBytes " + coqBytes(v.S) + ")"
	case "binnil":
		return "VBinNil"
	case "errnil":
		return "VErrNil"
	case "err":
		if v.Sent > 0 {
			return fmt.Sprintf("(VErr (Some %d) %s)", v.Sent-1, coqBytes(v.S))
		}
		return "(VErr None " + coqBytes(v.S) + ")"
	case "pid":
		return fmt.Sprintf("(VPid %s %d %s)", coqBytes(v.Node), v.U, coqZ(v.Cr))
	case "names":
		return fmt.Sprintf("(VNames %s %s)", coqBytes(v.Node), coqBytes(v.Name))
	case "ref":
		return fmt.Sprintf("(VRef %s %s %d %d %d)", coqBytes(v.Node), coqZ(v.Cr), v.ID[0], v.ID[1], v.ID[2])
	case "anynil":
		return "VAnyNil"
	case "marsh":
		return "(VMarsh " + coqBytes(v.S) + ")"
	case "any":
		return "(VAny " + coqT(v.T) + " " + coqV(v.X) + ")"
	case "nil":
		return "VNil"
	case "list":
		if len(v.L) >= 200 {
			same := true
			for _, e := range v.L[1:] {
				if !eqV(e, v.L[0]) {
					same = false
					break
				}
			}
			if same {
				return fmt.Sprintf("(VList (lrep %d [%s]))", len(v.L), coqV(v.L[0]))
			}
		}
		p := make([]string, len(v.L))
		for i, e := range v.L {
			p[i] = coqV(e)
		}
		return "(VList [" + strings.Join(p, "; ") + "])"
	case "map":
		p := make([]string, len(v.M))
		for i, e := range v.M {
			p[i] = "(" + coqV(e[0]) + ", " + coqV(e[1]) + ")"
		}
		return "(VMap [" + strings.Join(p, "; ") + "])"
	}
	panic("coqV " + v.K)
}

// registry as Coq definitions (prelude of the cases files)
func coqPrelude() string {
	var sb strings.Builder
	var ents []string
	for _, r := range regTypes {
		fmt.Fprintf(&sb, "Definition rn_%s : bytes := hx \"%s\".\n", r.Short, hex.EncodeToString([]byte(r.Name)))
		var def string
		rt := r.Type
		switch {
		case rt == hmarType:
			def = "RMarsh mar_xor unmar_xor"
		case rt == hbinType:
			def = "RMarsh mar_rev unmar_rev"
		}
		if def != "" {
			ents = append(ents, fmt.Sprintf("(rn_%s, %s)", r.Short, def))
			continue
		}
		switch rt.Kind() {
		case reflect.Struct:
			var fs []string
			for i := 0; i < rt.NumField(); i++ {
				fs = append(fs, coqT(modelType(rt.Field(i).Type)))
			}
			def = "RStruct [" + strings.Join(fs, "; ") + "]"
		case reflect.Slice:
			def = "RSlice " + coqT(modelType(rt.Elem()))
		case reflect.Array:
			def = fmt.Sprintf("RArray %d %s", rt.Len(), coqT(modelType(rt.Elem())))
		case reflect.Map:
			def = "RMap " + coqT(modelType(rt.Key())) + " " + coqT(modelType(rt.Elem()))
		default:
			// named primitive: the unnamed type of the same kind
			for p, pt := range primTypes {
				if pt.Kind() == rt.Kind() && pt.PkgPath() == "" && pt != bytesType && pt != errType {
					def = "RPrim " + p
				}
			}
		}
		ents = append(ents, fmt.Sprintf("(rn_%s, %s)", r.Short, def))
	}
	fmt.Fprintf(&sb, "Definition hreg : list (bytes * rdef) := [%s].\n", strings.Join(ents, ";\n  "))
	return sb.String()
}
