package main

// pool of registrable struct types for the window family (edf's registry lives as long as the process)
type WinT00 struct{ A int }
type WinT01 struct{ A int }
type WinT02 struct{ A int }
type WinT03 struct{ A int }
type WinT04 struct{ A int }
type WinT05 struct{ A int }
type WinT06 struct{ A int }
type WinT07 struct{ A int }
type WinT08 struct{ A int }
type WinT09 struct{ A int }
type WinT10 struct{ A int }
type WinT11 struct{ A int }
type WinT12 struct{ A int }
type WinT13 struct{ A int }
type WinT14 struct{ A int }
type WinT15 struct{ A int }
type WinT16 struct{ A int }
type WinT17 struct{ A int }
type WinT18 struct{ A int }
type WinT19 struct{ A int }
type WinT20 struct{ A int }
type WinT21 struct{ A int }
type WinT22 struct{ A int }
type WinT23 struct{ A int }
type WinT24 struct{ A int }
type WinT25 struct{ A int }
type WinT26 struct{ A int }
type WinT27 struct{ A int }
type WinT28 struct{ A int }
type WinT29 struct{ A int }
type WinT30 struct{ A int }
type WinT31 struct{ A int }
type WinT32 struct{ A int }
type WinT33 struct{ A int }
type WinT34 struct{ A int }
type WinT35 struct{ A int }
type WinT36 struct{ A int }
type WinT37 struct{ A int }
type WinT38 struct{ A int }
type WinT39 struct{ A int }
type WinT40 struct{ A int }
type WinT41 struct{ A int }
type WinT42 struct{ A int }
type WinT43 struct{ A int }
type WinT44 struct{ A int }
type WinT45 struct{ A int }
type WinT46 struct{ A int }
type WinT47 struct{ A int }
type WinT48 struct{ A int }
type WinT49 struct{ A int }
type WinT50 struct{ A int }
type WinT51 struct{ A int }
type WinT52 struct{ A int }
type WinT53 struct{ A int }
type WinT54 struct{ A int }
type WinT55 struct{ A int }
type WinT56 struct{ A int }
type WinT57 struct{ A int }
type WinT58 struct{ A int }
type WinT59 struct{ A int }
type WinT60 struct{ A int }
type WinT61 struct{ A int }
type WinT62 struct{ A int }
type WinT63 struct{ A int }
type WinT64 struct{ A int }
type WinT65 struct{ A int }
type WinT66 struct{ A int }
type WinT67 struct{ A int }
type WinT68 struct{ A int }
type WinT69 struct{ A int }
type WinT70 struct{ A int }
type WinT71 struct{ A int }
type WinT72 struct{ A int }
type WinT73 struct{ A int }
type WinT74 struct{ A int }
type WinT75 struct{ A int }
type WinT76 struct{ A int }
type WinT77 struct{ A int }
type WinT78 struct{ A int }
type WinT79 struct{ A int }
type WinT80 struct{ A int }
type WinT81 struct{ A int }
type WinT82 struct{ A int }
type WinT83 struct{ A int }
type WinT84 struct{ A int }
type WinT85 struct{ A int }
type WinT86 struct{ A int }
type WinT87 struct{ A int }
type WinT88 struct{ A int }
type WinT89 struct{ A int }
type WinT90 struct{ A int }
type WinT91 struct{ A int }
type WinT92 struct{ A int }
type WinT93 struct{ A int }
type WinT94 struct{ A int }
type WinT95 struct{ A int }

var winTypes = []any{
	WinT00{A: 100},
	WinT01{A: 101},
	WinT02{A: 102},
	WinT03{A: 103},
	WinT04{A: 104},
	WinT05{A: 105},
	WinT06{A: 106},
	WinT07{A: 107},
	WinT08{A: 108},
	WinT09{A: 109},
	WinT10{A: 110},
	WinT11{A: 111},
	WinT12{A: 112},
	WinT13{A: 113},
	WinT14{A: 114},
	WinT15{A: 115},
	WinT16{A: 116},
	WinT17{A: 117},
	WinT18{A: 118},
	WinT19{A: 119},
	WinT20{A: 120},
	WinT21{A: 121},
	WinT22{A: 122},
	WinT23{A: 123},
	WinT24{A: 124},
	WinT25{A: 125},
	WinT26{A: 126},
	WinT27{A: 127},
	WinT28{A: 128},
	WinT29{A: 129},
	WinT30{A: 130},
	WinT31{A: 131},
	WinT32{A: 132},
	WinT33{A: 133},
	WinT34{A: 134},
	WinT35{A: 135},
	WinT36{A: 136},
	WinT37{A: 137},
	WinT38{A: 138},
	WinT39{A: 139},
	WinT40{A: 140},
	WinT41{A: 141},
	WinT42{A: 142},
	WinT43{A: 143},
	WinT44{A: 144},
	WinT45{A: 145},
	WinT46{A: 146},
	WinT47{A: 147},
	WinT48{A: 148},
	WinT49{A: 149},
	WinT50{A: 150},
	WinT51{A: 151},
	WinT52{A: 152},
	WinT53{A: 153},
	WinT54{A: 154},
	WinT55{A: 155},
	WinT56{A: 156},
	WinT57{A: 157},
	WinT58{A: 158},
	WinT59{A: 159},
	WinT60{A: 160},
	WinT61{A: 161},
	WinT62{A: 162},
	WinT63{A: 163},
	WinT64{A: 164},
	WinT65{A: 165},
	WinT66{A: 166},
	WinT67{A: 167},
	WinT68{A: 168},
	WinT69{A: 169},
	WinT70{A: 170},
	WinT71{A: 171},
	WinT72{A: 172},
	WinT73{A: 173},
	WinT74{A: 174},
	WinT75{A: 175},
	WinT76{A: 176},
	WinT77{A: 177},
	WinT78{A: 178},
	WinT79{A: 179},
	WinT80{A: 180},
	WinT81{A: 181},
	WinT82{A: 182},
	WinT83{A: 183},
	WinT84{A: 184},
	WinT85{A: 185},
	WinT86{A: 186},
	WinT87{A: 187},
	WinT88{A: 188},
	WinT89{A: 189},
	WinT90{A: 190},
	WinT91{A: 191},
	WinT92{A: 192},
	WinT93{A: 193},
	WinT94{A: 194},
	WinT95{A: 195},
}
