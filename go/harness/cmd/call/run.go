package main

import (
	"errors"
	"fmt"
	"strings"
	"sync"
	"time"

	"ergo.services/ergo/act"
	"ergo.services/ergo/gen"
	"verifharness/util"
)

// ---- case description ---------------------------------------------------------------------------------

// Step of a script.
//
//	call:       K = call number, Callee = callee index, Via = pid|name|alias|meta|unknown|self,
//	            Mode = async|sync|syncstop (callee's HandleCall: nil | reply | reply+normal exit), Long = 20 s timeout (else 1 s)
//	resp:       process By (0..: callees, 100..: helpers) sends a response with the reference of request K
//	            (K = -1: a fresh reference never given to the caller); Err = SendResponseError
//	recv:       the caller's select is granted one pass (a response is in the channel)
//	timeout:    the caller's select is granted one pass with an empty channel: the timer fires
//	killcallee: Node.Kill(callee)
//	killcaller: Node.Kill(caller)
//	gone:       wait until the caller has been unregistered
type Step struct {
	Op     string `json:"op"`
	K      int    `json:"k,omitempty"`
	Callee int    `json:"callee,omitempty"`
	Via    string `json:"via,omitempty"`
	Mode   string `json:"mode,omitempty"`
	Long   bool   `json:"long,omitempty"`
	By     int    `json:"by,omitempty"`
	Err    bool   `json:"err,omitempty"`
}

type Case struct {
	Steps   []Step   `json:"steps"`
	NCallee int      `json:"ncallee"`
	Family  string   `json:"family"`
	Tags    []string `json:"tags"`
}

type Obs struct {
	K    int
	Kind int
	Pay  int64
	Err  bool
}

type Result struct {
	Events    []string // Coq terms
	Results   []Obs
	Sends     []int
	Presented [][2]int
	Tokens    []int
	Stalled   string
	BadFrom   int // requests seen by a callee with a sender different from the caller
}

const stallLimit = 6 * time.Second

// ---- gate: the caller's select in waitResponse ------------------------------------------------------------

type gate struct {
	arrive chan struct{}
	token  chan struct{}
}

var gates sync.Map // gen.PID -> *gate

func hook(label string, obj any) {
	if label != "wait.select" {
		return
	}
	p, ok := obj.(gen.Process)
	if !ok {
		return
	}
	g, ok := gates.Load(p.PID())
	if !ok {
		return
	}
	gt := g.(*gate)
	gt.arrive <- struct{}{}
	<-gt.token
}

// ---- messages ---------------------------------------------------------------------------------------------

type request struct {
	K    int
	Mode string
	Pay  int64
}
type reply struct{ Pay int64 }
type replyErr struct{ Pay int64 }

func (e replyErr) Error() string { return fmt.Sprintf("reply-error-%d", e.Pay) }

type callResult struct {
	v   any
	err error
}
type cmdCall struct {
	to      any
	req     request
	timeout int
	done    chan callResult
}
type cmdRespond struct {
	to    gen.PID
	ref   gen.Ref
	pay   int64
	isErr bool
	done  chan error
}
type seenReq struct {
	callee int
	k      int
	from   gen.PID
	ref    gen.Ref
}

// ---- actors -----------------------------------------------------------------------------------------------

type caller struct{ act.Actor }

func (c *caller) HandleMessage(from gen.PID, message any) error {
	if m, ok := message.(cmdCall); ok {
		v, err := c.CallWithTimeout(m.to, m.req, m.timeout)
		m.done <- callResult{v, err}
	}
	return nil
}

// callee: also a responder
type callee struct {
	act.Actor
	idx   int
	seen  chan seenReq
	alias gen.Alias
	meta  gen.Alias
	ready chan [2]gen.Alias
}

func (c *callee) Init(args ...any) error {
	c.idx = args[0].(int)
	c.seen = args[1].(chan seenReq)
	c.ready = args[2].(chan [2]gen.Alias)
	m, err := c.SpawnMeta(&metaCallee{idx: c.idx + 50, seen: c.seen, stop: make(chan struct{})}, gen.MetaOptions{})
	if err != nil {
		return err
	}
	c.meta = m
	return nil
}

type cmdSetup struct{}

func (c *callee) HandleCall(from gen.PID, ref gen.Ref, req any) (any, error) {
	r, ok := req.(request)
	if !ok {
		return nil, nil
	}
	c.seen <- seenReq{c.idx, r.K, from, ref}
	switch r.Mode {
	case "sync":
		return reply{r.Pay}, nil
	case "syncstop":
		return reply{r.Pay}, gen.TerminateReasonNormal
	}
	return nil, nil // asynchronous: somebody answers later
}

func respond(p interface {
	SendResponse(to gen.PID, ref gen.Ref, message any) error
	SendResponseError(to gen.PID, ref gen.Ref, err error) error
}, m cmdRespond) {
	if m.isErr {
		m.done <- p.SendResponseError(m.to, m.ref, replyErr{m.pay})
	} else {
		m.done <- p.SendResponse(m.to, m.ref, reply{m.pay})
	}
}

func (c *callee) HandleMessage(from gen.PID, message any) error {
	switch m := message.(type) {
	case cmdRespond:
		respond(c, m)
	case cmdSetup:
		a, _ := c.CreateAlias() // not allowed during Init; on failure the zero alias (calls via it fail at once)
		c.alias = a
		c.ready <- [2]gen.Alias{a, c.meta}
	}
	return nil
}

type helperAct struct{ act.Actor }

func (h *helperAct) HandleMessage(from gen.PID, message any) error {
	if m, ok := message.(cmdRespond); ok {
		respond(h, m)
	}
	return nil
}

// meta callee: replies synchronously (or never: a meta process has no SendResponse)
type metaCallee struct {
	gen.MetaProcess
	idx  int
	seen chan seenReq
	stop chan struct{}
}

func (m *metaCallee) Init(p gen.MetaProcess) error { m.MetaProcess = p; return nil }
func (m *metaCallee) Start() error                 { <-m.stop; return nil }
func (m *metaCallee) HandleMessage(from gen.PID, message any) error {
	return nil
}
func (m *metaCallee) HandleCall(from gen.PID, ref gen.Ref, req any) (any, error) {
	r, ok := req.(request)
	if !ok {
		return nil, nil
	}
	m.seen <- seenReq{m.idx, r.K, from, ref}
	if r.Mode == "sync" {
		return reply{r.Pay}, nil
	}
	return nil, nil
}
func (m *metaCallee) Terminate(reason error) {
	select {
	case <-m.stop:
	default:
		close(m.stop)
	}
}
func (m *metaCallee) HandleInspect(from gen.PID, item ...string) map[string]string { return nil }

// ---- executor ------------------------------------------------------------------------------------------------

func coqRef(r gen.Ref) string {
	return fmt.Sprintf("(%d%%N, %d%%N, %d%%N)", r.ID[0], r.ID[1], r.ID[2])
}

func deliveryCode(err error) int {
	switch {
	case errors.Is(err, gen.ErrProcessUnknown):
		return 1
	case errors.Is(err, gen.ErrProcessTerminated):
		return 2
	case errors.Is(err, gen.ErrProcessMailboxFull):
		return 3
	case errors.Is(err, gen.ErrNotAllowed):
		return 4
	case errors.Is(err, gen.ErrMetaUnknown):
		return 5
	}
	return 9
}

func sendCode(err error) int {
	switch {
	case err == nil:
		return 0
	case errors.Is(err, gen.ErrResponseIgnored):
		return 1
	case errors.Is(err, gen.ErrProcessUnknown):
		return 2
	}
	return 9
}

func waitGone(node gen.Node, pid gen.PID) bool {
	deadline := time.Now().Add(stallLimit)
	for time.Now().Before(deadline) {
		if _, err := node.ProcessInfo(pid); err != nil {
			return true
		}
		time.Sleep(200 * time.Microsecond)
	}
	return false
}

// waitHandled: the callee (process or meta process) is asleep on an empty mailbox again, or gone
func waitHandled(node gen.Node, pid gen.PID, meta gen.Alias, viaMeta bool) {
	deadline := time.Now().Add(stallLimit)
	for time.Now().Before(deadline) {
		if viaMeta {
			info, err := node.MetaInfo(meta)
			if err != nil || (info.State == gen.MetaStateSleep && info.MailboxQueues.Main == 0 && info.MailboxQueues.System == 0) {
				return
			}
		} else {
			info, err := node.ProcessInfo(pid)
			if err != nil {
				return
			}
			q := info.MailboxQueues
			if info.State == gen.ProcessStateSleep && q.Main == 0 && q.System == 0 && q.Urgent == 0 {
				return
			}
		}
		time.Sleep(100 * time.Microsecond)
	}
}

func runCase(node gen.Node, caseNo int, c Case) *Result {
	res := &Result{}
	stall := func(f string, a ...any) *Result {
		if res.Stalled == "" {
			res.Stalled = fmt.Sprintf(f, a...)
		}
		return res
	}
	nc := c.NCallee
	if nc < 1 {
		nc = 1
	}
	seen := make(chan seenReq, 64)
	type calleeInfo struct {
		pid   gen.PID
		name  gen.Atom
		alias gen.Alias
		meta  gen.Alias
	}
	callees := make([]calleeInfo, nc)
	for i := 0; i < nc; i++ {
		ready := make(chan [2]gen.Alias, 1)
		name := gen.Atom(fmt.Sprintf("callee_%d_%d", caseNo, i))
		pid, err := node.SpawnRegister(name, func() gen.ProcessBehavior { return &callee{} }, gen.ProcessOptions{}, i, seen, ready)
		if err != nil {
			return stall("setup: spawn callee: %v", err)
		}
		if err := node.Send(pid, cmdSetup{}); err != nil {
			return stall("setup: callee unreachable: %v", err)
		}
		var al [2]gen.Alias
		select {
		case al = <-ready:
		case <-time.After(stallLimit):
			return stall("setup: callee did not answer")
		}
		callees[i] = calleeInfo{pid, name, al[0], al[1]}
	}
	helpers := make([]gen.PID, 2)
	for i := range helpers {
		pid, err := node.Spawn(func() gen.ProcessBehavior { return &helperAct{} }, gen.ProcessOptions{})
		if err != nil {
			panic(err)
		}
		helpers[i] = pid
	}
	callerPID, err := node.Spawn(func() gen.ProcessBehavior { return &caller{} }, gen.ProcessOptions{})
	if err != nil {
		panic(err)
	}
	gt := &gate{arrive: make(chan struct{}, 1), token: make(chan struct{}, 1)}
	gates.Store(callerPID, gt)
	defer func() {
		gates.Delete(callerPID)
		// release a caller that is still parked, then remove everything
		select {
		case gt.token <- struct{}{}:
		default:
		}
		node.Kill(callerPID)
		go func() {
			for i := 0; i < 64; i++ {
				select {
				case <-gt.arrive:
					gt.token <- struct{}{}
				case <-time.After(50 * time.Millisecond):
					return
				}
			}
		}()
		for _, ci := range callees {
			node.Kill(ci.pid)
		}
		for _, h := range helpers {
			node.Kill(h)
		}
	}()

	refs := map[int]gen.Ref{}
	var done chan callResult
	curK := -1
	var callStart time.Time
	callTimeout := 0
	serial := int64(0)
	ev := func(f string, a ...any) { res.Events = append(res.Events, fmt.Sprintf(f, a...)) }

	record := func(k int, cr callResult, waited bool) {
		o := Obs{K: k, Kind: 9}
		var re replyErr
		switch {
		case cr.err == nil:
			if r, ok := cr.v.(reply); ok {
				o = Obs{K: k, Kind: 0, Pay: r.Pay}
			}
		case errors.As(cr.err, &re):
			o = Obs{K: k, Kind: 0, Pay: re.Pay, Err: true}
		case errors.Is(cr.err, gen.ErrTimeout):
			o = Obs{K: k, Kind: 1}
			if time.Since(callStart) < time.Duration(callTimeout)*time.Second-50*time.Millisecond {
				o.Pay = 1 // "timed out" before the period had passed
			}
		case waited && errors.Is(cr.err, gen.ErrProcessTerminated):
			o = Obs{K: k, Kind: 3}
		case !waited:
			o = Obs{K: k, Kind: 2, Pay: int64(deliveryCode(cr.err))}
		}
		res.Results = append(res.Results, o)
	}

	for si, s := range c.Steps {
		switch s.Op {
		case "call":
			var to any
			ci := callees[s.Callee%nc]
			calleeID := s.Callee % nc
			switch s.Via {
			case "name":
				to = ci.name
			case "alias":
				to = ci.alias
			case "meta":
				to = ci.meta
				calleeID += 50
			case "unknown":
				to = gen.PID{Node: node.Name(), ID: 1 << 40, Creation: node.Creation()}
			case "self":
				to = callerPID
			default:
				to = ci.pid
			}
			serial++
			pay := int64(s.K)*1000 + serial
			timeout := 1
			if s.Long {
				timeout = 20
			}
			done = make(chan callResult, 1)
			callStart, callTimeout = time.Now(), timeout
			if err := node.Send(callerPID, cmdCall{to: to, req: request{K: s.K, Mode: s.Mode, Pay: pay}, timeout: timeout, done: done}); err != nil {
				return stall("step %d: cannot reach the caller: %v", si, err)
			}
			select {
			case cr := <-done:
				// RouteCall* failed: the call returned at once
				code := deliveryCode(cr.err)
				if cr.err == nil {
					code = 9
				}
				ev("ECall %d (%d%%N, 0%%N, 262144%%N) %d %d", s.K, s.K, calleeID, code) // the reference was made but never left the node: a placeholder outside MakeRef's range
				record(s.K, cr, false)
				done = nil
			case <-gt.arrive:
				curK = s.K
				select {
				case sr := <-seen:
					refs[sr.k] = sr.ref
					if sr.from != callerPID {
						res.BadFrom++
					}
					ev("ECall %d %s %d 0", s.K, coqRef(sr.ref), calleeID)
					ev("EHandle %d", sr.callee)
					res.Presented = append(res.Presented, [2]int{sr.callee, sr.k})
					if s.Mode == "sync" || s.Mode == "syncstop" {
						// the reply is sent by act.Actor / the meta process itself (result not observable)
						ev("EResp %d %s %d false", sr.callee, coqRef(sr.ref), pay)
						res.Sends = append(res.Sends, -1)
						// HandleCall has only been ENTERED: the reply leaves when it returns. Do not let the next
						// step of the script overtake it (seen on a loaded machine: a helper's reply arrived first)
						waitHandled(node, ci.pid, ci.meta, s.Via == "meta")
					}
					if s.Mode == "syncstop" {
						if !waitGone(node, ci.pid) {
							return stall("step %d: callee did not terminate", si)
						}
					}
				case <-time.After(stallLimit):
					return stall("step %d: the request was accepted but never presented to the callee", si)
				}
			case <-time.After(stallLimit):
				return stall("step %d: call neither returned nor reached the select", si)
			}
		case "resp":
			var ref gen.Ref
			if s.K < 0 {
				ref = node.MakeRef()
			} else if r, ok := refs[s.K]; ok {
				ref = r
			} else {
				ref = node.MakeRef()
			}
			kk := int64(s.K)
			if _, ok := refs[s.K]; !ok || s.K < 0 {
				kk = 999
			}
			serial++
			pay := kk*1000 + serial
			var pid gen.PID
			if s.By >= 100 {
				pid = helpers[(s.By-100)%len(helpers)]
			} else {
				pid = callees[s.By%nc].pid
			}
			dn := make(chan error, 1)
			if err := node.Send(pid, cmdRespond{to: callerPID, ref: ref, pay: pay, isErr: s.Err, done: dn}); err != nil {
				// the responder is gone: a helper answers instead
				s.By = 100
				if err := node.Send(helpers[0], cmdRespond{to: callerPID, ref: ref, pay: pay, isErr: s.Err, done: dn}); err != nil {
					return stall("step %d: no responder: %v", si, err)
				}
			}
			select {
			case e := <-dn:
				ev("EResp %d %s %d %s", s.By, coqRef(ref), pay, util.B(s.Err))
				res.Sends = append(res.Sends, sendCode(e))
			case <-time.After(stallLimit):
				ev("EResp %d %s %d %s", s.By, coqRef(ref), pay, util.B(s.Err))
				res.Sends = append(res.Sends, 9)
				return stall("step %d: SendResponse did not return (blocked)", si)
			}
		case "recv", "timeout":
			if done == nil {
				continue
			}
			if s.Op == "recv" {
				ev("ERecv")
			} else {
				ev("ETimeout")
			}
			gt.token <- struct{}{}
			select {
			case <-gt.arrive:
				res.Tokens = append(res.Tokens, 0)
			case cr := <-done:
				res.Tokens = append(res.Tokens, 1)
				record(curK, cr, true)
				done = nil
			case <-time.After(stallLimit):
				res.Tokens = append(res.Tokens, 2)
				return stall("step %d: granted %s but the caller neither looped nor returned", si, s.Op)
			}
		case "killcallee":
			ci := callees[s.Callee%nc]
			node.Kill(ci.pid)
			if !waitGone(node, ci.pid) {
				return stall("step %d: killed callee still registered", si)
			}
		case "killcaller":
			node.Kill(callerPID)
			ev("EKill")
		case "gone":
			if !waitGone(node, callerPID) {
				return stall("step %d: killed caller still registered", si)
			}
			ev("EGone")
		}
	}
	return res
}

// ---- Coq term, Go monitor ------------------------------------------------------------------------------------

func coqCase(r *Result) string {
	var rs, ss, ps, ts []string
	for _, o := range r.Results {
		rs = append(rs, fmt.Sprintf("(%d, mk_obs %d %d %s)", o.K, o.Kind, o.Pay, util.B(o.Err)))
	}
	for _, s := range r.Sends {
		ss = append(ss, util.Z(int64(s)))
	}
	for _, p := range r.Presented {
		ps = append(ps, fmt.Sprintf("(%d, %d)", p[0], p[1]))
	}
	for _, t := range r.Tokens {
		ts = append(ts, fmt.Sprint(t))
	}
	return fmt.Sprintf("mk_ccase [%s] [%s] [%s] [%s] [%s]", strings.Join(r.Events, "; "), strings.Join(rs, "; "),
		strings.Join(ss, "; "), strings.Join(ps, "; "), strings.Join(ts, "; "))
}

// the correlation monitor in Go: a returned payload was made for the request that returned it, no payload twice,
// no request presented twice, requests seen with the caller as sender
func goMonitor(c Case, r *Result) []string {
	var out []string
	pays := map[int64]bool{}
	for _, o := range r.Results {
		if o.Kind == 0 {
			if o.Pay/1000 != int64(o.K) {
				out = append(out, fmt.Sprintf("call %d returned payload %d made for request %d", o.K, o.Pay, o.Pay/1000))
			}
			if pays[o.Pay] {
				out = append(out, fmt.Sprintf("payload %d returned twice", o.Pay))
			}
			pays[o.Pay] = true
		}
		if o.Kind == 9 {
			out = append(out, fmt.Sprintf("call %d returned something that is neither a reply, a timeout nor a delivery error", o.K))
		}
	}
	pres := map[int]bool{}
	for _, p := range r.Presented {
		if pres[p[1]] {
			out = append(out, fmt.Sprintf("request %d presented twice", p[1]))
		}
		pres[p[1]] = true
	}
	if r.BadFrom > 0 {
		out = append(out, "a callee saw a request with a sender other than the caller")
	}
	return out
}
