package main

import (
	"math/rand"
)

// builder: writes a script and mirrors the (trivial) state needed to keep it executable deterministically
// (who waits for what, which references sit in the channel). The Coq model re-computes all of this from the
// events; the mirror only decides which step may come next.
type builder struct {
	c       Case
	waiting bool
	curK    int
	curLong bool
	ch      []int // request number whose reference each queued response carries (-1: foreign reference)
	known   map[int]bool
	alive   []bool
	killed  bool
	gone    bool
	nextK   int
	shorts  int
}

func newBuilder(ncallee int, family string) *builder {
	b := &builder{known: map[int]bool{}, alive: make([]bool, ncallee)}
	for i := range b.alive {
		b.alive[i] = true
	}
	b.c.NCallee = ncallee
	b.c.Family = family
	b.c.Tags = []string{family}
	return b
}

func (b *builder) add(s Step) { b.c.Steps = append(b.c.Steps, s) }

func (b *builder) push(k int) bool {
	if b.gone || len(b.ch) >= 10 {
		return false
	}
	b.ch = append(b.ch, k)
	return true
}

// call: returns false when the script cannot take a call now
func (b *builder) call(callee int, via, mode string, long bool) bool {
	if b.waiting || b.killed {
		return false
	}
	if (mode == "sync" || mode == "syncstop") && (len(b.ch) >= 10 || !long) {
		mode = "async"
	}
	if via == "meta" && mode == "syncstop" {
		mode = "sync"
	}
	k := b.nextK
	b.nextK++
	b.add(Step{Op: "call", K: k, Callee: callee, Via: via, Mode: mode, Long: long})
	if !b.alive[callee] || via == "unknown" || via == "self" {
		return true // delivery error, returns at once
	}
	b.waiting, b.curK, b.curLong = true, k, long
	b.known[k] = true
	if !long {
		b.shorts++
	}
	if mode == "sync" || mode == "syncstop" {
		b.push(k)
	}
	if mode == "syncstop" {
		b.alive[callee] = false
	}
	return true
}

func (b *builder) resp(by, k int, isErr bool) {
	if by < 100 && !b.alive[by%len(b.alive)] {
		by = 100
	}
	kk := k
	if k < 0 || !b.known[k] {
		kk = -1
	}
	b.add(Step{Op: "resp", K: kk, By: by, Err: isErr})
	b.push(kk)
}

func (b *builder) recv() bool {
	if !b.waiting || len(b.ch) == 0 {
		return false
	}
	head := b.ch[0]
	b.ch = b.ch[1:]
	b.add(Step{Op: "recv"})
	if head == b.curK {
		b.waiting = false
	}
	return true
}

func (b *builder) timeout() bool {
	if !b.waiting || b.curLong || len(b.ch) != 0 {
		return false
	}
	b.add(Step{Op: "timeout"})
	b.waiting = false
	return true
}

func (b *builder) killCallee(i int) {
	if b.alive[i] {
		b.alive[i] = false
		b.add(Step{Op: "killcallee", Callee: i})
	}
}

func (b *builder) killCaller() {
	if !b.killed {
		b.killed = true
		b.add(Step{Op: "killcaller"})
	}
}

func (b *builder) goneStep() bool {
	if b.killed && !b.waiting && !b.gone {
		b.gone = true
		b.add(Step{Op: "gone"})
		return true
	}
	return false
}

func (b *builder) hasMatch() bool {
	for _, k := range b.ch {
		if k == b.curK {
			return true
		}
	}
	return false
}

// finish the call in progress: drain, then (long) answer it / (short) let it time out
func (b *builder) finishCall(by int) {
	for b.waiting {
		if len(b.ch) > 0 {
			b.recv()
			continue
		}
		if b.curLong {
			b.resp(by, b.curK, false)
		} else {
			b.timeout()
		}
	}
}

func (b *builder) done() Case {
	b.finishCall(100)
	return b.c
}

var vias = []string{"pid", "pid", "name", "alias", "meta", "pid"}
var modes = []string{"async", "async", "async", "sync", "sync", "syncstop"}

func genCase(r *rand.Rand) Case {
	switch r.Intn(10) {
	case 0:
		return famLate(r)
	case 1:
		return famFlood(r)
	case 2:
		return famDup(r)
	case 3:
		return famKillCaller(r)
	}
	return famRandom(r)
}

func famRandom(r *rand.Rand) Case {
	nc := 1 + r.Intn(3)
	b := newBuilder(nc, "random")
	n := 6 + r.Intn(24)
	flood := r.Intn(4) == 0
	anyK := func() int {
		if b.nextK == 0 || r.Intn(5) == 0 {
			return -1
		}
		return r.Intn(b.nextK)
	}
	by := func() int {
		if r.Intn(2) == 0 {
			return 100 + r.Intn(2)
		}
		return r.Intn(nc)
	}
	for i := 0; i < n && !b.gone; i++ {
		x := r.Intn(100)
		if !b.waiting {
			switch {
			case b.killed:
				if !b.goneStep() {
					i = n
				}
			case x < 55:
				long := r.Intn(4) != 0 || b.shorts >= 2
				via := vias[r.Intn(len(vias))]
				if r.Intn(25) == 0 {
					via = []string{"unknown", "self"}[r.Intn(2)]
				}
				ce := r.Intn(nc)
				for t := 0; t < 3 && !b.alive[ce]; t++ {
					ce = r.Intn(nc)
				}
				b.call(ce, via, modes[r.Intn(len(modes))], long)
			case x < 90 || flood:
				b.resp(by(), anyK(), r.Intn(6) == 0)
			case x < 95:
				b.killCallee(r.Intn(nc))
			case x < 97:
				b.killCaller()
			}
			continue
		}
		switch {
		case x < 40 && len(b.ch) > 0:
			b.recv()
		case x < 65:
			// the awaited reply (long calls; for a short call only when it will be refused)
			if b.curLong || len(b.ch) >= 10 {
				b.resp(by(), b.curK, r.Intn(6) == 0)
			} else if !b.timeout() {
				b.recv()
			}
		case x < 85:
			k := anyK()
			if k == b.curK && !b.curLong && len(b.ch) < 10 {
				k = -1
			}
			b.resp(by(), k, r.Intn(6) == 0)
		case x < 90:
			b.killCallee(r.Intn(nc))
		case x < 92:
			b.killCaller()
		default:
			if !b.timeout() {
				b.recv()
			}
		}
	}
	b.finishCall(by())
	if b.killed {
		b.goneStep()
		if r.Intn(2) == 0 {
			b.resp(100, anyK(), false)
		}
	}
	return b.done()
}

// a call times out, its reply (and duplicates) come late, the next call must skip them
func famLate(r *rand.Rand) Case {
	b := newBuilder(2, "late")
	b.call(0, vias[r.Intn(4)], "async", false)
	b.timeout()
	for i := 1 + r.Intn(3); i > 0; i-- {
		b.resp([]int{0, 100, 1}[r.Intn(3)], 0, r.Intn(4) == 0)
	}
	b.call(r.Intn(2), vias[r.Intn(len(vias))], modes[r.Intn(len(modes))], true)
	if r.Intn(2) == 0 {
		b.resp(100, 0, false) // one more late reply while call 1 waits
	}
	b.finishCall(r.Intn(2))
	b.call(0, "pid", "async", true)
	b.finishCall(101)
	return b.done()
}

// the channel is filled with late replies: further ones are refused; the next call is answered in time while the
// channel is still full (refused although the caller waits), then drains and is answered again
func famFlood(r *rand.Rand) Case {
	b := newBuilder(1, "flood")
	b.call(0, "pid", "async", false)
	b.timeout()
	for i := 10 + r.Intn(3); i > 0; i-- {
		b.resp([]int{0, 100}[r.Intn(2)], 0, false)
	}
	if r.Intn(2) == 0 {
		// starved: a 1-second call whose only reply is refused
		b.call(0, "pid", "async", false)
		b.resp(0, b.curK, false)
		b.finishCall(100)
	} else {
		b.call(0, "pid", "async", true)
		b.resp(0, b.curK, false) // refused
		for len(b.ch) > 0 && b.waiting {
			b.recv()
		}
		b.finishCall(0)
	}
	return b.done()
}

// two replies to one request: the second stays in the channel and is skipped by the next call
func famDup(r *rand.Rand) Case {
	b := newBuilder(2, "dup")
	b.call(0, vias[r.Intn(len(vias))], "async", true)
	b.resp(0, 0, false)
	b.resp([]int{0, 100, 1}[r.Intn(3)], 0, r.Intn(3) == 0)
	b.recv()
	if r.Intn(2) == 0 {
		b.resp(101, 0, false)
	}
	b.call(1, "pid", modes[r.Intn(len(modes))], true)
	b.finishCall(1)
	return b.done()
}

// the callee dies before answering, a third process answers; the caller is killed while waiting
func famKillCaller(r *rand.Rand) Case {
	b := newBuilder(2, "killcaller")
	b.call(0, "pid", "async", true)
	b.killCallee(0)
	b.resp(100, 0, false)
	b.recv()
	b.call(1, vias[r.Intn(len(vias))], "async", r.Intn(2) == 0)
	b.killCaller()
	b.finishCall(100)
	b.goneStep()
	b.resp(1, 1, false)
	return b.done()
}

func corpus() []Case {
	var out []Case
	for s := int64(0); s < 3; s++ {
		r := rand.New(rand.NewSource(1000 + s))
		out = append(out, famLate(r), famFlood(r), famDup(r), famKillCaller(r))
	}
	return out
}
