// Harness for the Call engine (C07): a REAL node (networking off), caller actors whose select in
// waitResponse is gated through lib.VerifPoint("wait.select"), callee actors / meta callees / helper
// actors whose replies are controlled by the harness. One case = one caller and its script; many
// cases run in parallel on the same node (timeouts are whole seconds).
package main

import (
	"encoding/json"
	"flag"
	"fmt"
	"os"
	"sort"
	"sync"
	"time"

	"ergo.services/ergo"
	"ergo.services/ergo/gen"
	"ergo.services/ergo/lib"
	"verifharness/util"
)

func startNode() gen.Node {
	opts := gen.NodeOptions{}
	opts.Network.Mode = gen.NetworkModeDisabled
	opts.Log.DefaultLogger.Disable = true
	opts.Log.Level = gen.LogLevelDisabled
	name := gen.Atom(fmt.Sprintf("call%d@localhost", os.Getpid()))
	node, err := ergo.StartNode(name, opts)
	if err != nil {
		panic(err)
	}
	return node
}

func main() {
	if len(os.Args) < 2 {
		fmt.Fprintln(os.Stderr, "usage: call <run> [flags]")
		os.Exit(2)
	}
	fs := flag.NewFlagSet(os.Args[1], flag.ExitOnError)
	n := fs.Int("n", 200, "number of cases")
	out := fs.String("out", "", "output json")
	replay := fs.String("replay", "", "replay file (json with key case)")
	par := fs.Int("par", 48, "cases run in parallel")
	fs.Parse(os.Args[2:])
	if os.Args[1] == "metacall" {
		runMetaCall(startNode(), *n, *out)
		return
	}
	if os.Args[1] != "run" {
		fmt.Fprintln(os.Stderr, "unknown subcommand")
		os.Exit(2)
	}
	// nothing in this harness may wait for ever: every wait has a stall limit, and the whole run a watchdog
	time.AfterFunc(time.Duration(120+*n/2)*time.Second, func() {
		fmt.Fprintln(os.Stderr, "watchdog: the run did not finish")
		os.Exit(3)
	})
	node := startNode()
	f := hook
	lib.VerifHook.Store(&f)
	o := util.NewOut("call.run")

	var cases []Case
	if *replay != "" {
		b, err := os.ReadFile(*replay)
		if err != nil {
			panic(err)
		}
		var rp struct {
			Case Case `json:"case"`
		}
		if err := json.Unmarshal(b, &rp); err != nil {
			panic(err)
		}
		cases = []Case{rp.Case}
	} else {
		cases = append(cases, corpus()...)
		r := util.Rng(71)
		for len(cases) < *n {
			cases = append(cases, genCase(r))
		}
	}

	results := make([]*Result, len(cases))
	var wg sync.WaitGroup
	sem := make(chan struct{}, *par)
	for i := range cases {
		wg.Add(1)
		sem <- struct{}{}
		go func(i int) {
			defer wg.Done()
			defer func() { <-sem }()
			results[i] = runCase(node, i, cases[i])
		}(i)
	}
	wg.Wait()
	lib.VerifHook.Store(nil)

	for i, c := range cases {
		res := results[i]
		idx := o.Add(coqCase(res), c)
		for _, t := range c.Tags {
			o.Stats["tag:"+t]++
		}
		for _, s := range c.Steps {
			o.Stats["step:"+s.Op]++
			if s.Op == "call" {
				o.Stats["call-via:"+s.Via]++
				o.Stats["call-mode:"+s.Mode]++
			}
		}
		for _, r := range res.Results {
			o.Stats[fmt.Sprintf("result-kind:%d", r.Kind)]++
		}
		for _, s := range res.Sends {
			o.Stats[fmt.Sprintf("send-code:%d", s)]++
		}
		for _, t := range res.Tokens {
			o.Stats[fmt.Sprintf("token:%d", t)]++
		}
		for _, m := range goMonitor(c, res) {
			o.Monitor = append(o.Monitor, util.MonitorFail{Case: idx, What: m, Tags: c.Tags})
		}
		if res.Stalled != "" {
			o.Notes = append(o.Notes, fmt.Sprintf("case %d: %s", idx, res.Stalled))
		}
	}
	o.Stats["runs"] = len(cases)
	keys := make([]string, 0, len(o.Stats))
	for k := range o.Stats {
		keys = append(keys, k)
	}
	sort.Strings(keys)
	if *out != "" {
		o.Write(*out)
	} else {
		for _, k := range keys {
			fmt.Println(k, o.Stats[k])
		}
		for _, m := range o.Monitor {
			fmt.Println("MONITOR", m.Case, m.What)
		}
		for _, m := range o.Notes {
			fmt.Println("NOTE", m)
		}
		if len(o.Cases) > 0 {
			fmt.Println(o.Cases[len(o.Cases)-1])
		}
	}
	os.Exit(0)
}
