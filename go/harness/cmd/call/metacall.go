package main

// Family `metacall` (C07): requests addressed to the alias of a META process with a bounded mailbox. While the
// meta process is held inside HandleCall and its queue is full, one more request must fail with a delivery error
// (ErrMetaMailboxFull) - it must never be answered by another process (the owner of the meta process shares the
// alias table entry), and every answer a caller gets is the answer the meta process produced for that request.

import (
	"fmt"
	"time"

	"ergo.services/ergo/act"
	"ergo.services/ergo/gen"
	"verifharness/util"
)

type mcMeta struct {
	gen.MetaProcess
	stop    chan struct{}
	entered chan int
	gate    chan struct{}
}

func (m *mcMeta) Init(p gen.MetaProcess) error { m.MetaProcess = p; return nil }
func (m *mcMeta) Start() error                 { <-m.stop; return nil }
func (m *mcMeta) HandleMessage(from gen.PID, message any) error { return nil }
func (m *mcMeta) HandleCall(from gen.PID, ref gen.Ref, request any) (any, error) {
	k, _ := request.(int)
	select {
	case m.entered <- k:
	default:
	}
	<-m.gate
	return fmt.Sprintf("meta:%d", k), nil
}
func (m *mcMeta) Terminate(reason error)                                  {}
func (m *mcMeta) HandleInspect(from gen.PID, item ...string) map[string]string { return nil }

type mcOwner struct {
	act.Actor
}
type mcSpawn struct {
	m     *mcMeta
	size  int64
	reply chan gen.Alias
}

func (o *mcOwner) HandleMessage(from gen.PID, message any) error {
	if s, ok := message.(mcSpawn); ok {
		a, err := o.SpawnMeta(s.m, gen.MetaOptions{MailboxSize: s.size})
		if err != nil {
			panic(err)
		}
		s.reply <- a
	}
	return nil
}
func (o *mcOwner) HandleCall(from gen.PID, ref gen.Ref, request any) (any, error) {
	return fmt.Sprintf("owner:%v", request), nil
}

type mcCaller struct{ act.Actor }
type mcDo struct {
	to    gen.Alias
	k     int
	reply chan string
}

func (c *mcCaller) HandleMessage(from gen.PID, message any) error {
	if d, ok := message.(mcDo); ok {
		v, err := c.CallWithTimeout(d.to, d.k, 3)
		if err != nil {
			d.reply <- "err:" + err.Error()
		} else {
			d.reply <- fmt.Sprint(v)
		}
	}
	return nil
}

type mcCase struct {
	Size  int `json:"size"`  // MailboxSize of the meta process
	Extra int `json:"extra"` // requests beyond the one being handled and the Size queued ones
}

func runMetaCall(node gen.Node, n int, out string) {
	o := util.NewOut("call.metacall")
	var cases []mcCase
	for size := 1; size <= 3; size++ {
		for extra := 1; extra <= 2; extra++ {
			cases = append(cases, mcCase{size, extra})
		}
	}
	for len(cases) > n && n > 0 {
		cases = cases[:n]
	}
	for _, c := range cases {
		idx := o.Add(fmt.Sprintf("(%d, %d)", c.Size, c.Extra), c)
		fail := func(s string) { o.Monitor = append(o.Monitor, util.MonitorFail{Case: idx, What: s}) }
		m := &mcMeta{stop: make(chan struct{}), entered: make(chan int, 16), gate: make(chan struct{})}
		owner, err := node.Spawn(func() gen.ProcessBehavior { return &mcOwner{} }, gen.ProcessOptions{})
		if err != nil {
			panic(err)
		}
		rep := make(chan gen.Alias, 1)
		node.Send(owner, mcSpawn{m, int64(c.Size), rep})
		var alias gen.Alias
		select {
		case alias = <-rep:
		case <-time.After(3 * time.Second):
			fail("SpawnMeta hangs")
			continue
		}
		total := 1 + c.Size + c.Extra
		replies := make([]chan string, total)
		call := func(k int) {
			replies[k] = make(chan string, 1)
			pid, err := node.Spawn(func() gen.ProcessBehavior { return &mcCaller{} }, gen.ProcessOptions{})
			if err != nil {
				panic(err)
			}
			node.Send(pid, mcDo{alias, k, replies[k]})
		}
		call(0)
		select {
		case <-m.entered:
		case <-time.After(3 * time.Second):
			fail("the meta process never took the first request")
			close(m.gate)
			close(m.stop)
			continue
		}
		// the queue fills: Size requests are accepted (and wait), the Extra ones must be refused at once
		for k := 1; k < total; k++ {
			call(k)
			time.Sleep(3 * time.Millisecond)
		}
		for k := 1 + c.Size; k < total; k++ {
			select {
			case r := <-replies[k]:
				if r != "err:"+gen.ErrMetaMailboxFull.Error() {
					fail(fmt.Sprintf("request %d to a meta process whose mailbox (size %d) is full: the caller got %q instead of the delivery error %q", k, c.Size, r, gen.ErrMetaMailboxFull.Error()))
				}
			case <-time.After(2 * time.Second):
				fail(fmt.Sprintf("request %d to a meta process with a full mailbox neither failed nor was answered within 2 s", k))
			}
		}
		close(m.gate)
		for k := 0; k <= c.Size; k++ {
			select {
			case r := <-replies[k]:
				if r != fmt.Sprintf("meta:%d", k) {
					fail(fmt.Sprintf("request %d accepted by the meta process: the caller got %q instead of the meta process's answer", k, r))
				}
			case <-time.After(4 * time.Second):
				fail(fmt.Sprintf("accepted request %d was never answered", k))
			}
		}
		close(m.stop)
		node.Kill(owner)
		o.Stats[fmt.Sprintf("size:%d", c.Size)]++
	}
	if out != "" {
		o.Write(out)
	}
}
