package main

// Fakes of the `frames` sub-command (copied and reduced from cmd/proto/fake.go, which is another
// package main): a counting gen.Log, a counting gen.Core, the victim connection V joined to one
// end of a net.Pipe, the unrelated connection pair U and the local process L (a REAL node with
// networking disabled, a callee actor and a caller actor).

import (
	"fmt"
	"io"
	"net"
	"os"
	"strings"
	"sync"
	"sync/atomic"
	"time"

	"ergo.services/ergo"
	"ergo.services/ergo/act"
	"ergo.services/ergo/gen"
	"ergo.services/ergo/net/handshake"
	"ergo.services/ergo/net/proto"
)

// ---------------------------------------------------------------------------------------
// counting gen.Log
// ---------------------------------------------------------------------------------------

type flog struct {
	mu        sync.Mutex
	panics    int
	errors    int
	serveErrs int // Error() calls made by serve itself (bad magic / version): not tied to a queued frame
	warnings  int
	lastPanic string
	lastError string
}

func (l *flog) Level() gen.LogLevel               { return gen.LogLevelError }
func (l *flog) SetLevel(level gen.LogLevel) error { return nil }
func (l *flog) Logger() string                    { return "" }
func (l *flog) SetLogger(name string)             {}
func (l *flog) Fields() []gen.LogField            { return nil }
func (l *flog) AddFields(fields ...gen.LogField)  {}
func (l *flog) DeleteFields(fields ...string)     {}
func (l *flog) PushFields() int                   { return 0 }
func (l *flog) PopFields() int                    { return 0 }
func (l *flog) Trace(format string, args ...any)  {}
func (l *flog) Debug(format string, args ...any)  {}
func (l *flog) Info(format string, args ...any)   {}
func (l *flog) Warning(format string, args ...any) {
	// not formatted on purpose ("message has extra bytes: %#v" would allocate 6 x the tail)
	l.mu.Lock()
	l.warnings++
	l.mu.Unlock()
}
func (l *flog) Error(format string, args ...any) {
	s := frClip(fmt.Sprintf(format, args...), 300)
	l.mu.Lock()
	l.errors++
	if strings.HasPrefix(format, "recevied malformed packet") {
		l.serveErrs++
	}
	l.lastError = s
	l.mu.Unlock()
}
func (l *flog) Panic(format string, args ...any) {
	s := frClip(fmt.Sprintf(format, args...), 400)
	l.mu.Lock()
	l.panics++
	l.lastPanic = s
	l.mu.Unlock()
}
func (l *flog) snap() (panics, errors, serveErrs int) {
	l.mu.Lock()
	defer l.mu.Unlock()
	return l.panics, l.errors, l.serveErrs
}
func (l *flog) texts() (lastPanic, lastError string) {
	l.mu.Lock()
	defer l.mu.Unlock()
	return l.lastPanic, l.lastError
}

func frClip(s string, n int) string {
	if len(s) > n {
		return s[:n]
	}
	return s
}

// ---------------------------------------------------------------------------------------
// counting gen.Core: every Route* call of the receive worker is counted (and the last kept)
// ---------------------------------------------------------------------------------------

type fcore struct {
	gen.Core // nil: a method the connection calls beyond the ones below would panic (and be seen)

	name     gen.Atom
	creation int64

	mu       sync.Mutex
	n        int
	lastKind string
	lastVal  any
	refc     uint64
	arrived  chan struct{}
}

func newFcore(name gen.Atom, creation int64) *fcore {
	return &fcore{name: name, creation: creation, arrived: make(chan struct{}, 1)}
}

func (f *fcore) rec(kind string, v any) error {
	f.mu.Lock()
	f.n++
	f.lastKind = kind
	f.lastVal = v
	f.mu.Unlock()
	select {
	case f.arrived <- struct{}{}:
	default:
	}
	return nil
}
func (f *fcore) count() int {
	f.mu.Lock()
	defer f.mu.Unlock()
	return f.n
}
func (f *fcore) last() (string, any) {
	f.mu.Lock()
	defer f.mu.Unlock()
	return f.lastKind, f.lastVal
}

func (f *fcore) RouteSendPID(from gen.PID, to gen.PID, o gen.MessageOptions, m any) error {
	return f.rec("send_pid", m)
}
func (f *fcore) RouteSendProcessID(from gen.PID, to gen.ProcessID, o gen.MessageOptions, m any) error {
	return f.rec("send_name", m)
}
func (f *fcore) RouteSendAlias(from gen.PID, to gen.Alias, o gen.MessageOptions, m any) error {
	return f.rec("send_alias", m)
}
func (f *fcore) RouteSendEvent(from gen.PID, token gen.Ref, o gen.MessageOptions, m gen.MessageEvent) error {
	return f.rec("send_event", m.Message)
}
func (f *fcore) RouteSendExit(from gen.PID, to gen.PID, reason error) error {
	return f.rec("send_exit", reason)
}
func (f *fcore) RouteSendResponse(from gen.PID, to gen.PID, o gen.MessageOptions, m any) error {
	return f.rec("response", m)
}
func (f *fcore) RouteSendResponseError(from gen.PID, to gen.PID, o gen.MessageOptions, err error) error {
	return f.rec("response_error", err)
}
func (f *fcore) RouteCallPID(from gen.PID, to gen.PID, o gen.MessageOptions, m any) error {
	f.rec("call_pid", m)
	return gen.ErrProcessUnknown // (makes an `important` request answer with a response error)
}
func (f *fcore) RouteCallProcessID(from gen.PID, to gen.ProcessID, o gen.MessageOptions, m any) error {
	f.rec("call_name", m)
	return gen.ErrProcessUnknown
}
func (f *fcore) RouteCallAlias(from gen.PID, to gen.Alias, o gen.MessageOptions, m any) error {
	f.rec("call_alias", m)
	return gen.ErrProcessUnknown
}
func (f *fcore) RouteTerminatePID(target gen.PID, reason error) error {
	return f.rec("term_pid", reason)
}
func (f *fcore) RouteTerminateProcessID(target gen.ProcessID, reason error) error {
	return f.rec("term_name", reason)
}
func (f *fcore) RouteTerminateEvent(target gen.Event, reason error) error {
	return f.rec("term_event", reason)
}
func (f *fcore) RouteTerminateAlias(target gen.Alias, reason error) error {
	return f.rec("term_alias", reason)
}
func (f *fcore) RouteLinkPID(pid gen.PID, target gen.PID) error    { return f.rec("link_pid", nil) }
func (f *fcore) RouteUnlinkPID(pid gen.PID, target gen.PID) error  { return f.rec("unlink_pid", nil) }
func (f *fcore) RouteMonitorPID(pid gen.PID, target gen.PID) error { return f.rec("monitor_pid", nil) }
func (f *fcore) RouteDemonitorPID(pid gen.PID, target gen.PID) error {
	return f.rec("demonitor_pid", nil)
}
func (f *fcore) RouteLinkProcessID(pid gen.PID, target gen.ProcessID) error {
	return f.rec("link_name", nil)
}
func (f *fcore) RouteUnlinkProcessID(pid gen.PID, target gen.ProcessID) error {
	return f.rec("unlink_name", nil)
}
func (f *fcore) RouteMonitorProcessID(pid gen.PID, target gen.ProcessID) error {
	return f.rec("monitor_name", nil)
}
func (f *fcore) RouteDemonitorProcessID(pid gen.PID, target gen.ProcessID) error {
	return f.rec("demonitor_name", nil)
}
func (f *fcore) RouteLinkAlias(pid gen.PID, target gen.Alias) error { return f.rec("link_alias", nil) }
func (f *fcore) RouteUnlinkAlias(pid gen.PID, target gen.Alias) error {
	return f.rec("unlink_alias", nil)
}
func (f *fcore) RouteMonitorAlias(pid gen.PID, target gen.Alias) error {
	return f.rec("monitor_alias", nil)
}
func (f *fcore) RouteDemonitorAlias(pid gen.PID, target gen.Alias) error {
	return f.rec("demonitor_alias", nil)
}
func (f *fcore) RouteLinkEvent(pid gen.PID, target gen.Event) ([]gen.MessageEvent, error) {
	return nil, f.rec("link_event", nil)
}
func (f *fcore) RouteUnlinkEvent(pid gen.PID, target gen.Event) error {
	return f.rec("unlink_event", nil)
}
func (f *fcore) RouteMonitorEvent(pid gen.PID, target gen.Event) ([]gen.MessageEvent, error) {
	return nil, f.rec("monitor_event", nil)
}
func (f *fcore) RouteDemonitorEvent(pid gen.PID, target gen.Event) error {
	return f.rec("demonitor_event", nil)
}
func (f *fcore) RouteSpawn(node gen.Atom, name gen.Atom, options gen.ProcessOptionsExtra, source gen.Atom) (gen.PID, error) {
	f.rec("spawn", nil)
	return gen.PID{}, gen.ErrNameUnknown
}
func (f *fcore) RouteApplicationStart(name gen.Atom, mode gen.ApplicationMode, options gen.ApplicationOptionsExtra, source gen.Atom) error {
	f.rec("app_start", nil)
	return gen.ErrNameUnknown
}
func (f *fcore) RouteNodeDown(node gen.Atom, reason error) {}

func (f *fcore) MakeRef() gen.Ref {
	f.mu.Lock()
	f.refc++
	r := gen.Ref{Node: f.name, Creation: f.creation, ID: [3]uint64{f.refc, 77, 0}}
	f.mu.Unlock()
	return r
}
func (f *fcore) Name() gen.Atom                { return f.name }
func (f *fcore) Creation() int64               { return f.creation }
func (f *fcore) PID() gen.PID                  { return gen.PID{Node: f.name, ID: 1, Creation: f.creation} }
func (f *fcore) LogLevel() gen.LogLevel        { return gen.LogLevelError }
func (f *fcore) Security() gen.SecurityOptions { return gen.SecurityOptions{} }
func (f *fcore) EnvList() map[gen.Env]any      { return nil }

// waitCount waits until at least n calls were counted.
func (f *fcore) waitCount(n int, timeout time.Duration) bool {
	deadline := time.After(timeout)
	for {
		if f.count() >= n {
			return true
		}
		select {
		case <-f.arrived:
		case <-time.After(time.Millisecond):
		case <-deadline:
			return f.count() >= n
		}
	}
}

// ---------------------------------------------------------------------------------------
// V: the victim connection, one pooled link = one end of a net.Pipe
// ---------------------------------------------------------------------------------------

const (
	frVictimNode  gen.Atom = "v@x"
	frHostilePeer gen.Atom = "h@x"
	frVictimCre   int64    = 11
	frHostileCre  int64    = 22
)

// id 300 -> "cached" is the only atom cache entry of a victim created with acache = true
const frCachedID uint16 = 300

var frAllFlags = gen.NetworkFlags{Enable: true, EnableRemoteSpawn: true, EnableRemoteApplicationStart: true,
	EnableImportantDelivery: true}

type victim struct {
	core *fcore
	log  *flog
	conn gen.Connection
	mine net.Conn // the harness end
	node net.Conn // the end joined to the connection

	closed  atomic.Bool  // the drain goroutine saw EOF: the node closed the link
	drained atomic.Int64 // bytes the node wrote to the link
	done    chan struct{}
}

func newVictim(max int, acache bool) (*victim, error) {
	v := &victim{core: newFcore(frVictimNode, frVictimCre), log: &flog{}, done: make(chan struct{})}
	opts := handshake.ConnectionOptions{PoolSize: 1}
	if acache {
		dec := &sync.Map{}
		dec.Store(frCachedID, gen.Atom("cached"))
		opts.DecodeAtomCache = dec
	}
	var err error
	v.conn, err = proto.Create().NewConnection(v.core, gen.HandshakeResult{
		ConnectionID: "cid", Peer: frHostilePeer, PeerCreation: frHostileCre, PeerFlags: frAllFlags, NodeFlags: frAllFlags,
		PeerMaxMessageSize: 0, NodeMaxMessageSize: max, Custom: opts}, v.log)
	if err != nil {
		return nil, err
	}
	v.mine, v.node = net.Pipe()
	if err := v.conn.Join(v.node, "cid", nil, nil); err != nil {
		return nil, err
	}
	go v.drain()
	return v, nil
}

var frDrainBufs = sync.Pool{New: func() any { b := make([]byte, 4096); return &b }}

// drain consumes everything the node writes (responses to `important` messages, results of
// link / monitor / spawn requests); EOF = the node closed its end.
func (v *victim) drain() {
	bp := frDrainBufs.Get().(*[]byte)
	defer frDrainBufs.Put(bp)
	defer close(v.done)
	for {
		n, err := v.mine.Read(*bp)
		v.drained.Add(int64(n))
		if err != nil {
			if err == io.EOF {
				v.closed.Store(true)
			}
			return
		}
	}
}

func (v *victim) close() {
	v.conn.Terminate(nil)
	v.mine.Close()
	v.node.Close()
	<-v.done
}

// ---------------------------------------------------------------------------------------
// U: an unrelated pair of real connections (sender S -> receiver R) joined through a pipe
// ---------------------------------------------------------------------------------------

type upair struct {
	coreS, coreR *fcore
	logS, logR   *flog
	connS, connR gen.Connection
	seq          int
}

func newUpair() (*upair, error) {
	u := &upair{coreS: newFcore("u1@x", 33), coreR: newFcore("u2@x", 44), logS: &flog{}, logR: &flog{}}
	var err error
	u.connS, err = proto.Create().NewConnection(u.coreS, gen.HandshakeResult{
		ConnectionID: "uid", Peer: "u2@x", PeerCreation: 44, PeerFlags: frAllFlags, NodeFlags: frAllFlags,
		Custom: handshake.ConnectionOptions{PoolSize: 1}}, u.logS)
	if err != nil {
		return nil, err
	}
	u.connR, err = proto.Create().NewConnection(u.coreR, gen.HandshakeResult{
		ConnectionID: "uid", Peer: "u1@x", PeerCreation: 33, PeerFlags: frAllFlags, NodeFlags: frAllFlags,
		Custom: handshake.ConnectionOptions{PoolSize: 1}}, u.logR)
	if err != nil {
		return nil, err
	}
	a, b := net.Pipe()
	if err := u.connS.Join(a, "uid", nil, nil); err != nil {
		return nil, err
	}
	if err := u.connR.Join(b, "uid", nil, nil); err != nil {
		return nil, err
	}
	return u, nil
}

// probe: one real SendPID over U must arrive (unchanged) at the receiving core within 2 s.
func (u *upair) probe() bool {
	u.seq++
	msg := fmt.Sprintf("probe-%d", u.seq)
	before := u.coreR.count()
	from := gen.PID{Node: "u1@x", ID: 1001, Creation: 33}
	to := gen.PID{Node: "u2@x", ID: 1002, Creation: 44}
	errc := make(chan error, 1)
	go func() { errc <- u.connS.SendPID(from, to, gen.MessageOptions{}, msg) }()
	select {
	case err := <-errc:
		if err != nil {
			return false
		}
	case <-time.After(2 * time.Second):
		return false
	}
	if !u.coreR.waitCount(before+1, 2*time.Second) {
		return false
	}
	kind, val := u.coreR.last()
	s, ok := val.(string)
	return kind == "send_pid" && ok && s == msg
}

// ---------------------------------------------------------------------------------------
// L: a local process of a REAL node (networking disabled): a callee actor answering a Call and a
// caller actor that makes the Call when the harness sends it a probe request
// ---------------------------------------------------------------------------------------

type lCallee struct{ act.Actor }

func (c *lCallee) HandleCall(from gen.PID, ref gen.Ref, req any) (any, error) {
	if s, ok := req.(string); ok {
		return "pong:" + s, nil
	}
	return "pong", nil
}

type lProbe struct {
	callee gen.PID
	arg    string
	res    chan string
}

type lCaller struct{ act.Actor }

func (c *lCaller) HandleMessage(from gen.PID, message any) error {
	if p, ok := message.(lProbe); ok {
		v, err := c.Call(p.callee, p.arg)
		s, _ := v.(string)
		if err != nil {
			s = "error:" + err.Error()
		}
		select {
		case p.res <- s:
		default:
		}
	}
	return nil
}

type lproc struct {
	node   gen.Node
	callee gen.PID
	caller gen.PID
	seq    int
}

func newLproc() (*lproc, error) {
	opts := gen.NodeOptions{}
	opts.Network.Mode = gen.NetworkModeDisabled
	opts.Log.DefaultLogger.Disable = true
	opts.Log.Level = gen.LogLevelDisabled
	node, err := ergo.StartNode(gen.Atom(fmt.Sprintf("hostile%d@localhost", os.Getpid())), opts)
	if err != nil {
		return nil, err
	}
	l := &lproc{node: node}
	if l.callee, err = node.Spawn(func() gen.ProcessBehavior { return &lCallee{} }, gen.ProcessOptions{}); err != nil {
		return nil, err
	}
	if l.caller, err = node.Spawn(func() gen.ProcessBehavior { return &lCaller{} }, gen.ProcessOptions{}); err != nil {
		return nil, err
	}
	return l, nil
}

// probe: the caller actor's Call to the callee actor must be answered within 2 s.
func (l *lproc) probe() bool {
	l.seq++
	arg := fmt.Sprintf("%d", l.seq)
	p := lProbe{callee: l.callee, arg: arg, res: make(chan string, 1)}
	if err := l.node.Send(l.caller, p); err != nil {
		return false
	}
	select {
	case s := <-p.res:
		return s == "pong:"+arg
	case <-time.After(2 * time.Second):
		return false
	}
}
