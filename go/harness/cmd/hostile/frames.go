package main

// `hostile frames`: raw hostile byte streams fed to a REAL proto connection (net/proto/connection.go:
// Join -> serve -> read / handleRecvQueue) over a net.Pipe.  The parent generates the cases and runs
// them in child processes of this binary (`frames-child`, ~50 cases per child, several children in
// parallel); the child prints one JSON line per finished case, so that the first case without a line
// is the one that killed (or hung) the process.
//
// Observation per case:
//	obs    0 link still open | 1 link closed by the node, no Panic logged | 2 Panic logged (recovered
//	       panic of the receive worker; the connection was terminated) | 3 the process died / hung
//	frames MessagesIn of the victim connection (frames that passed the magic / version check)
// plus errors (Error() calls), delivered (Route* calls at the victim's core), TotalAlloc delta,
// liveness of an unrelated connection U and of a local process L after the case.

import (
	"bufio"
	"bytes"
	"encoding/binary"
	"encoding/hex"
	"encoding/json"
	"errors"
	"fmt"
	"math/rand"
	"os"
	"runtime"
	"strings"
	"sync"
	"time"

	"ergo.services/ergo/gen"
	"ergo.services/ergo/lib"
	"ergo.services/ergo/net/edf"
	"ergo.services/ergo/net/proto"
	"verifharness/util"
)

// ---------------------------------------------------------------------------------------
// case / result
// ---------------------------------------------------------------------------------------

type fcase struct {
	Max    int      `json:"max"`    // NodeMaxMessageSize of the victim (0 = unlimited)
	Acache bool     `json:"acache"` // victim has a decode atom cache {300 -> "cached"}
	Stream string   `json:"stream"` // hex of the hostile byte stream
	Chunks []int    `json:"chunks"` // write sizes; the last one repeats; empty = one write
	Class  string   `json:"class"`
	Kind   string   `json:"kind"`
	Tags   []string `json:"tags"`
}

type fres struct {
	I         int    `json:"i"`
	Ready     bool   `json:"ready,omitempty"`
	SetupMs   int    `json:"setup_ms,omitempty"`
	Obs       int    `json:"obs"`
	Frames    int    `json:"frames"`
	BytesIn   int    `json:"bytes_in"`
	Errors    int    `json:"errors"`
	Delivered int    `json:"delivered"`
	Alloc     uint64 `json:"alloc"`
	UAlive    bool   `json:"u_alive"`
	LAlive    bool   `json:"l_alive"`
	DurMs     int    `json:"dur_ms"`
	LastPanic string `json:"last_panic"`
	LastError string `json:"last_error"`
	Written   int    `json:"written"`  // bytes of the stream the link accepted
	Out       int    `json:"out"`      // bytes the node wrote to the link
	WTimeout  bool   `json:"wtimeout"` // a write was not consumed within 3 s (the node stopped reading)
	Slow      bool   `json:"slow"`     // serve / a receive worker still busy 3 s after the stream was written
	Hang      bool   `json:"hang"`     // the case did not finish within 5 s
	Err       string `json:"err,omitempty"`
}

// what goes into Replays
type freplay struct {
	fcase
	Coq       bool   `json:"coq"`
	Obs       int    `json:"obs"`
	Frames    int    `json:"frames"`
	BytesIn   int    `json:"bytes_in"`
	Errors    int    `json:"errors"`
	Delivered int    `json:"delivered"`
	Alloc     uint64 `json:"alloc"`
	UAlive    bool   `json:"u_alive"`
	LAlive    bool   `json:"l_alive"`
	DurMs     int    `json:"dur_ms"`
	LastPanic string `json:"last_panic"`
	LastError string `json:"last_error"`
	Written   int    `json:"written"`
	Out       int    `json:"out"`
	Slow      bool   `json:"slow"`
	ChildExit int    `json:"child_exit"`
	Stderr    string `json:"stderr,omitempty"`
}

const (
	frCoqMaxStream = 4096
	frBatch        = 50
	frWorkers      = 6
	frMemKB        = 2 << 20 // ulimit -v of a child: 2 GiB
	frCaseTimeout  = 5 * time.Second
)

func frAllocLimit(streamLen int) uint64 { return uint64(64*streamLen) + 1<<20 }

// ---------------------------------------------------------------------------------------
// child
// ---------------------------------------------------------------------------------------

type frChildIn struct {
	Cases []frChildCase `json:"cases"`
}
type frChildCase struct {
	I    int   `json:"i"`
	Case fcase `json:"case"`
}

var frStdout sync.Mutex

func frEmit(r fres) {
	b, _ := json.Marshal(r)
	frStdout.Lock()
	os.Stdout.Write(append(b, '\n'))
	frStdout.Unlock()
}

func runFramesChild(f flags) {
	b, err := os.ReadFile(f.in)
	if err != nil {
		fmt.Fprintln(os.Stderr, "frames-child:", err)
		os.Exit(4)
	}
	var in frChildIn
	if err := json.Unmarshal(b, &in); err != nil {
		fmt.Fprintln(os.Stderr, "frames-child:", err)
		os.Exit(4)
	}
	t0 := time.Now()
	u, err := newUpair()
	if err != nil {
		fmt.Fprintln(os.Stderr, "frames-child: U:", err)
		os.Exit(4)
	}
	l, err := newLproc()
	if err != nil {
		fmt.Fprintln(os.Stderr, "frames-child: L:", err)
		os.Exit(4)
	}
	if !u.probe() || !l.probe() {
		fmt.Fprintln(os.Stderr, "frames-child: probes fail before any case")
		os.Exit(4)
	}
	frEmit(fres{I: -1, Ready: true, SetupMs: int(time.Since(t0).Milliseconds())})
	for _, c := range in.Cases {
		var mu sync.Mutex
		finished := false
		idx := c.I
		wd := time.AfterFunc(frCaseTimeout, func() {
			mu.Lock()
			defer mu.Unlock()
			if finished {
				return
			}
			frEmit(fres{I: idx, Obs: 3, Hang: true, DurMs: int(frCaseTimeout.Milliseconds())})
			os.Exit(3)
		})
		r := frRunCase(c.Case, u, l)
		r.I = c.I
		mu.Lock()
		finished = true
		wd.Stop()
		frEmit(r)
		mu.Unlock()
	}
}

// frRunCase feeds one hostile stream to a fresh victim connection and observes.
func frRunCase(c fcase, u *upair, l *lproc) fres {
	res := fres{}
	stream, err := hex.DecodeString(c.Stream)
	if err != nil {
		res.Err = "bad hex: " + err.Error()
		return res
	}
	if !frBaseline() {
		res.Err = "goroutines of an earlier case are still around"
		return res
	}
	t0 := time.Now()
	v, err := newVictim(c.Max, c.Acache)
	if err != nil {
		res.Err = "victim: " + err.Error()
		return res
	}
	var m0, m1 runtime.MemStats
	runtime.ReadMemStats(&m0)

	// write the stream in chunks; one absolute write deadline for the whole stream (a deadline per
	// chunk would allocate a timer per chunk and spoil the allocation measure)
	v.mine.SetWriteDeadline(time.Now().Add(3 * time.Second))
	pos, ci := 0, 0
	for pos < len(stream) {
		k := len(stream) - pos
		if len(c.Chunks) > 0 {
			sz := c.Chunks[len(c.Chunks)-1]
			if ci < len(c.Chunks) {
				sz = c.Chunks[ci]
			}
			ci++
			if sz < 1 {
				sz = 1
			}
			if sz < k {
				k = sz
			}
		}
		n, werr := v.mine.Write(stream[pos : pos+k])
		pos += n
		if werr != nil {
			if errors.Is(werr, os.ErrDeadlineExceeded) {
				res.WTimeout = true
			}
			// io.ErrClosedPipe: the node closed the link (the drain goroutine sees EOF)
			break
		}
	}
	res.Written = pos

	// wait until the node has consumed what it got
	exited, busy := frQuiesce(v)
	res.Slow = busy
	if exited {
		// serve closed the link before it returned; let the drain goroutine see the EOF
		for i := 0; i < 5000 && !v.closed.Load(); i++ {
			time.Sleep(200 * time.Microsecond)
		}
	}

	runtime.ReadMemStats(&m1)
	res.Alloc = m1.TotalAlloc - m0.TotalAlloc

	info := v.conn.Node().Info()
	panics, errs, _ := v.log.snap()
	res.Frames = int(info.MessagesIn)
	res.BytesIn = int(info.BytesIn)
	res.Errors = errs
	res.Delivered = v.core.count()
	res.Out = int(v.drained.Load())
	res.LastPanic, res.LastError = v.log.texts()
	switch {
	case panics > 0:
		res.Obs = 2
	case exited || v.closed.Load():
		res.Obs = 1
	default:
		res.Obs = 0
	}
	res.DurMs = int(time.Since(t0).Milliseconds())

	// liveness of the rest of the process
	res.UAlive = u.probe()
	res.LAlive = l.probe()
	v.close()
	return res
}

// Goroutine census of the process (runtime.Stack of all goroutines): how many goroutines run
// connection.serve, how many of them are parked in the Read of their net.Pipe, how many receive
// workers (connection.handleRecvQueue) exist.  This is the positive signal "the connection has
// consumed everything it was given": serve is back in Read (or has returned = link closed by the
// node) and no receive worker is left (serve starts the worker before it reads again, and a worker
// does not leave while its queue holds a frame - except by the panic that is logged).
type frCensus struct{ serve, serveIdle, workers int }

var frStackBuf = make([]byte, 1<<20)

func frTakeCensus() (frCensus, bool) {
	n := runtime.Stack(frStackBuf, true)
	if n == len(frStackBuf) {
		frStackBuf = make([]byte, 2*len(frStackBuf))
		return frCensus{}, false
	}
	var c frCensus
	rest := frStackBuf[:n]
	for len(rest) > 0 {
		blk := rest
		if i := bytes.Index(rest, []byte("\n\n")); i >= 0 {
			blk, rest = rest[:i], rest[i+2:]
		} else {
			rest = nil
		}
		// (the "created by" line also identifies a goroutine that has not run yet: its stack shows
		// only the compiler's go-wrapper)
		if bytes.Contains(blk, []byte("created by ergo.services/ergo/net/proto.(*connection).serve")) ||
			bytes.Contains(blk, []byte("net/proto.(*connection).handleRecvQueue(")) {
			c.workers++
		} else if bytes.Contains(blk, []byte("created by ergo.services/ergo/net/proto.(*connection).Join")) {
			c.serve++
			hdr := blk
			if i := bytes.IndexByte(blk, '\n'); i >= 0 {
				hdr = blk[:i]
			}
			if bytes.Contains(hdr, []byte("[select")) && bytes.Contains(blk, []byte("net.(*pipe).read(")) &&
				bytes.Contains(blk, []byte("net/proto.(*connection).serve(")) {
				c.serveIdle++
			}
		}
	}
	return c, true
}

// the unrelated pair U owns two serve goroutines, always parked in Read
const frServeBase = 2

// frBaseline: before a case, nothing of an earlier victim is left
func frBaseline() bool {
	for i := 0; i < 2000; i++ {
		if c, ok := frTakeCensus(); ok && c.serve == frServeBase && c.serveIdle == frServeBase && c.workers == 0 {
			return true
		}
		time.Sleep(500 * time.Microsecond)
	}
	return false
}

// frQuiesce waits (max 3 s) until the victim has processed everything it received; returns
// (serve has returned, still busy after 3 s).
func frQuiesce(v *victim) (exited bool, busy bool) {
	type snap struct {
		in, bytes, out uint64
		p, e, d        int
	}
	take := func() snap {
		info := v.conn.Node().Info()
		p, e, _ := v.log.snap()
		return snap{info.MessagesIn, info.BytesIn, info.MessagesOut, p, e, v.core.count()}
	}
	deadline := time.Now().Add(3 * time.Second)
	sleep := 100 * time.Microsecond
	prev := snap{in: ^uint64(0)}
	for {
		s := take()
		if s == prev {
			// the counters did not move since the last poll: look at the goroutines (stops the world,
			// so not done on every poll)
			c, ok := frTakeCensus()
			if ok && c.workers == 0 && c.serve == c.serveIdle && (c.serve == frServeBase || c.serve == frServeBase+1) && take() == s {
				return c.serve == frServeBase, false
			}
		}
		prev = s
		if time.Now().After(deadline) {
			return false, true
		}
		time.Sleep(sleep)
		if sleep < 2*time.Millisecond {
			sleep *= 2
		}
	}
}

// ---------------------------------------------------------------------------------------
// frame builders
// ---------------------------------------------------------------------------------------

func frBe16(v uint16) []byte { b := make([]byte, 2); binary.BigEndian.PutUint16(b, v); return b }
func frBe32(v uint32) []byte { b := make([]byte, 4); binary.BigEndian.PutUint32(b, v); return b }
func frBe64(v uint64) []byte { b := make([]byte, 8); binary.BigEndian.PutUint64(b, v); return b }

func frCat(parts ...[]byte) []byte {
	var out []byte
	for _, p := range parts {
		out = append(out, p...)
	}
	return out
}

func frRnd(r *rand.Rand, n int) []byte {
	b := make([]byte, n)
	r.Read(b)
	return b
}

// frHdr: magic 78, version 1, declared total length, order, type
func frHdr(l uint32, order, typ byte) []byte {
	return frCat([]byte{78, 1}, frBe32(l), []byte{order, typ})
}

// frFrame: a frame whose declared length is right
func frFrame(typ, order byte, body []byte) []byte {
	return frCat(frHdr(uint32(8+len(body)), order, typ), body)
}

var frKnownTypes = []byte{101, 102, 103, 104, 105, 106, 107, 121, 122, 123, 124, 129, 130, 181, 182, 183, 184, 185, 186, 199, 200}
var frUnknownTypes = []byte{0, 1, 100, 201, 202, 203, 255}

// minimum-length guards of handleRecvQueue (first guard of the type)
var frGuard = map[byte]int{101: 33, 102: 26, 103: 28, 104: 49, 105: 28, 106: 28, 107: 26, 121: 50, 122: 43, 123: 43,
	124: 66, 129: 49, 130: 50, 181: 18, 182: 12, 183: 12, 184: 34, 185: 12, 186: 12, 199: 9, 200: 10}

func frIsReason(t byte) bool {
	return t == 107 || (t >= 181 && t <= 186)
}

func frEnc(v any) []byte {
	b := lib.TakeBuffer()
	defer lib.ReleaseBuffer(b)
	if err := edf.Encode(v, b, edf.Options{}); err != nil {
		panic(fmt.Sprintf("harness: edf.Encode(%T): %v", v, err))
	}
	return append([]byte(nil), b.B...)
}

// valid EDF payloads: ordinary values / termination reasons
func frValue(r *rand.Rand) []byte {
	switch r.Intn(8) {
	case 0:
		return frEnc("hello")
	case 1:
		return frEnc(42)
	case 2:
		return frEnc([]int{1, 2})
	case 3:
		return frEnc(gen.PID{Node: frHostilePeer, ID: 1000 + uint64(r.Intn(9)), Creation: frHostileCre})
	case 4:
		return frEnc(gen.Atom("atom"))
	case 5:
		return frEnc(map[string]int{"a": 1})
	case 6:
		return frEnc(3.5)
	default:
		return frEnc(strings.Repeat("x", r.Intn(60)))
	}
}

func frReason(r *rand.Rand) []byte {
	switch r.Intn(4) {
	case 0:
		return frEnc(gen.TerminateReasonNormal)
	case 1:
		return frEnc(gen.ErrProcessUnknown)
	case 2:
		return frEnc(errors.New("boom"))
	default:
		return frEnc(gen.TerminateReasonKill)
	}
}

// structured messages of type 199
func frAnyMsg(r *rand.Rand) (string, []byte) {
	src := gen.PID{Node: frHostilePeer, ID: 1001, Creation: frHostileCre}
	tgt := gen.PID{Node: frVictimNode, ID: 1002, Creation: frVictimCre}
	ref := gen.Ref{Node: frHostilePeer, Creation: frHostileCre, ID: [3]uint64{uint64(r.Intn(1000)), 1, 2}}
	al := gen.Alias{Node: frVictimNode, Creation: frVictimCre, ID: [3]uint64{5, 6, 7}}
	ev := gen.Event{Node: frVictimNode, Name: "ev"}
	pn := gen.ProcessID{Node: frVictimNode, Name: "name"}
	switch r.Intn(16) {
	case 0:
		return "link_pid", frEnc(proto.MessageLinkPID{Source: src, Target: tgt, Ref: ref})
	case 1:
		return "unlink_pid", frEnc(proto.MessageUnlinkPID{Source: src, Target: tgt, Ref: ref})
	case 2:
		return "monitor_pid", frEnc(proto.MessageMonitorPID{Source: src, Target: tgt, Ref: ref})
	case 3:
		return "demonitor_pid", frEnc(proto.MessageDemonitorPID{Source: src, Target: tgt, Ref: ref})
	case 4:
		return "link_alias", frEnc(proto.MessageLinkAlias{Source: src, Target: al, Ref: ref})
	case 5:
		return "monitor_event", frEnc(proto.MessageMonitorEvent{Source: src, Target: ev, Ref: ref})
	case 6:
		return "link_name", frEnc(proto.MessageLinkProcessID{Source: src, Target: pn, Ref: ref})
	case 7:
		return "result", frEnc(proto.MessageResult{Ref: ref})
	case 8:
		return "spawn", frEnc(proto.MessageSpawn{Name: "factory", Ref: ref})
	case 9:
		return "app_start", frEnc(proto.MessageApplicationStart{Name: "app", Mode: gen.ApplicationModeTemporary, Ref: ref})
	case 10:
		return "update_cache_empty", frEnc(proto.MessageUpdateCache{Ref: ref})
	case 11:
		return "update_cache_atoms", frEnc(proto.MessageUpdateCache{AtomCache: map[uint16]gen.Atom{400: "late"}, Ref: ref})
	case 12:
		return "update_cache_mapping", frEnc(proto.MessageUpdateCache{AtomMapping: map[gen.Atom]gen.Atom{"a": "b"}, Ref: ref})
	case 13:
		return "update_cache_reg", frEnc(proto.MessageUpdateCache{RegCache: map[uint16]string{5000: "#x/y"}, Ref: ref})
	case 14:
		return "not_a_proto_message", frEnc("hello")
	default:
		return "link_event", frEnc(proto.MessageLinkEvent{Source: src, Target: ev, Ref: ref})
	}
}

type frOpt struct {
	important bool
	name      []byte // nil = "name"
	nameLen   int    // -1 = len(name); else the (lying) length byte
	cacheID   uint16
	code      byte // type 130: error code (0..3, 255 = payload follows)
}

func frDefaultOpt(r *rand.Rand) frOpt {
	return frOpt{nameLen: -1, cacheID: frCachedID, code: []byte{0, 1, 2, 3, 255}[r.Intn(5)]}
}

// frBody: the fixed fields of a frame of type typ (as the sender side of connection.go lays them
// out) followed by payload
func frBody(r *rand.Rand, typ byte, o frOpt, payload []byte) []byte {
	from := frBe64(1000 + uint64(r.Intn(50)))
	to := frBe64(2000 + uint64(r.Intn(50)))
	prio := byte(r.Intn(3))
	if o.important {
		prio |= 128
	}
	ref8 := frBe64(uint64(r.Intn(1 << 20)))
	ref24 := frCat(frBe64(uint64(r.Intn(1<<20))), frBe64(uint64(r.Intn(100))), frBe64(0))
	alias := frCat(frBe64(uint64(r.Intn(100))), frBe64(uint64(r.Intn(100))), frBe64(uint64(r.Intn(100))))
	name := o.name
	if name == nil {
		name = []byte("name")
	}
	nl := len(name)
	if o.nameLen >= 0 {
		nl = o.nameLen
	}
	nm := frCat([]byte{byte(nl)}, name)
	id := frBe16(o.cacheID)
	switch typ {
	case 101:
		return frCat(from, []byte{prio}, ref8, to, payload)
	case 102:
		return frCat(from, []byte{prio}, ref8, nm, payload)
	case 103:
		return frCat(from, []byte{prio}, ref8, id, payload)
	case 104:
		return frCat(from, []byte{prio}, ref8, alias, payload)
	case 105:
		return frCat(from, []byte{prio & 3}, ref8, nm, payload)
	case 106:
		return frCat(from, []byte{prio & 3}, ref8, id, payload)
	case 107:
		return frCat(from, []byte{prio & 3}, to, payload)
	case 121:
		return frCat(from, []byte{prio}, ref24, to, payload)
	case 122:
		return frCat(from, []byte{prio}, ref24, nm, payload)
	case 123:
		return frCat(from, []byte{prio}, ref24, id, payload)
	case 124:
		return frCat(from, []byte{prio}, ref24, alias, payload)
	case 129:
		return frCat(from, []byte{prio & 3}, to, ref24, payload)
	case 130:
		if o.code == 255 {
			return frCat(from, []byte{prio & 3}, to, ref24, []byte{255}, payload)
		}
		return frCat(from, []byte{prio & 3}, to, ref24, []byte{o.code})
	case 181:
		return frCat([]byte{prio & 3}, to, payload)
	case 182, 185:
		return frCat([]byte{prio & 3}, nm, payload)
	case 183, 186:
		return frCat([]byte{prio & 3}, id, payload)
	case 184:
		return frCat([]byte{prio & 3}, alias, payload)
	default: // 199 and unknown types
		return payload
	}
}

func frPayloadFor(r *rand.Rand, typ byte) []byte {
	switch {
	case typ == 199:
		_, p := frAnyMsg(r)
		return p
	case frIsReason(typ) || typ == 130:
		return frReason(r)
	default:
		return frValue(r)
	}
}

func frOrder(r *rand.Rand) byte {
	if r.Intn(2) == 0 {
		return 0
	}
	return byte(r.Intn(256))
}

// a well-formed frame of a random uncompressed type (199 only with `harmless` payloads when plain)
func frValidFrame(r *rand.Rand) []byte {
	typ := frKnownTypes[r.Intn(len(frKnownTypes)-2)] // not 199 / 200
	return frFrame(typ, frOrder(r), frBody(r, typ, frDefaultOpt(r), frPayloadFor(r, typ)))
}

// compressed frame as connection.send builds it: 8-byte header, compression id, declared
// unpacked size (4 bytes), compressed data
func frCompress(ctype byte, inner []byte) []byte {
	src := lib.TakeBuffer()
	src.Append(inner)
	var z *lib.Buffer
	var err error
	switch ctype {
	case 100:
		z, err = lib.CompressLZW(src, 9)
	case 101:
		z, err = lib.CompressZLIB(src, 9)
	default:
		z, err = lib.CompressGZIP(src, 9, 0)
	}
	if err != nil {
		panic("harness: compress: " + err.Error())
	}
	out := append([]byte(nil), z.B[13:]...)
	lib.ReleaseBuffer(src)
	lib.ReleaseBuffer(z)
	return out
}

func frZFrame(order, ctype byte, declared uint32, data []byte) []byte {
	return frFrame(200, order, frCat([]byte{ctype}, frBe32(declared), data))
}

// ---------------------------------------------------------------------------------------
// case generators (one per class)
// ---------------------------------------------------------------------------------------

func frChunks(r *rand.Rand, n int) []int {
	switch r.Intn(8) {
	case 0, 1, 2:
		return []int{} // whole
	case 3:
		return []int{1}
	case 4:
		return []int{[]int{7, 8, 9}[r.Intn(3)], n + 1} // header split, then the rest
	case 5:
		return []int{2 + r.Intn(15)}
	default:
		var l []int
		for tot := 0; tot < n && len(l) < 64; {
			k := 1 + r.Intn(1+n/3)
			if r.Intn(3) == 0 {
				k = 1 + r.Intn(9)
			}
			l = append(l, k)
			tot += k
		}
		if len(l) == 0 {
			l = []int{n + 1}
		}
		return l
	}
}

func frMax(r *rand.Rand) int {
	switch r.Intn(6) {
	case 0:
		return 65536
	case 1:
		return 1 << 20
	default:
		return 0
	}
}

func frMkCase(r *rand.Rand, class, kind string, max int, acache bool, stream []byte) fcase {
	return fcase{Max: max, Acache: acache, Stream: hex.EncodeToString(stream), Chunks: frChunks(r, len(stream)),
		Class: class, Kind: kind, Tags: []string{}}
}

func frFill(r *rand.Rand, n int, zero bool) []byte {
	if n < 0 {
		n = 0
	}
	if zero {
		return make([]byte, n)
	}
	return frRnd(r, n)
}

// class a: header-only attacks.  The list is enumerated in a seed-shuffled order, so that a quick
// run covers declared lengths 0..7 and the guard sweep of every type.
func frClassAList(r *rand.Rand) []fcase {
	var out []fcase
	allTypes := append(append([]byte{}, frKnownTypes...), frUnknownTypes...)
	for l := 0; l < 8; l++ {
		typ := allTypes[r.Intn(len(allTypes))]
		// the process-killing input before fix cda3993 was 4e 01 00 00 00 03 00 65
		out = append(out, frMkCase(r, "a", fmt.Sprintf("lowlen-%d", l), frMax(r), false, frHdr(uint32(l), 0, typ)))
		out = append(out, frMkCase(r, "a", fmt.Sprintf("lowlen-%d-extra", l), frMax(r), false,
			frCat(frHdr(uint32(l), frOrder(r), typ), frRnd(r, 1+r.Intn(20)))))
	}
	for _, typ := range allTypes {
		g, known := frGuard[typ]
		lens := []int{8, 9, 20}
		if known {
			lens = []int{8, 9, g - 1, g, g + 1}
		}
		for _, zero := range []bool{true, false} {
			var s []byte
			for _, l := range lens {
				if l < 8 {
					continue
				}
				s = append(s, frCat(frHdr(uint32(l), frOrder(r), typ), frFill(r, l-8, zero))...)
			}
			fill := "rnd"
			if zero {
				fill = "zero"
			}
			out = append(out, frMkCase(r, "a", fmt.Sprintf("sweep-%d-%s", typ, fill), frMax(r), r.Intn(2) == 0, s))
		}
	}
	r.Shuffle(len(out), func(i, j int) { out[i], out[j] = out[j], out[i] })
	return out
}

// one frame of a type, length around its guard
func frClassASingle(r *rand.Rand) fcase {
	allTypes := append(append([]byte{}, frKnownTypes...), frUnknownTypes...)
	typ := allTypes[r.Intn(len(allTypes))]
	g, known := frGuard[typ]
	if !known {
		g = 8
	}
	l := []int{8, 9, g - 1, g, g + 1, g + 2 + r.Intn(20)}[r.Intn(6)]
	if l < 8 {
		l = 8
	}
	zero := r.Intn(3) == 0
	return frMkCase(r, "a", fmt.Sprintf("single-%d-len%+d", typ, l-g), frMax(r), r.Intn(2) == 0,
		frCat(frHdr(uint32(l), frOrder(r), typ), frFill(r, l-8, zero)))
}

// class b: valid-looking frames of each type with hostile contents
func frClassB(r *rand.Rand) fcase {
	typ := frKnownTypes[r.Intn(len(frKnownTypes)-2)] // 101..186
	o := frDefaultOpt(r)
	acache := r.Intn(2) == 0
	payload := frPayloadFor(r, typ)
	kind := "valid"
	switch k := r.Intn(10); {
	case k == 0:
	case k <= 2:
		kind = "garbage"
		payload = frRnd(r, r.Intn(40))
	case k == 3:
		kind = "trunc"
		if len(payload) > 0 {
			payload = payload[:r.Intn(len(payload))]
		}
	case k == 4:
		kind = "extra"
		payload = frCat(payload, frRnd(r, 1+r.Intn(8)))
	case k == 5:
		kind = "important"
		typ = []byte{101, 102, 103, 104, 121, 122, 123, 124}[r.Intn(8)]
		payload = frValue(r)
		o.important = true
		if r.Intn(3) == 0 {
			kind = "important-garbage"
			payload = frRnd(r, r.Intn(20))
		}
	case k == 6 || k == 7:
		kind = "namelen"
		typ = []byte{102, 122, 105, 182, 185}[r.Intn(5)]
		payload = frPayloadFor(r, typ)
		o.name = []byte("name")
		switch r.Intn(4) {
		case 0:
			o.nameLen = 255
		case 1:
			o.nameLen = 4 + len(payload) + 1 // one more than the rest of the frame
		case 2:
			o.nameLen = 4 + len(payload) // the name swallows the payload: nothing left to decode
		default:
			o.nameLen = 5 + r.Intn(250)
		}
		if r.Intn(4) == 0 {
			payload = nil
		}
	default:
		kind = "cache"
		typ = []byte{103, 106, 123, 183, 186}[r.Intn(5)]
		payload = frPayloadFor(r, typ)
		o.cacheID = []uint16{frCachedID, frCachedID, 0, 7, 299, 301, 65535}[r.Intn(7)]
		if r.Intn(5) == 0 {
			payload = frRnd(r, r.Intn(10))
		}
	}
	if typ == 130 && kind != "valid" && kind != "extra" {
		o.code = []byte{255, 255, 4, 200, 254}[r.Intn(5)]
	}
	s := frFrame(typ, frOrder(r), frBody(r, typ, o, payload))
	return frMkCase(r, "b", fmt.Sprintf("%s-%d", kind, typ), frMax(r), acache, s)
}

// class c: wrong magic / wrong version at the first or at a later frame
func frClassC(r *rand.Rand) fcase {
	k := r.Intn(4)
	var s []byte
	for i := 0; i < k; i++ {
		s = append(s, frValidFrame(r)...)
	}
	bad := frValidFrame(r)
	kind := "magic"
	if r.Intn(2) == 0 {
		bad[0] = []byte{0, 77, 79, 255, 1}[r.Intn(5)]
	} else {
		kind = "version"
		bad[1] = []byte{0, 2, 78, 255}[r.Intn(4)]
	}
	s = append(s, bad...)
	if r.Intn(2) == 0 {
		s = append(s, frValidFrame(r)...)
	}
	return frMkCase(r, "c", fmt.Sprintf("%s-after-%d", kind, k), frMax(r), r.Intn(2) == 0, s)
}

// class d: declared length vs bytes sent vs the configured maximum
func frClassD(r *rand.Rand) fcase {
	k := r.Intn(3)
	var pre []byte
	for i := 0; i < k; i++ {
		pre = append(pre, frValidFrame(r)...)
	}
	typ := frKnownTypes[r.Intn(len(frKnownTypes))]
	switch r.Intn(7) {
	case 0, 1: // declared more than sent: the link waits
		f := frValidFrame(r)
		cut := 8 + r.Intn(len(f)-8)
		if r.Intn(4) == 0 {
			cut = 1 + r.Intn(7) // not even a header
		}
		return frMkCase(r, "d", "short-sent", 0, false, frCat(pre, f[:cut]))
	case 2: // declared > max
		max := []int{64, 1024, 65536}[r.Intn(3)]
		pre = nil // (the valid frames could exceed a small max themselves)
		l := uint32(max + 1)
		switch r.Intn(3) {
		case 0:
			l = uint32(max + 1 + r.Intn(1000))
		case 1:
			l = 0xffffffff
		}
		return frMkCase(r, "d", fmt.Sprintf("over-max-%d", max), max, false, frCat(frHdr(l, 0, typ), frRnd(r, r.Intn(40))))
	case 3: // declared == max exactly, all bytes sent: must pass
		max := []int{64, 1024}[r.Intn(2)]
		l := max - r.Intn(2)
		return frMkCase(r, "d", fmt.Sprintf("at-max-%d", max), max, false, frCat(frHdr(uint32(l), frOrder(r), typ), frRnd(r, l-8)))
	case 4: // huge declared length, unlimited, 100 bytes sent
		l := []uint32{0xffffffff, 0x7fffffff, 0x80000000, 1 << 24}[r.Intn(4)]
		return frMkCase(r, "d", "huge-declared", 0, false, frCat(pre, frHdr(l, frOrder(r), typ), frRnd(r, 92)))
	case 5: // maximum below the header size: every frame is too long
		max := 1 + r.Intn(7)
		return frMkCase(r, "d", fmt.Sprintf("tiny-max-%d", max), max, false, frValidFrame(r))
	default: // a valid frame larger than one pooled buffer, declared length right / one byte missing
		n := 4000 + r.Intn(9000)
		f := frFrame(101, frOrder(r), frBody(r, 101, frDefaultOpt(r), frEnc(strings.Repeat("y", n))))
		kind := "big-valid"
		if r.Intn(3) == 0 {
			f = f[:len(f)-1]
			kind = "big-short"
		}
		return frMkCase(r, "d", kind, []int{0, 65536}[r.Intn(2)], false, frCat(pre, f))
	}
}

// a single hostile piece for the middle of a concatenation
func frHostilePiece(r *rand.Rand) (string, []byte) {
	switch r.Intn(7) {
	case 0:
		return "lowlen", frHdr(uint32(r.Intn(8)), frOrder(r), frKnownTypes[r.Intn(len(frKnownTypes))])
	case 1:
		c := frClassB(r)
		b, _ := hex.DecodeString(c.Stream)
		return "b:" + c.Kind, b
	case 2:
		f := frValidFrame(r)
		f[0] = 79
		return "magic", f
	case 3:
		c := frClassG(r, false)
		b, _ := hex.DecodeString(c.Stream)
		return "g:" + c.Kind, b
	case 4:
		c := frClassASingle(r)
		b, _ := hex.DecodeString(c.Stream)
		return "a:" + c.Kind, b
	case 5:
		return "random", frRnd(r, 1+r.Intn(40))
	default:
		c := frClassU(r)
		b, _ := hex.DecodeString(c.Stream)
		return "u:" + c.Kind, b
	}
}

// class e: several frames concatenated, the hostile one in the middle, random chunking
func frClassE(r *rand.Rand) fcase {
	var s []byte
	for i, k := 0, 1+r.Intn(4); i < k; i++ {
		s = append(s, frValidFrame(r)...)
	}
	kind, h := frHostilePiece(r)
	s = append(s, h...)
	for i, k := 0, 1+r.Intn(4); i < k; i++ {
		s = append(s, frValidFrame(r)...)
	}
	c := frMkCase(r, "e", kind, frMax(r), r.Intn(2) == 0, s)
	if r.Intn(2) == 0 {
		c.Chunks = []int{1}
	}
	return c
}

// class f: pure random bytes
func frClassF(r *rand.Rand) fcase {
	s := frRnd(r, 1+r.Intn(200))
	kind := "random"
	switch r.Intn(4) {
	case 0:
		kind = "random-after-magic"
		s[0] = 78
		if len(s) > 1 {
			s[1] = 1
		}
	case 1:
		kind = "random-small-len"
		if len(s) >= 8 {
			s[0], s[1], s[2], s[3], s[4] = 78, 1, 0, 0, 0
		}
	}
	return frMkCase(r, "f", kind, frMax(r), r.Intn(2) == 0, s)
}

// class g: compressed frames (type 200)
func frClassG(r *rand.Rand, allowMany bool) fcase {
	ctype := []byte{100, 101, 102}[r.Intn(3)]
	inner := frValidFrame(r)
	order := inner[6]
	acache := r.Intn(2) == 0
	var s []byte
	kind := ""
	switch k := r.Intn(16); k {
	case 0, 1:
		kind = "valid"
		s = frZFrame(order, ctype, uint32(len(inner)), frCompress(ctype, inner))
	case 2:
		kind = "size-minus-1"
		s = frZFrame(order, ctype, uint32(len(inner)-1), frCompress(ctype, inner))
	case 3:
		kind = "size-plus-1"
		s = frZFrame(order, ctype, uint32(len(inner)+1), frCompress(ctype, inner))
	case 4, 5, 6: // inner frame shorter than a header; declared size matches the inflated data
		n := r.Intn(8)
		kind = fmt.Sprintf("short-inner-%d", n)
		s = frZFrame(order, ctype, uint32(n), frCompress(ctype, inner[:n]))
	case 7:
		kind = "unknown-compression"
		bad := []byte{0, 1, 99, 103, 200, 255}[r.Intn(6)]
		s = frZFrame(order, bad, uint32(len(inner)), frCompress(ctype, inner))
	case 8:
		kind = "truncated-data"
		z := frCompress(ctype, inner)
		s = frZFrame(order, ctype, uint32(len(inner)), z[:r.Intn(len(z))])
	case 9:
		kind = "nested"
		in2 := frZFrame(order, ctype, uint32(len(inner)), frCompress(ctype, inner))
		c2 := []byte{100, 101, 102}[r.Intn(3)]
		s = frZFrame(order, c2, uint32(len(in2)), frCompress(c2, in2))
	case 10: // below the 13 bytes the decompressors need (guard of the dispatcher is 10)
		l := 10 + r.Intn(3)
		kind = fmt.Sprintf("len-%d", l)
		s = frCat(frHdr(uint32(l), order, 200), []byte{ctype}, frRnd(r, l-9))
	case 11:
		kind = "garbage-data"
		s = frZFrame(order, ctype, uint32(r.Intn(200)), frRnd(r, r.Intn(60)))
	case 12: // the inner header lies about the length (not checked after inflating)
		kind = "inner-len-lie"
		in2 := append([]byte(nil), inner...)
		binary.BigEndian.PutUint32(in2[2:6], []uint32{0, 7, 1000, 0xffffffff}[r.Intn(4)])
		s = frZFrame(order, ctype, uint32(len(in2)), frCompress(ctype, in2))
	case 13: // inner magic / version wrong (not checked after inflating)
		kind = "inner-bad-magic"
		in2 := append([]byte(nil), inner...)
		in2[r.Intn(2)] = 0
		s = frZFrame(order, ctype, uint32(len(in2)), frCompress(ctype, in2))
	case 14: // inner frame of 8..guard bytes: the per-type guard must work on the inflated buffer
		typ := frKnownTypes[r.Intn(len(frKnownTypes)-1)]
		g := frGuard[typ]
		l := 8 + r.Intn(g-8+1)
		kind = fmt.Sprintf("inner-%d-len-%d", typ, l)
		in2 := frCat(frHdr(uint32(l), order, typ), frRnd(r, l-8))
		s = frZFrame(order, ctype, uint32(l), frCompress(ctype, in2))
	default: // moderate declared size (64 KiB at most) with valid but short data
		kind = "declared-64k"
		s = frZFrame(order, ctype, uint32(1+r.Intn(65536)), frCompress(ctype, inner))
	}
	if allowMany && r.Intn(3) == 0 {
		s = frCat(frValidFrame(r), s, frValidFrame(r))
		kind += "+ctx"
	}
	return frMkCase(r, "g", kind, frMax(r), acache, s)
}

// class u: structured messages (type 199)
func frClassU(r *rand.Rand) fcase {
	kind, p := frAnyMsg(r)
	switch r.Intn(6) {
	case 0:
		kind += "-trunc"
		p = p[:r.Intn(len(p))]
	case 1:
		kind = "garbage"
		p = frRnd(r, 1+r.Intn(30))
	}
	return frMkCase(r, "u", kind, frMax(r), r.Intn(2) == 0, frFrame(199, frOrder(r), p))
}

// known findings (generated only when listed in -known)
func frKnownCases(r *rand.Rand, known map[string]bool) []fcase {
	var out []fcase
	if known["decompress-declared-size"] {
		small := frValidFrame(r)
		for _, sz := range []uint32{0x10000000, 0x7fffffff, 0xffffffff} {
			// lzw: the reader is created without looking at the data; gzip / zlib: a valid stream
			// (their readers check the header before the buffer is allocated)
			c := frMkCase(r, "g2", fmt.Sprintf("lzw-garbage-%x", sz), 0, false, frZFrame(0, 100, sz, frRnd(r, 20)))
			c.Tags = []string{"decompress-declared-size"}
			c.Chunks = []int{}
			out = append(out, c)
			ct := []byte{101, 102}[r.Intn(2)]
			c = frMkCase(r, "g2", fmt.Sprintf("z%d-valid-%x", ct, sz), 0, false, frZFrame(0, ct, sz, frCompress(ct, small)))
			c.Tags = []string{"decompress-declared-size"}
			c.Chunks = []int{}
			out = append(out, c)
		}
	}
	if known["array-descriptor"] {
		for _, p := range [][]byte{
			{0x82, 0x00, 0x06, 0x9e, 0x04, 0x00, 0x00, 0x00, 0x97},
			{0x82, 0x00, 0x06, 0x9e, 0x7f, 0xff, 0xff, 0xff, 0x97},
		} {
			c := frMkCase(r, "h", fmt.Sprintf("array-%x", p[4:8]), 0, false, frFrame(101, 0, frBody(r, 101, frDefaultOpt(r), p)))
			c.Tags = []string{"array-descriptor"}
			c.Chunks = []int{}
			out = append(out, c)
		}
	}
	return out
}

func frGenerate(n int, known map[string]bool) []fcase {
	r := util.Rng(1601)
	aList := frClassAList(r)
	ai := 0
	var cases []fcase
	// corpus: the process-killing input before fix cda3993, and the smallest recovered panic
	cases = append(cases,
		fcase{Stream: "4e01000000030065", Chunks: []int{}, Class: "a", Kind: "corpus-cda3993", Tags: []string{}},
		fcase{Stream: hex.EncodeToString(frZFrame(0, 100, 0, frCompress(100, nil))), Chunks: []int{}, Class: "g",
			Kind: "corpus-short-inner-0", Tags: []string{}})
	// structured messages that touch the decode caches of the connection (nil unless configured)
	cref := gen.Ref{Node: frHostilePeer, Creation: frHostileCre, ID: [3]uint64{9, 1, 2}}
	for _, ac := range []bool{false, true} {
		for k, m := range []proto.MessageUpdateCache{
			{AtomCache: map[uint16]gen.Atom{400: "late"}, Ref: cref},
			{AtomMapping: map[gen.Atom]gen.Atom{"a": "b"}, Ref: cref},
			{RegCache: map[uint16]string{5000: "#x/y"}, Ref: cref},
			{ErrCache: map[uint16]error{40000: errors.New("e")}, Ref: cref},
			{Ref: cref},
		} {
			cases = append(cases, fcase{Acache: ac, Stream: hex.EncodeToString(frFrame(199, 0, frEnc(m))), Chunks: []int{},
				Class: "u", Kind: fmt.Sprintf("corpus-update-cache-%d", k), Tags: []string{}})
		}
	}
	for len(cases) < n {
		var c fcase
		switch k := r.Intn(100); {
		case k < 30:
			if ai < len(aList) {
				c = aList[ai]
				ai++
			} else {
				c = frClassASingle(r)
			}
		case k < 55:
			c = frClassB(r)
		case k < 61:
			c = frClassC(r)
		case k < 69:
			c = frClassD(r)
		case k < 79:
			c = frClassE(r)
		case k < 83:
			c = frClassF(r)
		case k < 95:
			c = frClassG(r, true)
		default:
			c = frClassU(r)
		}
		cases = append(cases, c)
	}
	cases = append(cases, frKnownCases(r, known)...)
	return cases
}

// ---------------------------------------------------------------------------------------
// parent
// ---------------------------------------------------------------------------------------

type frOutcome struct {
	res       fres
	have      bool
	childExit int
	stderr    string
	died      bool // the process died / timed out on this case
}

// frRunBatch runs cases[idx...] in child processes until every case has an outcome.
func frRunBatch(cases []fcase, idx []int, out []frOutcome, children *int, mu *sync.Mutex, notes *[]string) {
	rest := idx
	for len(rest) > 0 {
		in := frChildIn{}
		for _, i := range rest {
			in.Cases = append(in.Cases, frChildCase{I: i, Case: cases[i]})
		}
		tmp, err := os.CreateTemp("", "hostile_frames_*.json")
		if err != nil {
			panic(err)
		}
		b, _ := json.Marshal(in)
		tmp.Write(b)
		tmp.Close()
		timeout := 15*time.Second + time.Duration(len(rest))*6*time.Second
		cr := runChild("frames-child", tmp.Name(), frMemKB, timeout)
		os.Remove(tmp.Name())
		mu.Lock()
		*children++
		mu.Unlock()

		ready := false
		got := map[int]bool{}
		hang := false
		sc := bufio.NewScanner(bytes.NewReader(cr.Stdout))
		sc.Buffer(make([]byte, 1<<20), 1<<24)
		for sc.Scan() {
			var r fres
			if json.Unmarshal(sc.Bytes(), &r) != nil {
				continue
			}
			if r.Ready {
				ready = true
				continue
			}
			if r.I < 0 || r.I >= len(out) {
				continue
			}
			out[r.I] = frOutcome{res: r, have: true}
			got[r.I] = true
			if r.Hang {
				hang = true
				out[r.I].died = true
				out[r.I].childExit = cr.Exit
				out[r.I].stderr = cr.Stderr
			}
		}
		if !ready {
			// the child did not even set up U and L: a failure of the harness, not of a case
			fmt.Fprintf(os.Stderr, "hostile frames: child failed before the first case (exit %d, timeout %v): %s\n",
				cr.Exit, cr.TimedOut, cr.Stderr)
			os.Exit(1)
		}
		var next []int
		culprit := -1
		for k, i := range rest {
			if !got[i] {
				culprit = k
				break
			}
		}
		if culprit < 0 {
			if cr.Exit != 0 && !hang {
				mu.Lock()
				*notes = append(*notes, fmt.Sprintf("child exited with %d after its last case %d: %s", cr.Exit, rest[len(rest)-1], frClip(cr.Stderr, 300)))
				mu.Unlock()
			}
			return
		}
		if hang {
			// the watchdog reported the hanging case itself; the cases after it were not run
			next = rest[culprit:]
		} else {
			i := rest[culprit]
			out[i] = frOutcome{have: true, died: true, childExit: cr.Exit, stderr: cr.Stderr,
				res: fres{I: i, Obs: 3, Hang: cr.TimedOut, DurMs: int(cr.Dur.Milliseconds())}}
			next = rest[culprit+1:]
		}
		rest = next
	}
}

func frStderrTail(s string) string {
	// the interesting part of a Go crash is at the top: "panic: ..." / "fatal error: ..." and the
	// first frames of the goroutine that crashed
	var keep []string
	for _, l := range strings.Split(s, "\n") {
		l = strings.TrimSpace(l)
		if l == "" {
			continue
		}
		keep = append(keep, l)
		if len(keep) >= 7 {
			break
		}
	}
	return frClip(strings.Join(keep, " | "), 700)
}

func runFrames(f flags) {
	o := util.NewOut("hostile.frames")
	o.Monitor = []util.MonitorFail{}
	var cases []fcase
	if f.replay != "" {
		b, err := os.ReadFile(f.replay)
		if err != nil {
			panic(err)
		}
		var rp struct {
			Case fcase `json:"case"`
		}
		if err := json.Unmarshal(b, &rp); err != nil {
			panic(err)
		}
		if rp.Case.Tags == nil {
			rp.Case.Tags = []string{}
		}
		if rp.Case.Chunks == nil {
			rp.Case.Chunks = []int{}
		}
		cases = []fcase{rp.Case}
	} else {
		cases = frGenerate(f.n, f.known)
	}

	out := make([]frOutcome, len(cases))
	var batches [][]int
	for i := 0; i < len(cases); i += frBatch {
		var b []int
		for j := i; j < i+frBatch && j < len(cases); j++ {
			b = append(b, j)
		}
		batches = append(batches, b)
	}
	var wg sync.WaitGroup
	var mu sync.Mutex
	children := 0
	var notes []string
	sem := make(chan struct{}, frWorkers)
	t0 := time.Now()
	for _, b := range batches {
		wg.Add(1)
		sem <- struct{}{}
		go func(b []int) {
			defer wg.Done()
			defer func() { <-sem }()
			frRunBatch(cases, b, out, &children, &mu, &notes)
		}(b)
	}
	wg.Wait()

	var maxAlloc uint64
	maxDur, slow := 0, 0
	for i, c := range cases {
		oc := out[i]
		r := oc.res
		streamLen := len(c.Stream) / 2
		coq := streamLen <= frCoqMaxStream && r.Obs != 3 && !r.Hang && len(c.Tags) == 0 && r.Err == ""
		term := fmt.Sprintf("mk_fcase %d %s (hx %s) %d %d", c.Max, util.B(c.Acache), "\""+c.Stream+"\"", r.Obs, r.Frames)
		if !coq {
			term = fmt.Sprintf("mk_fcase %d %s (hx \"\") 0 0", c.Max, util.B(c.Acache))
		}
		rp := freplay{fcase: c, Coq: coq, Obs: r.Obs, Frames: r.Frames, BytesIn: r.BytesIn, Errors: r.Errors, Delivered: r.Delivered,
			Alloc: r.Alloc, UAlive: r.UAlive, LAlive: r.LAlive, DurMs: r.DurMs, LastPanic: r.LastPanic, LastError: r.LastError,
			Written: r.Written, Out: r.Out, Slow: r.Slow, ChildExit: oc.childExit}
		if oc.died {
			rp.Stderr = frStderrTail(oc.stderr)
		}
		ci := o.Add(term, rp)

		o.Stats["runs"]++
		o.Stats["class_"+c.Class]++
		o.Stats[fmt.Sprintf("obs_%d", r.Obs)]++
		if coq {
			o.Stats["coq_cases"]++
		}
		if c.Acache {
			o.Stats["acache"]++
		}
		if c.Max > 0 {
			o.Stats["max_set"]++
		}
		switch {
		case len(c.Chunks) == 0:
			o.Stats["chunks_whole"]++
		case len(c.Chunks) == 1 && c.Chunks[0] == 1:
			o.Stats["chunks_byte"]++
		default:
			o.Stats["chunks_other"]++
		}
		if r.Delivered > 0 {
			o.Stats["delivered_some"]++
		}
		if r.Out > 0 {
			o.Stats["node_answered"]++
		}
		if r.Slow {
			slow++
		}

		fail := func(what string) {
			o.Monitor = append(o.Monitor, util.MonitorFail{Case: ci, What: what, Tags: c.Tags})
		}
		switch {
		case r.Err != "":
			fail("harness error: " + r.Err)
		case r.Hang:
			fail(fmt.Sprintf("hang: the case did not finish within %v (child exit %d) %s", frCaseTimeout, oc.childExit, frStderrTail(oc.stderr)))
		case r.Obs == 3:
			fail(fmt.Sprintf("process died (child exit %d): %s", oc.childExit, frStderrTail(oc.stderr)))
		default:
			if r.Alloc > maxAlloc && len(c.Tags) == 0 {
				maxAlloc = r.Alloc
			}
			if r.DurMs > maxDur {
				maxDur = r.DurMs
			}
			if !r.UAlive {
				fail("an unrelated connection of the same process no longer delivers messages after the case")
			}
			if !r.LAlive {
				fail("a local process of the same OS process no longer answers a Call after the case")
			}
			if r.Slow {
				fail("hang: serve or a receive worker of the connection is still busy 3 s after the stream was written")
			}
			if r.WTimeout {
				fail("hang: the node stopped reading the link (a write was not consumed within 3 s)")
			}
			if r.Alloc > frAllocLimit(streamLen) {
				fail(fmt.Sprintf("allocation out of proportion: %d bytes allocated for a stream of %d bytes (limit 64*len + 1 MiB = %d)",
					r.Alloc, streamLen, frAllocLimit(streamLen)))
			}
		}
	}
	o.Stats["children"] = children
	o.Stats["slow_quiesce"] = slow
	o.Stats["max_alloc_kb"] = int(maxAlloc >> 10)
	o.Stats["max_case_ms"] = maxDur
	o.Stats["wall_ms"] = int(time.Since(t0).Milliseconds())
	o.Notes = append(o.Notes, notes...)
	if f.out != "" {
		o.Write(f.out)
	} else {
		enc := json.NewEncoder(os.Stdout)
		enc.Encode(o)
	}
}
