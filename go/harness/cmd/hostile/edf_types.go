// COPY of ../edf/types.go (package main files cannot be imported); keep in sync with the Edf engine's harness.
package main

import (
	"errors"
	"fmt"
	"reflect"
	"time"

	"ergo.services/ergo/gen"
	"ergo.services/ergo/net/edf"
)

// Types the harness registers with edf.RegisterTypeOf (dependencies first).
type HInt int
type HI8 int8
type HU16 uint16
type HStr string
type HF32 float32
type HF64 float64
type HBool bool
type HEmpty struct{}
type HPoint struct {
	X int
	Y int16
}
type HKey [2]int8
type HZArr [0]int32
type HList []int32
type HAnyList []any
type HArr [3]uint16
type HMap map[string]HPoint
type HRec struct {
	Name string
	Node gen.Atom
	Pid  gen.PID
	Err  error
	Bin  []byte
	Any  any
	L    []int32
	M    map[string]int8
	A    [2]uint8
	P    HPoint
	T    time.Time
	S    HStr
}
type HMsg struct {
	A  any
	L  []HPoint
	E  []error
	R  gen.Ref
	Al gen.Alias
	Ev gen.Event
	PI gen.ProcessID
	F  float32
	U  uint64
	K  map[HKey]HList
}

type regType struct {
	Short string
	Type  reflect.Type
	Name  string // "#main/HInt"
}

var regTypes []regType
var regByType = map[reflect.Type]*regType{}
var regByShort = map[string]*regType{}

// sentinel error objects (identity matters): some of ergo's, some of the harness
var sentinels = []error{
	gen.ErrTimeout, gen.ErrProcessUnknown, gen.TerminateReasonNormal,
	errors.New("harness sentinel A"), errors.New("harness 100% sentinel %d"), errors.New(""),
}

func registerAll() {
	for _, v := range []any{HInt(0), HI8(0), HU16(0), HStr(""), HF32(0), HF64(0), HBool(false),
		HEmpty{}, HPoint{}, HKey{}, HZArr{}, HList{}, HAnyList{}, HArr{}, HMap{}, HRec{}, HMsg{}} {
		if err := edf.RegisterTypeOf(v); err != nil {
			panic(fmt.Sprintf("register %T: %v", v, err))
		}
		t := reflect.TypeOf(v)
		rt := regType{Short: t.Name(), Type: t, Name: fmt.Sprintf("#%s/%s", t.PkgPath(), t.Name())}
		regTypes = append(regTypes, rt)
	}
	for i := range regTypes {
		regByType[regTypes[i].Type] = &regTypes[i]
		regByShort[regTypes[i].Short] = &regTypes[i]
	}
}
