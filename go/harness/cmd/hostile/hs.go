// Hostile engine (property C16), handshake part: garbage / truncated / oversized / hostile-EDF
// handshake messages are fed to the REAL handshake.Create(handshake.Options{}).Accept / .Start of
// /repo/net/handshake over net.Pipe().  Checked per case (Go monitor, no Coq cases):
//
//   - the call returns an error (a nil error to a script that is not a complete honest dialogue is a
//     failure; scripts with honest > 0 know the cookie for the first `honest` messages, the hostile
//     message that follows is always one that no reading of the protocol can accept);
//   - it returns promptly: readMessage uses 1 s read deadlines, so <= 3 s per write of the script;
//     a call still blocked 6 s (+ the script's own delays) after it started is a hang;
//   - it neither panics nor kills the process (cases run in child processes of this binary: the
//     first case without a result line is the one that killed the child);
//   - runtime.MemStats.TotalAlloc grows in proportion: delta <= 200 * bytes_consumed + 512 KiB;
//   - a message declaring a length above 65535 (and a message with a wrong magic / version) is
//     rejected on its header: none of the `flood` bytes offered after it is consumed.
//
// Calibration of the allocation bound (clean /repo, go1.23 linux/amd64, one warm-up dialogue per role
// in every child; the TotalAlloc delta covers the whole case = the target's call + the hostile
// party's own work; seeds 1, 7, 99, quick n=150 and thorough n=1500 + sweep = 3148 cases):
//
//	complete honest dialogue (MessageIntroduce with the ~5.6 KiB default caches in both directions):
//	     accept 151..178 KB, start 152..175 KB for ~5.9 KB consumed, 4..18 ms
//	scripts without the cookie (honest prefix 0):  5..45 KB, 12 bytes .. 5.7 KB consumed
//	honest prefix 1: accept 12..46 KB, start 31..75 KB;  honest prefix 2: accept 94..142 KB, start 36..76 KB
//	max duration 1.0..1.25 s (one 1 s read deadline, 8 children in parallel); dribble (3 writes) 0.6 s
//	=> bound = 200 * bytes_consumed + 512 KiB: about 3x the largest fixed part seen, and the factor 200
//	   covers the amplification well-formed EDF legitimately has (a nil element of []any is 1 byte on
//	   the wire and 16 bytes in memory, map entries ~50x).  Largest alloc/bound ratio seen: 0.10.
//	   Known-finding inputs for comparison: array descriptor 4 MiB for 15 bytes, 2 GiB -> out of memory.
package main

import (
	"bytes"
	"crypto/sha256"
	"encoding/binary"
	"encoding/hex"
	"encoding/json"
	"errors"
	"fmt"
	"math/rand"
	"net"
	"os"
	"runtime"
	"strings"
	"sync"
	"sync/atomic"
	"time"

	"ergo.services/ergo/gen"
	"ergo.services/ergo/lib"
	"ergo.services/ergo/net/edf"
	"ergo.services/ergo/net/handshake"
	"verifharness/util"
)

const (
	hsCookie       = "c16-cookie-of-the-target"
	hsWrongCookie  = "c16-a-cookie-the-target-does-not-use"
	hsAllocBase    = 512 << 10
	hsAllocPerByte = 200
	hsPerWriteMs   = 3000 // allowed per write of the script (1 s read deadline in readMessage)
	hsHangMs       = 6000 // still blocked after this (+ script delays): hang
	hsChildMemKB   = 2 * 1024 * 1024
	hsParallel     = 8
)

// ---- case -------------------------------------------------------------------------------------------

type hsObs struct {
	Err     string `json:"err"`
	NilErr  bool   `json:"nilerr"`
	DurMs   int64  `json:"dur_ms"`
	Alloc   uint64 `json:"alloc"`   // TotalAlloc delta of the case
	Sent    int    `json:"sent"`    // bytes of the hostile party the target consumed (honest prefix, script and flood)
	Flooded int    `json:"flooded"` // of which flood bytes
	Panic   string `json:"panic,omitempty"`
	Hang    bool   `json:"hang,omitempty"`
	Outcome string `json:"outcome"`          // error | nil-error | panic | hang | crash | oom
	Detail  string `json:"detail,omitempty"` // crash / oom: line of the child's stderr
}

type hsCase struct {
	Idx     int      `json:"idx"`
	Class   string   `json:"class"`
	Sub     string   `json:"sub,omitempty"`
	Role    string   `json:"role"`               // accept: the hostile party speaks first | start: the real Start sends its Hello first
	Honest  int      `json:"honest"`             // messages of the honest dialogue (correct cookie) sent before the script; 3 = complete honest dialogue
	Script  []string `json:"script"`             // hex, one Write per element
	DelayMs int      `json:"delay_ms,omitempty"` // pause between the writes of the script
	Flood   int      `json:"flood,omitempty"`    // zero bytes offered after the script (must not be consumed)
	Stall   bool     `json:"stall"`              // after the script: keep the connection open (true) or close it (false)
	Tags    []string `json:"tags"`
	hsObs
}

type hsLine struct {
	Idx int `json:"idx"`
	hsObs
}

type hsNode struct{}

func (hsNode) Name() gen.Atom       { return "target@c16" }
func (hsNode) Creation() int64      { return 1700000000 }
func (hsNode) Version() gen.Version { return gen.Version{Name: "c16-target", Release: "R1"} }

func hsSha(parts ...string) string {
	h := sha256.New()
	h.Write([]byte(strings.Join(parts, ":")))
	return fmt.Sprintf("%x", h.Sum(nil))
}

// hsFrame: handshake framing (magic 87, version 1, uint32 length) around an EDF body.
func hsFrame(body []byte) []byte {
	b := make([]byte, 6, 6+len(body))
	b[0], b[1] = 87, 1
	binary.BigEndian.PutUint32(b[2:6], uint32(len(body)))
	return append(b, body...)
}

func hsEncodeFrame(v any) []byte {
	buf := lib.TakeBuffer()
	defer lib.ReleaseBuffer(buf)
	buf.Allocate(6)
	buf.B[0], buf.B[1] = 87, 1
	if err := edf.Encode(v, buf, edf.Options{}); err != nil {
		panic(err)
	}
	binary.BigEndian.PutUint32(buf.B[2:6], uint32(buf.Len()-6))
	return append([]byte{}, buf.B...)
}

func hsIntroduce(digest string, small bool) handshake.MessageIntroduce {
	in := handshake.MessageIntroduce{
		Node:     "hostile@c16",
		Version:  gen.Version{Name: "c16-hostile", Release: "R1"},
		Flags:    gen.DefaultNetworkFlags,
		Creation: 1700000001,
		Digest:   digest,
	}
	if small {
		in.AtomCache = map[uint16]gen.Atom{300: "abc"}
		in.RegCache = map[uint16]string{5000: "#c16/reg"}
		in.ErrCache = map[uint16]error{40000: errors.New("c16 error")}
	} else {
		in.AtomCache, in.RegCache, in.ErrCache = edf.GetAtomCache(), edf.GetRegCache(), edf.GetErrCache()
	}
	return in
}

// ---- generator --------------------------------------------------------------------------------------

type hsGen struct {
	r      *rand.Rand
	msgs   map[string][]byte // valid messages computed with the WRONG cookie
	truncK map[string]int
	cases  []hsCase
}

func hsRandString(r *rand.Rand, n int) string {
	const al = "abcdefghijklmnopqrstuvwxyzABCDEFGHIJKLMNOPQRSTUVWXYZ0123456789"
	b := make([]byte, n)
	for i := range b {
		b[i] = al[r.Intn(len(al))]
	}
	return string(b)
}

func hsRandBytes(r *rand.Rand, n int) []byte {
	b := make([]byte, n)
	r.Read(b)
	return b
}

func newHsGen(r *rand.Rand) *hsGen {
	g := &hsGen{r: r, msgs: map[string][]byte{}, truncK: map[string]int{}}
	salt := hsRandString(r, 64)
	cid := hsRandString(r, 32)
	g.msgs["hello"] = hsEncodeFrame(handshake.MessageHello{Salt: salt, Digest: hsSha(salt, hsWrongCookie)})
	g.msgs["join"] = hsEncodeFrame(handshake.MessageJoin{Node: "hostile@c16", ConnectionID: cid, Salt: salt, Digest: hsSha(cid, salt, hsWrongCookie)})
	g.msgs["accept"] = hsEncodeFrame(handshake.MessageAccept{ID: cid, PoolSize: 3, PoolDSN: []string{"pipe", "10.0.0.1:11144"}, Digest: hsSha(salt, "x", hsWrongCookie)})
	g.msgs["intro"] = hsEncodeFrame(hsIntroduce(hsSha(salt, hsWrongCookie), true))
	g.msgs["intro-big"] = hsEncodeFrame(hsIntroduce(hsSha(salt, hsWrongCookie), false))
	return g
}

// the message kind the target waits for after `honest` honest messages
func hsExpected(role string, honest int) string {
	if role == "accept" {
		return []string{"hello", "intro", "accept"}[honest]
	}
	return []string{"hello", "accept", "intro"}[honest]
}

func (g *hsGen) pickMsg(role string, honest int) (string, []byte) {
	k := hsExpected(role, honest)
	if g.r.Intn(10) >= 7 {
		k = []string{"hello", "join", "accept", "intro", "intro-big"}[g.r.Intn(5)]
	} else if k == "hello" && role == "accept" && g.r.Intn(3) == 0 {
		k = "join"
	} else if k == "intro" && g.r.Intn(3) == 0 {
		k = "intro-big"
	}
	return k, g.msgs[k]
}

func (g *hsGen) add(class, sub, role string, honest int, stall bool, script ...[]byte) *hsCase {
	c := hsCase{Class: class, Sub: sub, Role: role, Honest: honest, Stall: stall, Tags: []string{}, Script: []string{}}
	for _, b := range script {
		if len(b) > 0 {
			c.Script = append(c.Script, hex.EncodeToString(b))
		}
	}
	g.cases = append(g.cases, c)
	return &g.cases[len(g.cases)-1]
}

func hsSetLen(m []byte, l uint32) []byte {
	b := append([]byte{}, m...)
	binary.BigEndian.PutUint32(b[2:6], l)
	return b
}

// position of the k-th (0-based) byte 0x9f / 0x9d of the body (map / slice marker of a struct field;
// the messages built here contain these bytes nowhere else)
func hsMarker(m []byte, marker byte, k int) int {
	for i := 6; i < len(m); i++ {
		if m[i] == marker {
			if k == 0 {
				return i
			}
			k--
		}
	}
	return -1
}

var hsHugeCounts = []uint32{0xffffffff, 0x7fffffff, 0x80000000, 0x00010000, 0x01000000}

func (g *hsGen) edfWrongType(role string, honest int) []byte {
	r := g.r
	exp := hsExpected(role, honest)
	var others []string
	for _, k := range []string{"hello", "join", "accept", "intro"} {
		if k == exp || (exp == "hello" && k == "join" && role == "accept") {
			continue
		}
		others = append(others, k)
	}
	switch r.Intn(7) {
	case 0:
		return hsEncodeFrame("hello there")
	case 1:
		return hsEncodeFrame(int64(r.Int63()))
	case 2:
		return hsEncodeFrame([]any{1, "a", true})
	case 3:
		return hsEncodeFrame(map[string]int{"a": 1})
	case 4:
		return hsFrame([]byte{0xff}) // nil
	default:
		return g.msgs[others[r.Intn(len(others))]]
	}
}

func (g *hsGen) edfUnknownReg() []byte {
	r := g.r
	hello := g.msgs["hello"]
	switch r.Intn(5) {
	case 0: // registered name with one letter changed, fields of a valid Hello behind it
		b := append([]byte{}, hello...)
		b[6+3+10] ^= 0x01
		return b
	case 1: // name longer than the data
		return hsFrame(append([]byte{0x83, 0x0f, 0xff}, hsRandBytes(r, 1+r.Intn(40))...))
	case 2: // cache id without a cache
		return hsFrame(append([]byte{0x83, 0xff, byte(r.Intn(256))}, hsRandBytes(r, r.Intn(20))...))
	case 3: // empty name
		return hsFrame(append([]byte{0x83, 0, 0}, hsRandBytes(r, r.Intn(20))...))
	default:
		name := "#ergo.services/ergo/net/handshake/Message" + hsRandString(r, 1+r.Intn(8))
		b := append([]byte{0x83, 0, byte(len(name))}, name...)
		return hsFrame(append(b, hello[6+3+int(hello[8]):]...))
	}
}

// counts of the maps of MessageIntroduce / the slice of MessageAccept / the strings of MessageHello
// inflated far beyond the data that follows
func (g *hsGen) edfCountInflate(which int) ([]byte, string) {
	r := g.r
	cnt := hsHugeCounts[r.Intn(len(hsHugeCounts))]
	switch which % 6 {
	case 0, 1, 2: // AtomCache, RegCache, ErrCache
		b := append([]byte{}, g.msgs["intro"]...)
		i := hsMarker(b, 0x9f, which%6)
		binary.BigEndian.PutUint32(b[i+1:i+5], cnt)
		return b, []string{"atomcache", "regcache", "errcache"}[which%6] + fmt.Sprintf("-count-%#x", cnt)
	case 3: // PoolDSN
		b := append([]byte{}, g.msgs["accept"]...)
		i := hsMarker(b, 0x9d, 0)
		binary.BigEndian.PutUint32(b[i+1:i+5], cnt)
		return b, fmt.Sprintf("pooldsn-count-%#x", cnt)
	case 4: // Salt length of a Hello
		b := append([]byte{}, g.msgs["hello"]...)
		i := 6 + 3 + int(b[8])
		b[i], b[i+1] = 0xff, 0xff
		return b, "hello-salt-len-0xffff"
	default: // Node (atom) length of an Introduce
		b := append([]byte{}, g.msgs["intro"]...)
		i := 6 + 3 + int(b[8])
		b[i], b[i+1] = 0xff, byte(0xf0+r.Intn(16))
		return b, "intro-node-len-0xfff*"
	}
}

func (g *hsGen) edfCountRandom() []byte {
	r := g.r
	_, m := g.pickMsg("accept", r.Intn(3))
	if len(m) > 1000 {
		m = g.msgs["intro"]
	}
	b := append([]byte{}, m...)
	w := []int{2, 4}[r.Intn(2)]
	at := 6 + r.Intn(len(b)-6-w)
	for i := 0; i < w; i++ {
		b[at+i] = 0xff
	}
	if r.Intn(3) == 0 {
		b[at] = 0x7f
	}
	return b
}

func (g *hsGen) edfNestedDesc() ([]byte, string) {
	r := g.r
	desc := func(d []byte, data ...byte) []byte {
		b := []byte{0x82, byte(len(d) >> 8), byte(len(d))}
		b = append(b, d...)
		return hsFrame(append(b, data...))
	}
	switch r.Intn(9) {
	case 0: // [][]...[]uint8, every level one element
		d := 1 + r.Intn(64)
		t := append(bytes.Repeat([]byte{0x9d}, d), 0x97)
		data := bytes.Repeat([]byte{0, 0, 0, 1}, d)
		return desc(t, append(data, 7)...), fmt.Sprintf("slices-depth-%d", d)
	case 1: // descriptor that ends inside the nesting
		d := 1 + r.Intn(24)
		return desc(bytes.Repeat([]byte{0x9d}, d), hsRandBytes(r, r.Intn(8))...), fmt.Sprintf("unterminated-depth-%d", d)
	case 2: // map[string]map[string]map[string]int, empty
		return desc([]byte{0x9f, 0x8d, 0x9f, 0x8d, 0x9f, 0x8d, 0x96}, 0, 0, 0, 0), "maps-depth-3"
	case 3: // descriptor longer than the data
		return hsFrame([]byte{0x82, 0xff, 0xff, 0x9d, 0x97}), "descriptor-len-0xffff"
	case 4:
		return hsFrame(append([]byte{0x82, 0, 0}, hsRandBytes(r, r.Intn(12))...)), "descriptor-len-0"
	case 5: // []any{true, nil}
		return desc([]byte{0x9d, 0x84}, 0, 0, 0, 2, 0x91, 1, 0xff), "slice-of-any"
	case 6: // [4]uint8 (the descriptor of the array bomb with a harmless count)
		return desc([]byte{0x9e, 0, 0, 0, 4, 0x97}, 1, 2, 3, 4), "array-count-4"
	case 7: // []uint8 with a count far beyond the data
		c := hsHugeCounts[r.Intn(len(hsHugeCounts))]
		return desc([]byte{0x9d, 0x97}, byte(c>>24), byte(c>>16), byte(c>>8), byte(c)), fmt.Sprintf("slice-count-%#x", c)
	default: // []any declaring as many (nil) elements as bytes follow: one level of the amplification
		n := 1 + r.Intn(150)
		data := []byte{0, 0, byte(n >> 8), byte(n)}
		return desc([]byte{0x9d, 0x84}, append(data, bytes.Repeat([]byte{0xff}, n)...)...), fmt.Sprintf("slice-of-any-%d-nils", n)
	}
}

var hsOversized = []uint32{65536, 70000, 1 << 31, 1<<32 - 1}

func (g *hsGen) oversized(role string, honest int, l uint32, stall bool) {
	b := hsSetLen([]byte{87, 1, 0, 0, 0, 0}, l)
	b = append(b, hsRandBytes(g.r, g.r.Intn(9))...)
	c := g.add("oversized", fmt.Sprintf("len-%d", l), role, honest, stall, b)
	c.Flood = 256 << 10
}

func (g *hsGen) role() string {
	if g.r.Intn(100) < 55 {
		return "accept"
	}
	return "start"
}

func (g *hsGen) honest() int {
	switch x := g.r.Intn(10); {
	case x < 6:
		return 0
	case x < 8:
		return 1
	}
	return 2
}

// truncation positions: a stride walk per message, so that over many cases every position occurs
func (g *hsGen) truncAt(kind string, n int) int {
	stride := 37
	for hsGcd(stride, n) != 1 {
		stride++
	}
	k := g.truncK[kind]
	g.truncK[kind] = k + 1
	if k == 0 {
		g.truncK[kind+"/off"] = g.r.Intn(n)
	}
	return (g.truncK[kind+"/off"] + k*stride) % n
}

func hsMin(a, b int) int {
	if a < b {
		return a
	}
	return b
}

func hsMax(a, b int) int {
	if a > b {
		return a
	}
	return b
}

func hsGcd(a, b int) int {
	for b != 0 {
		a, b = b, a%b
	}
	return a
}

func (g *hsGen) random() {
	r := g.r
	role, honest, stall := g.role(), g.honest(), r.Intn(2) == 0
	switch x := r.Intn(111); {
	case x < 12:
		g.add("garbage", "", role, honest, stall, hsRandBytes(r, r.Intn(201)))
	case x < 24:
		body := hsRandBytes(r, r.Intn(200))
		sub := "random"
		if len(body) > 0 && r.Intn(3) == 0 {
			body[0] = []byte{0x82, 0x83, 0x84, 0x8c, 0x8d, 0x8e, 0x91, 0x95, 0x96, 0x97, 0x9c, 0x9d, 0x9f, 0xff}[r.Intn(14)]
			sub = "edf-tag-first"
		}
		g.add("hdr-random", sub, role, honest, stall, hsFrame(body))
	case x < 54:
		k, m := g.pickMsg(role, honest)
		at := g.truncAt(k, len(m))
		g.add("trunc", k, role, honest, stall, m[:at])
	case x < 62:
		g.oversized(role, honest, hsOversized[r.Intn(len(hsOversized))], stall)
	case x < 70:
		_, m := g.pickMsg(role, honest)
		b := append([]byte{}, m...)
		sub := "magic"
		switch r.Intn(3) {
		case 0:
			b[0] = byte(88 + r.Intn(255)) // any value but 87
		case 1:
			b[1] = byte(2 + r.Intn(255)) // any value but 1
			sub = "version"
		default:
			b[0], b[1] = 1, 87
			sub = "swapped"
		}
		c := g.add("magic", sub, role, honest, stall, b)
		if r.Intn(2) == 0 {
			c.Flood = 64 << 10
		}
	case x < 78:
		k, m := g.pickMsg(role, honest)
		l := binary.BigEndian.Uint32(m[2:6])
		if r.Intn(5) == 0 {
			g.add("inflate", k+"+max", role, honest, stall, hsSetLen(m, 65535))
		} else {
			d := uint32(1 + r.Intn(3))
			g.add("inflate", fmt.Sprintf("%s+%d", k, d), role, honest, stall, hsSetLen(m, l+d))
		}
	case x < 84: // only for a party without the cookie: a deflated length still carries the whole valid message
		k, m := g.pickMsg(role, 0)
		d := uint32(1 + r.Intn(3))
		g.add("deflate", fmt.Sprintf("%s-%d", k, d), role, 0, stall, hsSetLen(m, binary.BigEndian.Uint32(m[2:6])-d))
	case x < 108:
		switch y := r.Intn(5); {
		case y == 0:
			g.add("edf", "wrong-type", role, honest, stall, g.edfWrongType(role, honest))
		case y == 1:
			g.add("edf", "unknown-reg", role, honest, stall, g.edfUnknownReg())
		case y == 2:
			b, s := g.edfCountInflate(r.Intn(6))
			g.add("edf", "count:"+s, role, honest, stall, b)
		case y == 3:
			// a random overwrite may leave an acceptable message: only for a party without the cookie
			g.add("edf", "count-random", role, 0, stall, g.edfCountRandom())
		default:
			b, s := g.edfNestedDesc()
			g.add("edf", "desc:"+s, role, honest, stall, b)
		}
	default:
		g.dribble(role)
	}
}

func (g *hsGen) dribble(role string) {
	m := g.msgs["hello"]
	a, b := 1+g.r.Intn(8), 10+g.r.Intn(len(m)-20)
	c := g.add("dribble", "hello-3-pieces", role, 0, g.r.Intn(2) == 0, m[:a], m[a:b], m[b:])
	c.DelayMs = 300
}

func hsGenerate(r *rand.Rand, n int, known map[string]bool, thorough bool) []hsCase {
	g := newHsGen(r)
	// fixed head: calibration dialogues, every oversized length for both roles, a well-formed EDF value
	// of the wrong type at every position, the AtomCache count bomb where an Introduce is expected
	g.add("honest", "", "accept", 3, false)
	g.add("honest", "", "start", 3, false)
	for i, l := range hsOversized {
		g.oversized("accept", 0, l, i%2 == 0)
		g.oversized("start", 0, l, i%2 == 1)
	}
	for h := 0; h < 3; h++ {
		g.add("edf", "wrong-type", "accept", h, h%2 == 0, g.edfWrongType("accept", h))
		g.add("edf", "wrong-type", "start", h, h%2 == 1, g.edfWrongType("start", h))
	}
	atom := append([]byte{}, g.msgs["intro"]...)
	i := hsMarker(atom, 0x9f, 0)
	binary.BigEndian.PutUint32(atom[i+1:i+5], 0xffffffff)
	g.add("edf", "count:atomcache-count-0xffffffff", "accept", 1, true, atom)
	g.add("edf", "count:atomcache-count-0xffffffff", "start", 2, false, atom)
	g.dribble("accept")
	if len(g.cases) > n {
		g.cases = g.cases[:n]
	}
	for len(g.cases) < n {
		g.random()
	}
	// thorough tier, in addition to the n cases: every truncation position of the short messages where
	// they are expected, writer closes (returns at once); every 8th position also with a stalling writer
	if thorough {
		for _, sw := range []struct {
			kind, role string
			honest     int
		}{{"hello", "accept", 0}, {"join", "accept", 0}, {"hello", "start", 0}, {"accept", "start", 1}, {"intro", "accept", 1}, {"intro", "start", 2}, {"accept", "accept", 2}} {
			m := g.msgs[sw.kind]
			for at := 0; at < len(m); at++ {
				g.add("trunc", sw.kind+"@sweep", sw.role, sw.honest, false, m[:at])
				if at%8 == 3 {
					g.add("trunc", sw.kind+"@sweep", sw.role, sw.honest, true, m[:at])
				}
			}
		}
	}
	// input classes of known findings: generated only on request, in addition to the n cases
	kn := func(tag string, body []byte) {
		for _, role := range []string{"accept", "start"} {
			c := g.add("known", tag, role, 0, false, hsFrame(body))
			c.Tags = []string{tag}
		}
	}
	if known["array-descriptor"] {
		kn("array-descriptor", []byte{0x82, 0x00, 0x06, 0x9e, 0x00, 0x40, 0x00, 0x00, 0x97})
		kn("array-descriptor", []byte{0x82, 0x00, 0x06, 0x9e, 0x7f, 0xff, 0xff, 0xff, 0x97})
	}
	if known["nested-count-amplification"] {
		var body []byte
		for rem := 60000; rem >= 10; rem -= 10 {
			body = append(body, 0x82, 0x00, 0x02, 0x9d, 0x84, 0x9d)
			body = binary.BigEndian.AppendUint32(body, uint32(rem-10))
		}
		kn("nested-count-amplification", body)
	}
	if known["descriptor-error-chain"] {
		kn("descriptor-error-chain", append([]byte{0x82, 0xff, 0xfc}, bytes.Repeat([]byte{0x9d}, 65532)...))
	}
	for i := range g.cases {
		g.cases[i].Idx = i
	}
	return g.cases
}

// ---- child: one case against the real code -----------------------------------------------------------

// hsDrain reads everything the target writes and splits it into handshake frames.
type hsDrain struct {
	mu  sync.Mutex
	rd  []byte
	buf []byte
}

func (d *hsDrain) run(c net.Conn) {
	b := d.rd
	for {
		n, err := c.Read(b)
		if n > 0 {
			d.mu.Lock()
			d.buf = append(d.buf, b[:n]...)
			d.mu.Unlock()
		}
		if err != nil {
			return
		}
	}
}

func (d *hsDrain) frames() [][]byte {
	d.mu.Lock()
	defer d.mu.Unlock()
	var fr [][]byte
	b := d.buf
	for len(b) >= 6 {
		l := int(binary.BigEndian.Uint32(b[2:6]))
		if len(b) < 6+l {
			break
		}
		fr = append(fr, b[:6+l])
		b = b[6+l:]
	}
	return fr
}

// wait until the target has written k complete frames (false: it returned before, or 3 s passed)
func (d *hsDrain) wait(k int, returned *atomic.Bool) [][]byte {
	deadline := time.Now().Add(3 * time.Second)
	for {
		if fr := d.frames(); len(fr) >= k {
			return fr
		}
		if returned.Load() || time.Now().After(deadline) {
			return nil
		}
		time.Sleep(50 * time.Microsecond)
	}
}

// frames of the target the honest peer has seen before it sends its message number `step`
func hsSeenBefore(role string, step int) int {
	if role == "accept" {
		return []int{0, 1, 3, 3}[step]
	}
	return []int{1, 2, 2, 2}[step]
}

// the honest peer's message number `step` (correct cookie), as adv.go of the Hs engine builds them
func hsHonestMsg(role string, step int, seen [][]byte) ([]byte, bool) {
	dec := func(i int) any {
		v, _, err := edf.Decode(seen[i][6:], edf.Options{})
		if err != nil {
			return nil
		}
		return v
	}
	if role == "accept" { // we are the initiator
		switch step {
		case 0:
			salt := "C16-HONEST-INITIATOR-SALT"
			return hsEncodeFrame(handshake.MessageHello{Salt: salt, Digest: hsSha(salt, hsCookie)}), true
		case 1:
			h2, ok := dec(0).(handshake.MessageHello)
			if !ok {
				return nil, false
			}
			return hsEncodeFrame(hsIntroduce(hsSha(h2.Salt, hsCookie), false)), true
		default:
			return hsEncodeFrame(handshake.MessageAccept{}), true
		}
	}
	switch step { // we are the acceptor
	case 0:
		h, ok := dec(0).(handshake.MessageHello)
		if !ok {
			return nil, false
		}
		salt := "C16-HONEST-ACCEPTOR-SALT"
		return hsEncodeFrame(handshake.MessageHello{Salt: salt, Digest: hsSha(salt, h.Digest, hsCookie)}), true
	case 1:
		return hsEncodeFrame(handshake.MessageAccept{ID: "C16-CONNECTION-ID", PoolSize: 3, PoolDSN: []string{"pipe"}}), true
	default:
		return hsEncodeFrame(hsIntroduce("", false)), true
	}
}

type hsRet struct {
	err error
	pan string
}

func hsExec(c hsCase) hsObs {
	var script [][]byte
	for _, s := range c.Script {
		b, err := hex.DecodeString(s)
		if err != nil {
			panic("bad script hex: " + err.Error())
		}
		script = append(script, b)
	}
	flood := make([]byte, 32<<10)
	ct, ca := net.Pipe()
	h := handshake.Create(handshake.Options{})
	opts := gen.HandshakeOptions{Cookie: hsCookie, Flags: gen.DefaultNetworkFlags}
	var returned atomic.Bool
	var sent, flooded atomic.Int64
	done := make(chan hsRet, 1)
	drain := &hsDrain{rd: make([]byte, 16384), buf: make([]byte, 0, 16384)}

	var m0, m1 runtime.MemStats
	runtime.ReadMemStats(&m0)
	t0 := time.Now()
	go func() { // the target
		var ret hsRet
		func() {
			defer func() {
				if p := recover(); p != nil {
					ret.pan = fmt.Sprint(p)
				}
			}()
			if c.Role == "accept" {
				_, ret.err = h.Accept(hsNode{}, ct, opts)
			} else {
				_, ret.err = h.Start(hsNode{}, ct, opts)
			}
		}()
		returned.Store(true)
		if ret.err != nil || ret.pan != "" {
			ct.Close() // network.accept / network.connect close the socket on error
		}
		done <- ret
	}()
	go drain.run(ca)
	partyDone := make(chan struct{})
	go func() { // the hostile party
		defer close(partyDone)
		write := func(b []byte) bool {
			ca.SetWriteDeadline(time.Now().Add(3 * time.Second))
			n, err := ca.Write(b)
			sent.Add(int64(n))
			return err == nil
		}
		ok := true
		for step := 0; ok && step < c.Honest; step++ {
			seen := drain.wait(hsSeenBefore(c.Role, step), &returned)
			if seen == nil && hsSeenBefore(c.Role, step) > 0 {
				ok = false
				break
			}
			m, good := hsHonestMsg(c.Role, step, seen)
			ok = good && write(m)
		}
		if ok && c.Honest < 3 && hsSeenBefore(c.Role, c.Honest) > 0 {
			// e.g. role start: the hostile party reads the target's Hello, then answers
			drain.wait(hsSeenBefore(c.Role, c.Honest), &returned)
		}
		for i, b := range script {
			if !ok {
				break
			}
			if i > 0 && c.DelayMs > 0 {
				time.Sleep(time.Duration(c.DelayMs) * time.Millisecond)
			}
			ok = write(b)
		}
		for left := c.Flood; ok && left > 0; left -= len(flood) {
			ca.SetWriteDeadline(time.Now().Add(3 * time.Second))
			n, err := ca.Write(flood[:hsMin(left, len(flood))])
			sent.Add(int64(n))
			flooded.Add(int64(n))
			ok = err == nil
		}
		if !c.Stall && c.Honest < 3 {
			ca.Close()
		}
	}()

	var obs hsObs
	hang := time.Duration(hsHangMs+c.DelayMs*len(script)) * time.Millisecond
	select {
	case ret := <-done:
		obs.DurMs = time.Since(t0).Milliseconds()
		runtime.ReadMemStats(&m1)
		obs.Alloc = m1.TotalAlloc - m0.TotalAlloc
		obs.Panic = ret.pan
		switch {
		case ret.pan != "":
			obs.Outcome = "panic"
		case ret.err == nil:
			obs.NilErr, obs.Outcome = true, "nil-error"
		default:
			obs.Err, obs.Outcome = ret.err.Error(), "error"
			if len(obs.Err) > 300 {
				obs.Err = obs.Err[:300] + "..."
			}
		}
	case <-time.After(hang):
		obs.DurMs = time.Since(t0).Milliseconds()
		obs.Hang, obs.Outcome = true, "hang"
	}
	ca.Close()
	ct.Close()
	if !obs.Hang {
		select {
		case <-partyDone:
		case <-time.After(4 * time.Second):
		}
	}
	obs.Sent, obs.Flooded = int(sent.Load()), int(flooded.Load())
	return obs
}

func runHsChild(f flags) {
	data, err := os.ReadFile(f.in)
	if err != nil {
		fmt.Fprintln(os.Stderr, "hs-child:", err)
		os.Exit(4)
	}
	var cases []hsCase
	if err := json.Unmarshal(data, &cases); err != nil {
		fmt.Fprintln(os.Stderr, "hs-child:", err)
		os.Exit(4)
	}
	// warm-up: one honest dialogue per role (pools, lazily built tables), so that the allocation of
	// a case does not depend on its place in the batch
	for _, role := range []string{"accept", "start"} {
		if o := hsExec(hsCase{Role: role, Honest: 3}); !o.NilErr {
			fmt.Fprintf(os.Stderr, "hs-child: warm-up dialogue (%s) failed: %s %s\n", role, o.Outcome, o.Err)
		}
	}
	for _, c := range cases {
		obs := hsExec(c)
		line, _ := json.Marshal(hsLine{c.Idx, obs})
		os.Stdout.Write(append(line, '\n'))
		if obs.Hang {
			os.Exit(3) // the blocked call cannot be cancelled: the parent goes on in a new child
		}
	}
}

// ---- parent -----------------------------------------------------------------------------------------

func hsStderrLine(s string) string {
	lines := strings.Split(strings.TrimSpace(s), "\n")
	for _, l := range lines {
		if strings.HasPrefix(l, "panic:") || strings.HasPrefix(l, "fatal error:") || strings.HasPrefix(l, "runtime:") {
			return strings.TrimSpace(l)
		}
	}
	l := strings.TrimSpace(lines[len(lines)-1])
	if len(l) > 200 {
		l = l[:200]
	}
	return l
}

// hsRunBatch runs the cases in child processes; when a child dies, the first case without a result
// line is the culprit, the rest goes to a new child.
func hsRunBatch(cases []*hsCase) {
	pending := cases
	for len(pending) > 0 {
		tmp, err := os.CreateTemp("", "hostile-hs-*.json")
		if err != nil {
			panic(err)
		}
		budget := 20 * time.Second
		for _, c := range pending {
			budget += 2500*time.Millisecond + time.Duration(c.DelayMs*len(c.Script))*time.Millisecond
		}
		data, _ := json.Marshal(pending)
		tmp.Write(data)
		tmp.Close()
		res := runChild("hs-child", tmp.Name(), hsChildMemKB, budget)
		os.Remove(tmp.Name())
		got := map[int]hsObs{}
		for _, l := range bytes.Split(res.Stdout, []byte("\n")) {
			var ln hsLine
			if len(l) > 0 && json.Unmarshal(l, &ln) == nil && ln.Outcome != "" {
				got[ln.Idx] = ln.hsObs
			}
		}
		k := 0
		for k < len(pending) {
			o, ok := got[pending[k].Idx]
			if !ok {
				break
			}
			pending[k].hsObs = o
			k++
		}
		if k == len(pending) {
			return
		}
		if k > 0 && pending[k-1].Hang { // the child reported the hang itself and left
			pending = pending[k:]
			continue
		}
		c := pending[k]
		c.hsObs = hsObs{DurMs: res.Dur.Milliseconds(), Detail: hsStderrLine(res.Stderr)}
		switch {
		case res.TimedOut:
			c.Hang, c.Outcome = true, "hang"
		case strings.Contains(res.Stderr, "out of memory") || strings.Contains(res.Stderr, "cannot allocate memory"):
			c.Outcome = "oom"
		default:
			c.Outcome = "crash"
			c.Detail = fmt.Sprintf("exit %d: %s", res.Exit, c.Detail)
		}
		pending = pending[k+1:]
	}
}

// hsAutoTag: a generated (random) script that happens to be the input class of a known finding
func hsAutoTag(c *hsCase) {
	if len(c.Tags) > 0 {
		return
	}
	for _, s := range c.Script {
		b, _ := hex.DecodeString(s)
		if len(b) < 10 || b[0] != 87 || b[1] != 1 || b[6] != 0x82 {
			continue
		}
		n := int(binary.BigEndian.Uint16(b[7:9]))
		d := b[9:]
		if n < len(d) {
			d = d[:n]
		}
		switch {
		case bytes.IndexByte(d, 0x9e) >= 0:
			c.Tags = append(c.Tags, "array-descriptor")
		case len(d) > 1000:
			c.Tags = append(c.Tags, "descriptor-error-chain")
		case len(b) > 10000 && bytes.HasPrefix(d, []byte{0x9d, 0x84}):
			c.Tags = append(c.Tags, "nested-count-amplification")
		}
		return
	}
}

// hsJudge: the property failures of one observed case
func hsJudge(c *hsCase) []string {
	var fails []string
	kind := c.Class
	if c.Sub != "" {
		kind += "/" + c.Sub
	}
	who := fmt.Sprintf("%s of a %s script (honest prefix %d, %d write(s), stall=%v)", map[string]string{"accept": "Accept", "start": "Start"}[c.Role], kind, c.Honest, len(c.Script), c.Stall)
	if c.Class == "honest" {
		return nil // calibration: reported in Stats / Notes
	}
	bound := uint64(hsAllocPerByte*c.Sent + hsAllocBase)
	switch c.Outcome {
	case "crash":
		fails = append(fails, fmt.Sprintf("process died during %s: %s", who, c.Detail))
	case "oom":
		fails = append(fails, fmt.Sprintf("process ran out of memory (2 GiB address space) during %s: %s", who, c.Detail))
	case "hang":
		fails = append(fails, fmt.Sprintf("%s did not return within %d ms", who, c.DurMs))
	case "panic":
		fails = append(fails, fmt.Sprintf("%s panicked: %s", who, c.Panic))
	case "nil-error":
		fails = append(fails, fmt.Sprintf("nil error returned by %s", who))
	case "error":
	default:
		fails = append(fails, fmt.Sprintf("no observation for %s", who))
	}
	if c.Outcome == "error" || c.Outcome == "nil-error" || c.Outcome == "panic" {
		if lim := int64(hsPerWriteMs * hsMax(1, len(c.Script))); c.DurMs > lim {
			fails = append(fails, fmt.Sprintf("%s returned after %d ms (allowed %d ms)", who, c.DurMs, lim))
		}
		if c.Alloc > bound {
			fails = append(fails, fmt.Sprintf("%s allocated %d bytes for %d bytes consumed (bound %d)", who, c.Alloc, c.Sent, bound))
		}
		if c.Flood > 0 && c.Flooded > 4096 {
			fails = append(fails, fmt.Sprintf("%s kept reading after a header it must reject: %d of %d bytes offered behind the header were consumed", who, c.Flooded, c.Flood))
		}
	}
	return fails
}

func runHs(f flags) {
	o := util.NewOut("hostile.hs")
	o.Monitor = []util.MonitorFail{}
	var cases []hsCase
	if f.replay != "" {
		b, err := os.ReadFile(f.replay)
		if err != nil {
			panic(err)
		}
		var rp struct {
			Case json.RawMessage `json:"case"`
		}
		if err := json.Unmarshal(b, &rp); err != nil {
			panic(err)
		}
		var c hsCase
		if err := json.Unmarshal(rp.Case, &c); err != nil {
			panic(err)
		}
		c.Idx, c.hsObs = 0, hsObs{}
		if c.Tags == nil {
			c.Tags = []string{}
		}
		if c.Script == nil {
			c.Script = []string{}
		}
		cases = []hsCase{c}
	} else {
		cases = hsGenerate(util.Rng(1601), f.n, f.known, os.Getenv("VERIF_TIER") == "thorough")
	}
	// batches: small enough to keep the workers evenly loaded (hostile cases wait on 1 s deadlines);
	// the input classes of known findings kill their child: one batch each
	per := len(cases) / (2 * hsParallel)
	if per < 4 {
		per = 4
	}
	if per > 50 {
		per = 50
	}
	var batches [][]*hsCase
	var cur []*hsCase
	for i := range cases {
		c := &cases[i]
		if c.Class == "known" {
			batches = append(batches, []*hsCase{c})
			continue
		}
		cur = append(cur, c)
		if len(cur) == per {
			batches = append(batches, cur)
			cur = nil
		}
	}
	if len(cur) > 0 {
		batches = append(batches, cur)
	}
	t0 := time.Now()
	ch := make(chan []*hsCase)
	var wg sync.WaitGroup
	for w := 0; w < hsParallel; w++ {
		wg.Add(1)
		go func() {
			defer wg.Done()
			for b := range ch {
				hsRunBatch(b)
			}
		}()
	}
	for _, b := range batches {
		ch <- b
	}
	close(ch)
	wg.Wait()

	for i := range cases {
		c := &cases[i]
		fails := hsJudge(c)
		if len(fails) > 0 {
			hsAutoTag(c)
		}
		for _, w := range fails {
			o.Monitor = append(o.Monitor, util.MonitorFail{Case: i, What: w, Tags: c.Tags})
		}
		rp, _ := json.Marshal(c)
		o.Replays = append(o.Replays, rp)
		o.Stats["runs"]++
		o.Stats["class:"+c.Class]++
		if c.Sub != "" && (c.Class == "edf" || c.Class == "known") {
			o.Stats["sub:"+c.Class+"/"+strings.SplitN(c.Sub, ":", 2)[0]]++
		}
		o.Stats["role:"+c.Role]++
		o.Stats[fmt.Sprintf("honest-prefix:%d", c.Honest)]++
		o.Stats["outcome:"+c.Outcome]++
		if c.Stall {
			o.Stats["stall"]++
		}
		if c.Class == "honest" {
			if c.NilErr {
				o.Stats["honest-dialogue-ok"]++
			} else {
				o.Stats["honest-dialogue-failed"]++
				o.Notes = append(o.Notes, fmt.Sprintf("case %d: the complete honest dialogue (%s) did not succeed: %s %s %s", i, c.Role, c.Outcome, c.Err, c.Detail))
			}
			o.Stats["honest_max_alloc"] = hsMax(o.Stats["honest_max_alloc"], int(c.Alloc))
			continue
		}
		o.Stats["max_dur_ms"] = hsMax(o.Stats["max_dur_ms"], int(c.DurMs))
		o.Stats["max_alloc"] = hsMax(o.Stats["max_alloc"], int(c.Alloc))
		if c.Outcome == "error" {
			e := "other"
			for _, p := range []string{"malformed EDF", "i/o timeout", "closed pipe", "EOF", "end of data", "incorrect digest", "incorrect join digest",
				"incorrect cert digest", "malformed handshake packet", "mismatch handshake version", "too long handshake message", "malformed handshake",
				"unknown reg type", "RegCache", "unknown type", "unable to unfold type"} {
				if strings.Contains(c.Err, p) {
					e = p
					break
				}
			}
			o.Stats["err:"+e]++
		}
	}
	o.Extra["wall_ms"] = time.Since(t0).Milliseconds()
	o.Extra["alloc_bound"] = fmt.Sprintf("%d * bytes_consumed + %d", hsAllocPerByte, hsAllocBase)
	if o.Replays == nil {
		o.Replays = []json.RawMessage{}
	}
	if f.out != "" {
		o.Write(f.out)
	}
	fmt.Printf("hostile hs: %d cases in %d ms, %d monitor failure(s), max %d ms, max alloc %d bytes\n",
		len(cases), time.Since(t0).Milliseconds(), len(o.Monitor), o.Stats["max_dur_ms"], o.Stats["max_alloc"])
}
