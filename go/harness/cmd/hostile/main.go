// Harness of the Hostile engine (property C16): hostile input safety of the EDF decoder, the
// handshake and the frame parser.  Sub-commands (each parent command runs the REAL code in child
// processes of this same binary, so that a fatal out-of-memory, an un-recovered panic or a hang of
// the implementation is an observation, not the end of the check):
//
//	edf      malformed EDF stream: result class / value vs the Coq model, allocation per decode
//	hs       garbage / truncated / oversized handshake messages fed to the real Accept and Start
//	hsnode   a real node meets a peer that knows the cookie and sends invalid MessageIntroduce / MessageAccept fields
//	frames   raw hostile byte streams fed to a real proto connection
//	(edf-child, hs-child, frames-child: the child sides)
package main

import (
	"flag"
	"fmt"
	"os"
	"strings"
)

type flags struct {
	n      int
	out    string
	replay string
	known  map[string]bool // tags of known findings whose input classes may be generated
	in     string          // child: input file
	corpus string          // directory of witness cases (replay format) run before the generated ones
}

func parseFlags(args []string) flags {
	fs := flag.NewFlagSet("hostile", flag.ExitOnError)
	n := fs.Int("n", 100, "number of cases")
	out := fs.String("out", "", "output json")
	replay := fs.String("replay", "", "replay file (json case)")
	known := fs.String("known", "", "comma separated tags of known findings (their input classes are generated only when listed)")
	in := fs.String("in", "", "child: input file")
	corpus := fs.String("corpus", "", "directory of witness cases run first")
	fs.Parse(args)
	f := flags{n: *n, out: *out, replay: *replay, in: *in, corpus: *corpus, known: map[string]bool{}}
	for _, t := range strings.Split(*known, ",") {
		if t != "" {
			f.known[t] = true
		}
	}
	return f
}

func main() {
	if len(os.Args) < 2 {
		fmt.Fprintln(os.Stderr, "usage: hostile <edf|hs|frames> [flags]")
		os.Exit(2)
	}
	f := parseFlags(os.Args[2:])
	switch os.Args[1] {
	case "edf":
		runEdf(f)
	case "edf-child":
		runEdfChild(f)
	case "hs":
		runHs(f)
	case "hs-child":
		runHsChild(f)
	case "hsnode":
		runHsNode(f)
	case "hsnode-child":
		runHsNodeChild(f)
	case "frames":
		runFrames(f)
	case "frames-child":
		runFramesChild(f)
	default:
		fmt.Fprintln(os.Stderr, "unknown subcommand")
		os.Exit(2)
	}
}
