package main

// C16, handshake family at NODE level: a real node (ergo.StartNode, real acceptor on localhost, real
// network.connect) meets a peer that KNOWS THE COOKIE and gets as far as MessageIntroduce /
// MessageAccept, but declares invalid things about itself: a nil error in ErrCache, a pool size of
// 0 / negative / 2^62 / 2^40, an empty or the victim's own node name, creation 0, odd cache ids.
//   role 0: the hostile party dials the victim's acceptor and sends the MessageIntroduce;
//   role 1: the victim dials the hostile listener, which answers with the MessageAccept under test
//           and a valid MessageIntroduce;
//   role 2: as role 1, with a valid MessageAccept and the MessageIntroduce under test.
// After the dialogue the hostile party writes one protocol frame (so that serve() picks a receive
// queue).  Observed: 0 = the connection was established, 1 = the victim refused it, 2 = the node
// process died or the goroutine that called GetNode panicked; plus: an actor of the victim still
// answers a Call.  Every case is printed as a Coq term (Hostile/HsMsg.v, Cases.v: mk_ncase).

import (
	"bufio"
	"bytes"
	"encoding/binary"
	"encoding/hex"
	"encoding/json"
	"errors"
	"fmt"
	"io"
	"net"
	"os"
	"path/filepath"
	"sort"
	"strings"
	"sync"
	"time"

	"ergo.services/ergo"
	"ergo.services/ergo/gen"
	"ergo.services/ergo/net/edf"
	"ergo.services/ergo/net/handshake"
	"verifharness/util"
)

const hnCookie = "c16-node-cookie"

type hnCase struct {
	Idx      int      `json:"idx"`
	Class    string   `json:"class"`
	Role     int      `json:"role"`
	Pool     int64    `json:"pool"`      // MessageAccept.PoolSize (role 1; 3 otherwise)
	ErrNil   bool     `json:"err_nil"`   // ErrCache holds a nil error
	ErrN     int      `json:"err_n"`     // number of non-nil ErrCache entries
	NodeKind string   `json:"node_kind"` // ok | empty | self | other | long
	Creation int64    `json:"creation"`
	MaxSize  int      `json:"max_size"`
	Caches   string   `json:"caches"` // ok | low-ids | empty-atom | unknown-reg | none
	Tags     []string `json:"tags"`
	// observation
	Obs    int    `json:"obs"` // 0 connected, 1 refused, 2 died / caller panicked, 3 no answer (hang)
	Alive  bool   `json:"alive"`
	Err    string `json:"err,omitempty"`
	Detail string `json:"detail,omitempty"`
	DurMs  int64  `json:"dur_ms"`
}

type hnLine struct {
	Idx    int    `json:"idx"`
	Obs    int    `json:"obs"`
	Alive  bool   `json:"alive"`
	Err    string `json:"err,omitempty"`
	Detail string `json:"detail,omitempty"`
	DurMs  int64  `json:"dur_ms"`
	Done   bool   `json:"done"`
}

// ---- wire helpers -------------------------------------------------------------------------------------

func hnRead(c net.Conn, r *bufio.Reader) (any, error) {
	c.SetReadDeadline(time.Now().Add(3 * time.Second))
	var h [6]byte
	if _, err := io.ReadFull(r, h[:]); err != nil {
		return nil, err
	}
	if h[0] != 87 || h[1] != 1 {
		return nil, fmt.Errorf("bad handshake header % x", h)
	}
	l := binary.BigEndian.Uint32(h[2:6])
	if l > 1<<20 {
		return nil, fmt.Errorf("too long")
	}
	body := make([]byte, l)
	if _, err := io.ReadFull(r, body); err != nil {
		return nil, err
	}
	v, _, err := edf.Decode(body, edf.Options{})
	return v, err
}

func hnWrite(c net.Conn, v any) error {
	c.SetWriteDeadline(time.Now().Add(3 * time.Second))
	_, err := c.Write(hsEncodeFrame(v))
	return err
}

func (c *hnCase) hostileName(victim gen.Atom) gen.Atom {
	switch c.NodeKind {
	case "empty":
		return ""
	case "self":
		return victim
	case "other":
		return gen.Atom(fmt.Sprintf("someone-else%d@localhost", c.Idx))
	case "long":
		return gen.Atom(strings.Repeat("n", 240) + fmt.Sprintf("%d@localhost", c.Idx))
	}
	return gen.Atom(fmt.Sprintf("hostile%dp%d@localhost", c.Idx, os.Getpid()))
}

// the name the victim is told to dial (roles 1, 2)
func (c *hnCase) dialName() gen.Atom {
	if c.NodeKind == "long" {
		return gen.Atom(strings.Repeat("n", 240) + fmt.Sprintf("%d@localhost", c.Idx))
	}
	return gen.Atom(fmt.Sprintf("hostile%dp%d@localhost", c.Idx, os.Getpid()))
}

func (c *hnCase) introduce(victim gen.Atom, digest string, underTest bool) handshake.MessageIntroduce {
	in := handshake.MessageIntroduce{
		Node:     gen.Atom(fmt.Sprintf("hostile%dp%d@localhost", c.Idx, os.Getpid())),
		Version:  gen.Version{Name: "c16-hostile", Release: "R1"},
		Flags:    gen.DefaultNetworkFlags,
		Creation: 1700000001,
		Digest:   digest,
	}
	if !underTest {
		return in
	}
	in.Node = c.hostileName(victim)
	in.Creation = c.Creation
	in.MaxMessageSize = c.MaxSize
	switch c.Caches {
	case "ok":
		in.AtomCache = map[uint16]gen.Atom{300: "abc", 301: "def"}
		in.RegCache = map[uint16]string{5000: "#ergo.services/ergo/net/handshake/MessageHello"}
	case "low-ids":
		in.AtomCache = map[uint16]gen.Atom{0: "zero", 255: "edge", 65535: "top"}
		in.RegCache = map[uint16]string{0: "#x/y", 4095: "#x/z"}
	case "empty-atom":
		in.AtomCache = map[uint16]gen.Atom{300: "", 301: ""}
	case "unknown-reg":
		in.RegCache = map[uint16]string{5000: "#no/such", 5001: ""}
	}
	if c.ErrN > 0 || c.ErrNil {
		in.ErrCache = map[uint16]error{}
		for i := 0; i < c.ErrN; i++ {
			in.ErrCache[uint16(40000+i)] = errors.New(fmt.Sprintf("c16 error %d", i))
		}
		if c.Caches == "low-ids" {
			in.ErrCache[7] = errors.New("low id")
			in.ErrCache[65535] = errors.New("the nil marker as id")
		}
		if c.ErrNil {
			in.ErrCache[41000] = nil
		}
	}
	return in
}

// one protocol frame of an unknown type (8 bytes): logged and ignored, but serve() has to pick a
// receive queue for it
var hnFrame = []byte{78, 1, 0, 0, 0, 8, 0, 0}

// ---- child ---------------------------------------------------------------------------------------------

type hnVictim struct {
	node gen.Node
	l    *lproc
	port uint16
	hsv  gen.Version
	prv  gen.Version
}

func newHnVictim() (*hnVictim, error) {
	opts := gen.NodeOptions{}
	opts.Log.DefaultLogger.Disable = true
	opts.Log.Level = gen.LogLevelDisabled
	opts.Network.Cookie = hnCookie
	node, err := ergo.StartNode(gen.Atom(fmt.Sprintf("victim%d@localhost", os.Getpid())), opts)
	if err != nil {
		return nil, err
	}
	v := &hnVictim{node: node}
	accs, err := node.Network().Acceptors()
	if err != nil || len(accs) == 0 {
		return nil, fmt.Errorf("no acceptor: %v", err)
	}
	info := accs[0].Info()
	i := strings.LastIndex(info.Interface, ":")
	fmt.Sscanf(info.Interface[i+1:], "%d", &v.port)
	v.hsv, v.prv = info.HandshakeVersion, info.ProtoVersion
	l := &lproc{node: node}
	if l.callee, err = node.Spawn(func() gen.ProcessBehavior { return &lCallee{} }, gen.ProcessOptions{}); err != nil {
		return nil, err
	}
	if l.caller, err = node.Spawn(func() gen.ProcessBehavior { return &lCaller{} }, gen.ProcessOptions{}); err != nil {
		return nil, err
	}
	v.l = l
	return v, nil
}

func (v *hnVictim) connected(name gen.Atom) bool {
	deadline := time.Now().Add(400 * time.Millisecond)
	for {
		if _, err := v.node.Network().Node(name); err == nil {
			return true
		}
		if time.Now().After(deadline) {
			return false
		}
		time.Sleep(5 * time.Millisecond)
	}
}

// role 0: dial the victim's acceptor
func (v *hnVictim) execAccept(c *hnCase) (obs int, errs string) {
	conn, err := net.DialTimeout("tcp", fmt.Sprintf("localhost:%d", v.port), 2*time.Second)
	if err != nil {
		return 3, "dial: " + err.Error()
	}
	defer conn.Close()
	r := bufio.NewReader(conn)
	salt := "c16salt"
	hello := handshake.MessageHello{Salt: salt, Digest: hsSha(salt, hnCookie)}
	if err := hnWrite(conn, hello); err != nil {
		return 3, err.Error()
	}
	m, err := hnRead(conn, r)
	h2, ok := m.(handshake.MessageHello)
	if err != nil || !ok {
		return 3, fmt.Sprint("no hello: ", err)
	}
	in := c.introduce(v.node.Name(), hsSha(h2.Salt, hnCookie), true)
	if err := hnWrite(conn, in); err != nil {
		return 3, err.Error()
	}
	// a victim that accepts answers with MessageAccept + MessageIntroduce; one that refuses closes
	if m, err = hnRead(conn, r); err != nil {
		return 1, "after introduce: " + err.Error()
	}
	if _, ok := m.(handshake.MessageAccept); !ok {
		return 3, fmt.Sprintf("unexpected %T", m)
	}
	if _, err = hnRead(conn, r); err != nil {
		return 1, "after accept: " + err.Error()
	}
	if err := hnWrite(conn, handshake.MessageAccept{}); err != nil {
		return 1, err.Error()
	}
	conn.SetWriteDeadline(time.Now().Add(time.Second))
	conn.Write(hnFrame)
	name := in.Node
	if v.connected(name) {
		time.Sleep(50 * time.Millisecond) // let serve() handle the frame
		return 0, ""
	}
	return 1, "not registered"
}

// roles 1, 2: the victim dials a hostile listener
func (v *hnVictim) execDial(c *hnCase) (obs int, errs string) {
	ln, err := net.Listen("tcp", "127.0.0.1:0")
	if err != nil {
		return 3, err.Error()
	}
	defer ln.Close()
	port := uint16(ln.Addr().(*net.TCPAddr).Port)
	srvErr := make(chan string, 1)
	var wg sync.WaitGroup
	wg.Add(1)
	hold := make(chan struct{})
	go func() {
		defer wg.Done()
		conn, err := ln.Accept()
		if err != nil {
			srvErr <- err.Error()
			return
		}
		defer conn.Close()
		r := bufio.NewReader(conn)
		m, err := hnRead(conn, r)
		h, ok := m.(handshake.MessageHello)
		if err != nil || !ok {
			srvErr <- fmt.Sprint("no hello: ", err)
			return
		}
		salt2 := "c16salt2"
		if err := hnWrite(conn, handshake.MessageHello{Salt: salt2, Digest: hsSha(salt2, h.Digest, hnCookie)}); err != nil {
			srvErr <- err.Error()
			return
		}
		if _, err := hnRead(conn, r); err != nil { // the victim's Introduce
			srvErr <- "no introduce: " + err.Error()
			return
		}
		pool := int(c.Pool)
		acc := handshake.MessageAccept{ID: fmt.Sprintf("c16cid%d", c.Idx), PoolSize: pool}
		in := c.introduce(v.node.Name(), "", c.Role == 2)
		if c.Role != 2 {
			in.Node = c.dialName()
		}
		if err := hnWrite(conn, acc); err != nil {
			srvErr <- err.Error()
			return
		}
		if err := hnWrite(conn, in); err != nil {
			srvErr <- err.Error()
			return
		}
		if _, err := hnRead(conn, r); err != nil { // the victim's final Accept
			srvErr <- "no final accept: " + err.Error()
			return
		}
		conn.SetWriteDeadline(time.Now().Add(time.Second))
		conn.Write(hnFrame)
		srvErr <- ""
		select {
		case <-hold:
		case <-time.After(3 * time.Second):
		}
	}()
	name := c.dialName()
	route := gen.NetworkRoute{
		Route:  gen.Route{Host: "127.0.0.1", Port: port, HandshakeVersion: v.hsv, ProtoVersion: v.prv},
		Cookie: hnCookie,
	}
	type ret struct {
		err   error
		panic string
	}
	done := make(chan ret, 1)
	go func() {
		var rt ret
		defer func() {
			if p := recover(); p != nil {
				rt.panic = fmt.Sprint(p)
			}
			done <- rt
		}()
		_, rt.err = v.node.Network().GetNodeWithRoute(name, route)
	}()
	var rt ret
	select {
	case rt = <-done:
	case <-time.After(8 * time.Second):
		close(hold)
		return 3, "GetNodeWithRoute did not return"
	}
	defer func() { close(hold); wg.Wait() }()
	if rt.panic != "" {
		return 2, "the goroutine calling GetNode panicked: " + rt.panic
	}
	if rt.err != nil {
		return 1, rt.err.Error()
	}
	// connected: wait for the hostile side to have written its frame, and for serve() to take it
	select {
	case <-srvErr:
	case <-time.After(2 * time.Second):
	}
	time.Sleep(80 * time.Millisecond)
	if v.connected(name) {
		return 0, ""
	}
	return 1, "not registered"
}

func runHsNodeChild(f flags) {
	raw, err := os.ReadFile(f.in)
	if err != nil {
		panic(err)
	}
	var batch []hnCase
	if err := json.Unmarshal(raw, &batch); err != nil {
		panic(err)
	}
	v, err := newHnVictim()
	if err != nil {
		fmt.Fprintln(os.Stderr, "victim node: ", err)
		os.Exit(4)
	}
	w := bufio.NewWriter(os.Stdout)
	for i := range batch {
		c := &batch[i]
		fmt.Fprintf(w, "{\"idx\":%d,\"done\":false}\n", c.Idx)
		w.Flush()
		t0 := time.Now()
		ln := hnLine{Idx: c.Idx, Done: true}
		if c.Role == 0 {
			ln.Obs, ln.Err = v.execAccept(c)
		} else {
			ln.Obs, ln.Err = v.execDial(c)
		}
		ln.Alive = v.l.probe()
		ln.DurMs = time.Since(t0).Milliseconds()
		if len(ln.Err) > 200 {
			ln.Err = ln.Err[:200]
		}
		js, _ := json.Marshal(ln)
		w.Write(js)
		w.WriteByte('\n')
		w.Flush()
		// drop the connection of this case
		if rn, err := v.node.Network().Node(c.dialName()); err == nil {
			rn.Disconnect()
		}
	}
	v.node.StopForce()
}

// ---- parent --------------------------------------------------------------------------------------------

func hnGenerate(known map[string]bool) []hnCase {
	var cs []hnCase
	add := func(class string, c hnCase) {
		c.Class = class
		if c.Creation == 0 && class != "creation-0" {
			c.Creation = 1700000001
		}
		if c.NodeKind == "" {
			c.NodeKind = "ok"
		}
		if c.Caches == "" {
			c.Caches = "ok"
		}
		if c.Pool == 0 && c.Role != 1 {
			c.Pool = 3
		}
		c.Tags = []string{}
		cs = append(cs, c)
	}
	for _, role := range []int{0, 2} {
		// the nil error in the remote ErrCache (makeDecodeErrCache calls v.Error() on every entry)
		add("errcache-nil", hnCase{Role: role, ErrNil: true})
		add("errcache-nil", hnCase{Role: role, ErrNil: true, ErrN: 2})
		add("errcache-nil", hnCase{Role: role, ErrNil: true, Caches: "low-ids", ErrN: 1})
		// valid neighbours
		add("valid", hnCase{Role: role, ErrN: 2})
		add("valid", hnCase{Role: role, Caches: "none"})
		add("cache-ids", hnCase{Role: role, Caches: "low-ids", ErrN: 1})
		add("cache-ids", hnCase{Role: role, Caches: "empty-atom"})
		add("cache-ids", hnCase{Role: role, Caches: "unknown-reg"})
		add("max-size", hnCase{Role: role, MaxSize: -1})
		add("max-size", hnCase{Role: role, MaxSize: 1 << 40})
		add("node-name", hnCase{Role: role, NodeKind: "empty"})
		add("node-name", hnCase{Role: role, NodeKind: "self"})
		add("node-name", hnCase{Role: role, NodeKind: "long"})
		add("creation-0", hnCase{Role: role, Creation: 0})
	}
	add("node-name", hnCase{Role: 2, NodeKind: "other"})
	// the pool size the dialing side takes from the peer's MessageAccept
	for _, p := range []int64{0, -1, -1 << 40, 1 << 62, 1 << 61, 1, 2, 3, 64, 1024, 1025, 1 << 20} {
		add("pool-size", hnCase{Role: 1, Pool: p})
	}
	// 4 * 2^40 receive queues: the node runs out of memory while it builds the connection
	add("pool-size", hnCase{Role: 1, Pool: 1 << 40})
	for i := range cs {
		cs[i].Idx = i
	}
	return cs
}

func hnRunBatch(cases []*hnCase) {
	pending := cases
	for len(pending) > 0 {
		tmp, _ := os.CreateTemp("", "hostile-hsnode-*.json")
		data, _ := json.Marshal(pending)
		tmp.Write(data)
		tmp.Close()
		res := runChild("hsnode-child", tmp.Name(), 2*1024*1024, 25*time.Second+time.Duration(len(pending))*4*time.Second)
		os.Remove(tmp.Name())
		got := map[int]hnLine{}
		started := -1
		for _, l := range bytes.Split(res.Stdout, []byte("\n")) {
			var ln hnLine
			if len(l) == 0 || json.Unmarshal(l, &ln) != nil {
				continue
			}
			if ln.Done {
				got[ln.Idx] = ln
			} else {
				started = ln.Idx
			}
		}
		var rest []*hnCase
		for _, c := range pending {
			if ln, ok := got[c.Idx]; ok {
				c.Obs, c.Alive, c.Err, c.DurMs = ln.Obs, ln.Alive, ln.Err, ln.DurMs
			} else {
				rest = append(rest, c)
			}
		}
		if len(rest) == 0 {
			return
		}
		culprit := rest[0]
		for _, c := range rest {
			if c.Idx == started {
				culprit = c
			}
		}
		culprit.Obs, culprit.Alive, culprit.DurMs = 2, false, res.Dur.Milliseconds()
		culprit.Detail = fmt.Sprintf("exit %d: %s", res.Exit, hsStderrLine(res.Stderr))
		if res.TimedOut {
			culprit.Obs, culprit.Detail = 3, "the child did not finish"
		}
		if res.Exit == 4 { // the victim node did not start: not an observation of the case
			culprit.Obs, culprit.Detail = 3, "victim node did not start: "+hsStderrLine(res.Stderr)
		}
		var next []*hnCase
		for _, c := range rest {
			if c != culprit {
				next = append(next, c)
			}
		}
		pending = next
	}
}

func (c *hnCase) coq() string {
	nk := map[string]int{"ok": 0, "long": 0, "empty": 1, "self": 2, "other": 3}[c.NodeKind]
	return fmt.Sprintf("mk_ncase (mk_hsmsg %d %s %s %d %s) %d", c.Role, util.Z(c.Pool), util.B(c.ErrNil), nk, util.Z(c.Creation), c.Obs)
}

func runHsNode(f flags) {
	o := util.NewOut("hostile.hsnode")
	o.Monitor = []util.MonitorFail{}
	var cases []hnCase
	if f.replay != "" {
		b, err := os.ReadFile(f.replay)
		if err != nil {
			panic(err)
		}
		var rp struct {
			Case hnCase `json:"case"`
		}
		if err := json.Unmarshal(b, &rp); err != nil {
			panic(err)
		}
		c := rp.Case
		c.Obs, c.Alive, c.Err, c.Detail = 0, false, "", ""
		if c.Tags == nil {
			c.Tags = []string{}
		}
		cases = []hnCase{c}
	} else {
		// corpus first: witnesses of repaired defects (must pass on every run)
		if f.corpus != "" {
			files, _ := filepath.Glob(filepath.Join(f.corpus, "hsnode-*.json"))
			sort.Strings(files)
			for _, fn := range files {
				b, err := os.ReadFile(fn)
				if err != nil {
					panic(err)
				}
				var rp struct {
					Case hnCase `json:"case"`
				}
				if err := json.Unmarshal(b, &rp); err != nil {
					panic(fn + ": " + err.Error())
				}
				c := rp.Case
				c.Class = "corpus:" + strings.TrimSuffix(filepath.Base(fn), ".json")
				c.Obs, c.Alive, c.Err, c.Detail = 0, false, "", ""
				if c.Tags == nil {
					c.Tags = []string{}
				}
				cases = append(cases, c)
			}
		}
		cases = append(cases, hnGenerate(f.known)...)
		for i := range cases {
			cases[i].Idx = i
		}
	}
	per := 6
	var batches [][]*hnCase
	for i := 0; i < len(cases); i += per {
		var b []*hnCase
		for j := i; j < len(cases) && j < i+per; j++ {
			b = append(b, &cases[j])
		}
		batches = append(batches, b)
	}
	ch := make(chan []*hnCase)
	var wg sync.WaitGroup
	for w := 0; w < 6; w++ {
		wg.Add(1)
		go func() {
			defer wg.Done()
			for b := range ch {
				hnRunBatch(b)
			}
		}()
	}
	for _, b := range batches {
		ch <- b
	}
	close(ch)
	wg.Wait()
	for i := range cases {
		c := &cases[i]
		idx := o.Add(c.coq(), c)
		o.Stats["runs"]++
		o.Stats["class:"+c.Class]++
		o.Stats[fmt.Sprintf("role:%d", c.Role)]++
		o.Stats[fmt.Sprintf("obs:%d", c.Obs)]++
		what := fmt.Sprintf("%s (role %d, pool %d, nil error in ErrCache %v, node name %s, creation %d)", c.Class, c.Role, c.Pool, c.ErrNil, c.NodeKind, c.Creation)
		fail := func(s string) {
			o.Monitor = append(o.Monitor, util.MonitorFail{Case: idx, What: s, Tags: c.Tags})
		}
		switch c.Obs {
		case 2:
			fail("a peer that knows the cookie sent " + what + ": the node died / the caller panicked: " + c.Detail + c.Err)
		case 3:
			fail("a peer that knows the cookie sent " + what + ": no answer in time: " + c.Detail + c.Err)
		default:
			if !c.Alive {
				fail("after " + what + " an actor of the node no longer answers a Call")
			}
		}
	}
	_ = hex.EncodeToString
	if f.out != "" {
		o.Write(f.out)
	}
	fmt.Printf("hostile hsnode: %d cases, %d monitor failure(s)\n", len(cases), len(o.Monitor))
}
