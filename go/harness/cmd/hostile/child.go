package main

import (
	"bytes"
	"os"
	"os/exec"
	"strconv"
	"syscall"
	"time"
)

// childResult: how a child process of this binary ended.
type childResult struct {
	Stdout   []byte
	Stderr   string // last 2000 bytes
	Exit     int    // exit code (-1 = killed by a signal)
	TimedOut bool
	Dur      time.Duration
}

// runChild starts `<this binary> <sub> -in <file>` under `ulimit -v <memKB>` (virtual memory cap,
// so that a multi-GiB allocation fails inside the child instead of taking the machine down) and
// kills it after timeout.  A fatal "out of memory", an un-recovered panic (exit 2) and a timeout
// are the observations "allocates out of proportion", "crashes", "hangs".
func runChild(sub string, inFile string, memKB int, timeout time.Duration, extra ...string) childResult {
	self, _ := os.Executable()
	sh := "ulimit -v " + strconv.Itoa(memKB) + "; exec \"$0\" \"$@\""
	args := append([]string{"-c", sh, self, sub, "-in", inFile}, extra...)
	cmd := exec.Command("sh", args...)
	var so, se bytes.Buffer
	cmd.Stdout, cmd.Stderr = &so, &se
	cmd.Env = append(os.Environ(), "GOMAXPROCS=4", "GOGC=50")
	cmd.SysProcAttr = &syscall.SysProcAttr{Setpgid: true}
	t0 := time.Now()
	res := childResult{}
	if err := cmd.Start(); err != nil {
		res.Exit = -2
		res.Stderr = err.Error()
		return res
	}
	done := make(chan error, 1)
	go func() { done <- cmd.Wait() }()
	select {
	case <-done:
	case <-time.After(timeout):
		res.TimedOut = true
		syscall.Kill(-cmd.Process.Pid, syscall.SIGKILL)
		<-done
	}
	res.Dur = time.Since(t0)
	res.Stdout = so.Bytes()
	s := se.String()
	if len(s) > 2000 {
		s = s[:1000] + " ... " + s[len(s)-1000:]
	}
	res.Stderr = s
	if cmd.ProcessState != nil {
		res.Exit = cmd.ProcessState.ExitCode()
	}
	return res
}
