package main

// C16, EDF part: a malformed stream (mutations of valid encodings, synthetic type descriptors, huge
// declared counts, garbage) is decoded by the REAL edf.Decode in child processes under a memory
// limit and a timeout.  Per input: result class and value (compared with the Coq model: corr_dec),
// runtime.MemStats.TotalAlloc delta of the Decode call (compared with the model's allocation
// account: corr_alloc, and with the bound K*len+K0: spec_alloc), re-encoding and second decoding
// (spec_idem).  A child that dies (fatal out of memory, un-recovered panic) or does not finish is
// the observation "allocates out of proportion / crashes / hangs" for the culprit input.

import (
	"bufio"
	"bytes"
	"encoding/binary"
	"encoding/hex"
	"encoding/json"
	"fmt"
	"math/rand"
	"os"
	"reflect"
	"runtime"
	"sort"
	"strings"
	"sync"
	"time"

	"ergo.services/ergo/gen"
	"ergo.services/ergo/lib"
	"ergo.services/ergo/net/edf"
	"verifharness/util"
)

const modelFuel = 40

// bound of spec_alloc (Hostile/Cases.v AL_K, AL_K0)
const alK, alK0 = 16384, 524288

// threshold of the array-descriptor class: product of all lengths following a byte 158
const arrSmall = 64

// ---- copied from cmd/edf/main.go (options of both directions, Coq printing) ----------------------

func buildOptions(o Opts) (edf.Options, edf.Options) {
	var e, d edf.Options
	if o.HasAtomCache {
		e.AtomCache, d.AtomCache = new(sync.Map), new(sync.Map)
		for _, a := range o.AtomCache {
			e.AtomCache.Store(gen.Atom(a.Atom), a.ID)
			d.AtomCache.Store(a.ID, gen.Atom(a.Atom))
		}
	}
	if o.HasAtomMap {
		e.AtomMapping, d.AtomMapping = new(sync.Map), new(sync.Map)
		for _, m := range o.AtomMap {
			e.AtomMapping.Store(gen.Atom(m[0]), gen.Atom(m[1]))
			d.AtomMapping.Store(gen.Atom(m[1]), gen.Atom(m[0]))
		}
	}
	if o.HasRegCache {
		e.RegCache, d.RegCache = new(sync.Map), new(sync.Map)
		for _, r := range o.RegCache {
			rt := regByShort[r.Short]
			e.RegCache.Store(rt.Type, []byte{131, byte(r.ID >> 8), byte(r.ID)})
			d.RegCache.Store(r.ID, rt.Name)
		}
	}
	if o.HasErrCache {
		e.ErrCache, d.ErrCache = new(sync.Map), new(sync.Map)
		for _, x := range o.ErrCache {
			e.ErrCache.Store(sentinels[x.Sent], x.ID)
			d.ErrCache.Store(x.ID, sentinels[x.Sent])
		}
	}
	if o.UseCache {
		e.Cache, d.Cache = new(sync.Map), new(sync.Map)
	}
	return e, d
}

func coqOpts(o Opts) string {
	ac, am, rc, ec := "None", "None", "None", "None"
	if o.HasAtomCache {
		var p []string
		for _, a := range o.AtomCache {
			p = append(p, fmt.Sprintf("(%s, %d)", coqBytes([]byte(a.Atom)), a.ID))
		}
		ac = "(Some [" + strings.Join(p, "; ") + "])"
	}
	if o.HasAtomMap {
		var p []string
		for _, m := range o.AtomMap {
			p = append(p, fmt.Sprintf("(%s, %s)", coqBytes([]byte(m[0])), coqBytes([]byte(m[1]))))
		}
		am = "(Some [" + strings.Join(p, "; ") + "])"
	}
	if o.HasRegCache {
		var p []string
		for _, r := range o.RegCache {
			p = append(p, fmt.Sprintf("(rn_%s, %d)", r.Short, r.ID))
		}
		rc = "(Some [" + strings.Join(p, "; ") + "])"
	}
	if o.HasErrCache {
		var p []string
		for _, x := range o.ErrCache {
			p = append(p, fmt.Sprintf("(%d, %s, %d)", x.Sent, coqBytes([]byte(sentinels[x.Sent].Error())), x.ID))
		}
		ec = "(Some [" + strings.Join(p, "; ") + "])"
	}
	return fmt.Sprintf("(mk_opts %d hreg %s %s %s %s)", modelFuel, ac, am, rc, ec)
}

// ---- a hostile case ---------------------------------------------------------------------------------

type hcase struct {
	Class string   `json:"class"`
	Opts  Opts     `json:"opts"`
	Hex   string   `json:"hex"`
	Tags  []string `json:"tags"`
	Skip  bool     `json:"skip"` // Go monitor only (too large / too slow for the Coq model)
	// observation (filled by the parent from the child's answer)
	Obs *hobs `json:"obs,omitempty"`
}

type hobs struct {
	Idx     int    `json:"idx"`
	Outcome string `json:"outcome"` // value | error | crash | oom | hang
	Err     string `json:"err,omitempty"`
	T       *T     `json:"t,omitempty"`
	V       *V     `json:"v,omitempty"`
	Tail    int    `json:"tail"`
	Alloc   uint64 `json:"alloc"`
	DurUs   int64  `json:"dur_us"`
	Reenc   bool   `json:"reenc"`
	ReErr   string `json:"re_err,omitempty"`
	T2      *T     `json:"t2,omitempty"`
	V2      *V     `json:"v2,omitempty"`
	Tail2   int    `json:"tail2"`
	Re2Err  string `json:"re2_err,omitempty"`
	Stderr  string `json:"stderr,omitempty"`
	TooBig  bool   `json:"too_big,omitempty"` // decoded value too large to print
}

func (c *hcase) bytes() []byte { b, _ := hex.DecodeString(c.Hex); return b }

func arrProduct(b []byte) uint64 {
	acc := uint64(1)
	for i := 0; i < len(b); i++ {
		if b[i] == 158 && i+4 < len(b)+0 && i+5 <= len(b) {
			n := uint64(binary.BigEndian.Uint32(b[i+1 : i+5]))
			if n < 1 {
				n = 1
			}
			if acc > 1<<40 {
				return acc
			}
			acc *= n
		}
	}
	return acc
}

// ---- child ---------------------------------------------------------------------------------------------

func shortErr(e error) string {
	s := e.Error()
	if len(s) > 160 {
		s = s[:160]
	}
	return s
}

func vsize(v *V) int {
	if v == nil {
		return 0
	}
	n := 1 + len(v.S) + len(v.Node) + len(v.Name)
	n += vsize(v.X)
	for _, e := range v.L {
		n += vsize(e)
	}
	for _, kv := range v.M {
		n += vsize(kv[0]) + vsize(kv[1])
	}
	return n
}

func runEdfChild(f flags) {
	registerAll()
	raw, err := os.ReadFile(f.in)
	if err != nil {
		panic(err)
	}
	var batch []struct {
		Idx  int    `json:"idx"`
		Opts Opts   `json:"opts"`
		Hex  string `json:"hex"`
	}
	if err := json.Unmarshal(raw, &batch); err != nil {
		panic(err)
	}
	w := bufio.NewWriter(os.Stdout)
	for _, c := range batch {
		in, _ := hex.DecodeString(c.Hex)
		eo, do := buildOptions(c.Opts)
		ob := hobs{Idx: c.Idx}
		// announce the case first: if the process dies inside Decode the parent knows the culprit
		fmt.Fprintf(w, "{\"start\":%d}\n", c.Idx)
		w.Flush()
		var m0, m1 runtime.MemStats
		runtime.GC()
		runtime.ReadMemStats(&m0)
		t0 := time.Now()
		x, tail, derr := edf.Decode(in, do)
		ob.DurUs = time.Since(t0).Microseconds()
		runtime.ReadMemStats(&m1)
		ob.Alloc = m1.TotalAlloc - m0.TotalAlloc
		if derr != nil {
			ob.Outcome, ob.Err = "error", shortErr(derr)
		} else {
			ob.Outcome, ob.Tail = "value", len(tail)
			func() {
				defer func() {
					if r := recover(); r != nil {
						ob.Outcome, ob.Err = "crash", fmt.Sprint("harness/printer panic: ", r)
					}
				}()
				if x == nil {
					ob.T, ob.V = &T{K: "any"}, &V{K: "anynil"}
				} else {
					xv := reflect.ValueOf(x)
					if xv.Kind() == reflect.Array && xv.Len() > 1<<16 {
						ob.TooBig = true
						return
					}
					ob.T, ob.V = modelType(xv.Type()), fromGo(xv)
					if vsize(ob.V) > 1<<18 {
						ob.TooBig = true
					}
				}
				// re-encode with the options of the opposite direction and decode again
				b := lib.TakeBuffer()
				defer lib.ReleaseBuffer(b)
				if e := edf.Encode(x, b, eo); e != nil {
					ob.ReErr = shortErr(e)
					return
				}
				ob.Reenc = true
				y, tail2, e2 := edf.Decode(append([]byte{}, b.B...), do)
				if e2 != nil {
					ob.Re2Err = shortErr(e2)
					return
				}
				ob.Tail2 = len(tail2)
				if y == nil {
					ob.T2, ob.V2 = &T{K: "any"}, &V{K: "anynil"}
				} else {
					yv := reflect.ValueOf(y)
					ob.T2, ob.V2 = modelType(yv.Type()), fromGo(yv)
				}
			}()
			if ob.TooBig {
				ob.T, ob.V, ob.T2, ob.V2 = nil, nil, nil, nil
			}
		}
		js, _ := json.Marshal(ob)
		w.Write(js)
		w.WriteByte('\n')
		w.Flush()
	}
}

// ---- parent: running batches -----------------------------------------------------------------------

type batchItem struct {
	Idx  int    `json:"idx"`
	Opts Opts   `json:"opts"`
	Hex  string `json:"hex"`
}

// runBatch runs the items in child processes until every item has an observation.
func runBatch(items []batchItem, memKB int, base, perCase time.Duration, res map[int]*hobs, mu *sync.Mutex) {
	for len(items) > 0 {
		tmp, _ := os.CreateTemp("", "c16edf*.json")
		js, _ := json.Marshal(items)
		tmp.Write(js)
		tmp.Close()
		cr := runChild("edf-child", tmp.Name(), memKB, base+time.Duration(len(items))*perCase)
		os.Remove(tmp.Name())
		started := -1
		done := map[int]bool{}
		sc := bufio.NewScanner(bytes.NewReader(cr.Stdout))
		sc.Buffer(make([]byte, 1<<20), 1<<28)
		for sc.Scan() {
			line := sc.Bytes()
			var st struct {
				Start *int `json:"start"`
			}
			if json.Unmarshal(line, &st) == nil && st.Start != nil {
				started = *st.Start
				continue
			}
			var ob hobs
			if json.Unmarshal(line, &ob) == nil && ob.Outcome != "" {
				o := ob
				mu.Lock()
				res[ob.Idx] = &o
				mu.Unlock()
				done[ob.Idx] = true
			}
		}
		var rest []batchItem
		for _, it := range items {
			if !done[it.Idx] {
				rest = append(rest, it)
			}
		}
		if len(rest) == 0 {
			return
		}
		// the child ended early: the culprit is the case it had started (or the first one left)
		culprit := rest[0].Idx
		if started >= 0 && !done[started] {
			culprit = started
		}
		ob := &hobs{Idx: culprit, Stderr: lastLines(cr.Stderr, 3), DurUs: cr.Dur.Microseconds()}
		switch {
		case cr.TimedOut:
			ob.Outcome = "hang"
		case strings.Contains(cr.Stderr, "out of memory") || strings.Contains(cr.Stderr, "cannot allocate"):
			ob.Outcome = "oom"
		default:
			ob.Outcome = "crash"
		}
		mu.Lock()
		res[culprit] = ob
		mu.Unlock()
		var next []batchItem
		for _, it := range rest {
			if it.Idx != culprit {
				next = append(next, it)
			}
		}
		if len(next) == len(items) { // no progress: give up on this batch
			for _, it := range next {
				mu.Lock()
				res[it.Idx] = &hobs{Idx: it.Idx, Outcome: "crash", Stderr: "child made no progress: " + lastLines(cr.Stderr, 2)}
				mu.Unlock()
			}
			return
		}
		items = next
	}
}

func lastLines(s string, n int) string {
	ls := strings.Split(strings.TrimSpace(s), "\n")
	// the first line of a Go fatal error / panic is the informative one
	for _, l := range ls {
		if strings.HasPrefix(l, "fatal error") || strings.HasPrefix(l, "panic:") || strings.HasPrefix(l, "runtime:") {
			if len(l) > 300 {
				l = l[:300]
			}
			return l
		}
	}
	if len(ls) > n {
		ls = ls[len(ls)-n:]
	}
	out := strings.Join(ls, " | ")
	if len(out) > 300 {
		out = out[:300]
	}
	return out
}

// ---- generators -------------------------------------------------------------------------------------

var tagBytes = []byte{130, 131, 132, 140, 141, 142, 143, 144, 145, 146, 147, 148, 149, 150, 151, 152, 153, 154, 155, 156, 157, 158, 159, 170, 171, 172, 173, 174, 175, 255}

func be32(v uint32) []byte { b := make([]byte, 4); binary.BigEndian.PutUint32(b, v); return b }
func be16(v uint16) []byte { b := make([]byte, 2); binary.BigEndian.PutUint16(b, v); return b }

func special32(r *rand.Rand, rem int) uint32 {
	c := []uint32{0, 1, 2, uint32(rem), uint32(rem + 1), uint32(rem - 1), 255, 256, 65535, 65536, 1 << 24, 0x7fffffff, 0x80000000, 0xfffffffc, 0xffffffff}
	return c[r.Intn(len(c))]
}

func special16(r *rand.Rand, rem int) uint16 {
	c := []uint16{0, 1, uint16(rem), uint16(rem + 1), 254, 255, 256, 257, 300, 301, 4095, 4096, 4097, 4101, 32767, 32768, 32770, 65534, 65535}
	return c[r.Intn(len(c))]
}

// one mutation of a valid encoding; returns the class
func mutate(r *rand.Rand, in []byte) ([]byte, string) {
	b := append([]byte{}, in...)
	if len(b) == 0 {
		return []byte{byte(r.Intn(256))}, "garbage"
	}
	switch k := r.Intn(100); {
	case k < 22:
		return b[:r.Intn(len(b))], "truncate"
	case k < 36:
		p := r.Intn(len(b))
		if p+4 > len(b) {
			p = imax(0, len(b)-4)
		}
		if len(b) >= 4 {
			copy(b[p:], be32(special32(r, len(b)-p-4)))
		}
		return b, "inflate32"
	case k < 48:
		p := r.Intn(len(b))
		if p+2 > len(b) {
			p = imax(0, len(b)-2)
		}
		if len(b) >= 2 {
			copy(b[p:], be16(special16(r, len(b)-p-2)))
		}
		return b, "inflate16"
	case k < 62:
		// wrong type tag: replace a byte that is a tag value by another tag
		var pos []int
		for i, x := range b {
			if bytes.IndexByte(tagBytes, x) >= 0 {
				pos = append(pos, i)
			}
		}
		if len(pos) > 0 {
			b[pos[r.Intn(len(pos))]] = tagBytes[r.Intn(len(tagBytes))]
			return b, "wrong-tag"
		}
		b[r.Intn(len(b))] = tagBytes[r.Intn(len(tagBytes))]
		return b, "wrong-tag"
	case k < 72:
		p := r.Intn(len(b))
		b[p] = []byte{0, 1, 0x7f, 0x80, 0xff, byte(r.Intn(256)), b[p] + 1, b[p] - 1}[r.Intn(8)]
		return b, "byte"
	case k < 80:
		p := r.Intn(len(b) + 1)
		ins := make([]byte, 1+r.Intn(6))
		r.Read(ins)
		if r.Intn(2) == 0 && len(b) > 1 { // duplicate a piece of the input
			q := r.Intn(len(b))
			ins = append([]byte{}, b[q:imin(len(b), q+1+r.Intn(12))]...)
		}
		return append(append(append([]byte{}, b[:p]...), ins...), b[p:]...), "insert"
	case k < 88:
		p := r.Intn(len(b))
		q := imin(len(b), p+1+r.Intn(4))
		return append(append([]byte{}, b[:p]...), b[q:]...), "delete"
	case k < 94:
		t := make([]byte, 1+r.Intn(10))
		r.Read(t)
		return append(b, t...), "tail"
	default:
		// unknown cache id written over two bytes
		p := r.Intn(len(b))
		if p+2 > len(b) {
			p = imax(0, len(b)-2)
		}
		if len(b) >= 2 {
			copy(b[p:], be16([]uint16{258, 299, 302, 4098, 4099, 5001, 32771, 40001, 65533}[r.Intn(9)]))
		}
		return b, "cache-id"
	}
}

// a random type descriptor (fold) of bounded depth; arrays only with small lengths
func genFold(r *rand.Rand, depth int) []byte {
	if depth <= 0 || r.Intn(4) == 0 {
		switch r.Intn(8) {
		case 0:
			return []byte{132}
		case 1:
			rt := regTypes[r.Intn(len(regTypes))]
			return append(append([]byte{131}, be16(uint16(len(rt.Name)))...), rt.Name...)
		case 2:
			return append([]byte{131}, be16([]uint16{3, 4095, 4096, 4100, 65535}[r.Intn(5)])...) // short / unknown cache id
		default:
			return []byte{[]byte{140, 141, 142, 143, 144, 145, 146, 147, 148, 149, 150, 151, 152, 153, 154, 155, 156, 170, 171, 172, 173, 174, 175}[r.Intn(23)]}
		}
	}
	switch r.Intn(3) {
	case 0:
		return append([]byte{157}, genFold(r, depth-1)...)
	case 1:
		return append(append([]byte{158}, be32(uint32(r.Intn(4)))...), genFold(r, depth-1)...)
	default:
		return append(append([]byte{159}, genFold(r, depth-1)...), genFold(r, depth-1)...)
	}
}

func synthetic(r *rand.Rand) ([]byte, string) {
	switch r.Intn(7) {
	case 0: // nested type descriptor + garbage / nil values
		fold := genFold(r, 1+r.Intn(5))
		if r.Intn(3) == 0 { // deep chain of slices
			d := 2 + r.Intn(50)
			fold = append(bytes.Repeat([]byte{157}, d), fold...)
		}
		if r.Intn(6) == 0 { // declared fold length wrong
			out := append([]byte{130}, be16(uint16(len(fold)+r.Intn(5)-2))...)
			return append(out, fold...), "descriptor"
		}
		out := append(append([]byte{130}, be16(uint16(len(fold)))...), fold...)
		v := make([]byte, r.Intn(24))
		r.Read(v)
		if r.Intn(2) == 0 {
			for i := range v {
				v[i] = []byte{255, 157, 159, 0, 0, 0, 1, 2}[r.Intn(8)]
			}
		}
		return append(out, v...), "descriptor"
	case 1: // huge declared counts after a valid header
		hdrs := [][]byte{{130, 0, 2, 157, 151}, {130, 0, 2, 157, 132}, {130, 0, 3, 159, 141, 150}, {130, 0, 2, 157, 141}, {142}, {141}, {140}, {156}}
		h := hdrs[r.Intn(len(hdrs))]
		out := append([]byte{}, h...)
		switch {
		case h[0] == 130 && h[3] == 157:
			out = append(out, 157)
			out = append(out, be32([]uint32{0xffffffff, 0x7fffffff, 1 << 24, 65536, 1000}[r.Intn(5)])...)
		case h[0] == 130:
			out = append(out, 159)
			out = append(out, be32([]uint32{0xffffffff, 0x7fffffff, 1 << 24, 65536, 1000}[r.Intn(5)])...)
		case h[0] == 142:
			out = append(out, be32([]uint32{0xffffffff, 0xfffffffc, 0x7fffffff, 1 << 24, 1000}[r.Intn(5)])...)
		default:
			out = append(out, be16([]uint16{65535, 65534, 32767, 255, 1000}[r.Intn(5)])...)
		}
		t := make([]byte, r.Intn(40))
		r.Read(t)
		return append(out, t...), "huge-count"
	case 2: // registered type name / cache id attacks
		rt := regTypes[r.Intn(len(regTypes))]
		out := append(append([]byte{131}, be16(uint16(len(rt.Name)))...), rt.Name...)
		switch r.Intn(4) {
		case 0:
			out = out[:r.Intn(len(out))]
		case 1:
			out[3+r.Intn(len(rt.Name))] ^= 1
		case 2:
			out = append(out, 131)
			out = append(out, be32([]uint32{0xffffffff, 0x7fffffff, 1 << 24, 3}[r.Intn(4)])...)
		}
		t := make([]byte, r.Intn(30))
		r.Read(t)
		return append(out, t...), "registered"
	case 3: // a tag followed by garbage
		t := make([]byte, r.Intn(40))
		r.Read(t)
		return append([]byte{tagBytes[r.Intn(len(tagBytes))]}, t...), "tag+garbage"
	case 4: // interface values nested in interface values
		d := 1 + r.Intn(30)
		out := bytes.Repeat([]byte{132}, d)
		out = append(out, [][]byte{{255}, {145, 1}, {141, 0, 1, 'x'}, {}, {132}}[r.Intn(5)]...)
		return out, "any-chain"
	case 5: // map[any]int8 whose interface key holds a slice: reflect's SetMapIndex panics (unhashable), Decode must recover
		out := []byte{130, 0, 3, 159, 132, 146, 159, 0, 0, 0, 1}
		out = append(out, [][]byte{{130, 0, 2, 157, 146, 157, 0, 0, 0, 0}, {130, 0, 2, 157, 146, 255}, {130, 0, 3, 159, 146, 146, 255}}[r.Intn(3)]...)
		return append(out, byte(r.Intn(256))), "unhashable-key"
	default:
		t := make([]byte, r.Intn(64))
		r.Read(t)
		return t, "garbage"
	}
}

// input classes of the known findings (generated only when the tag is listed in known_findings.json)
func knownCases(known map[string]bool, thorough bool) []hcase {
	var cs []hcase
	add := func(class, tag string, b []byte) {
		cs = append(cs, hcase{Class: class, Hex: hex.EncodeToString(b), Tags: []string{tag}, Skip: true})
	}
	if known["array-descriptor"] {
		add("array-bomb-4MiB", "array-descriptor", []byte{130, 0, 6, 158, 0, 0x40, 0, 0, 151})
		add("array-bomb-256MiB", "array-descriptor", []byte{130, 0, 6, 158, 0x10, 0, 0, 0, 151})
		add("array-bomb-2GiB", "array-descriptor", []byte{130, 0, 6, 158, 0x7f, 0xff, 0xff, 0xff, 151})
		add("array-bomb-fatal", "array-descriptor", []byte{130, 0, 11, 158, 0xff, 0xff, 0xff, 0xff, 158, 0xff, 0xff, 0xff, 0xff, 151})
		// inside an interface inside a slice, with data following
		add("array-bomb-in-any", "array-descriptor", []byte{130, 0, 2, 157, 132, 157, 0, 0, 0, 1, 130, 0, 6, 158, 0x04, 0, 0, 0, 151, 1, 2, 3})
		// slice of arrays: MakeSlice(n * 16 MiB)
		add("array-bomb-slice-elem", "array-descriptor", []byte{130, 0, 7, 157, 158, 0x01, 0, 0, 0, 151, 157, 0, 0, 0, 4, 1, 2, 3, 4})
	}
	if known["zero-width-loop"] {
		// [4294967295][0]int + one byte: 2^32 iterations decoding nothing
		add("zero-width-loop", "zero-width-loop", []byte{130, 0, 11, 158, 0xff, 0xff, 0xff, 0xff, 158, 0, 0, 0, 0, 150, 0xff})
	}
	if known["nested-count-amplification"] {
		levels := 2600
		if thorough {
			levels = 3000
		}
		var b []byte
		rem := levels * 10
		for i := 0; i < levels; i++ {
			rem -= 10
			n := rem
			if n < 1 {
				n = 1
			}
			b = append(b, 130, 0, 2, 157, 132, 157)
			b = append(b, be32(uint32(n))...)
		}
		add("nested-counts", "nested-count-amplification", b)
	}
	if known["descriptor-error-chain"] {
		d := 12000
		b := append([]byte{130}, be16(uint16(d))...)
		b = append(b, bytes.Repeat([]byte{157}, d)...)
		add("descriptor-chain", "descriptor-error-chain", b)
	}
	return cs
}

func imin(a, b int) int {
	if a < b {
		return a
	}
	return b
}
func imax(a, b int) int {
	if a > b {
		return a
	}
	return b
}

// zero-width element types in a decoded type: the C11 known finding zero-width-elem shows up in the
// idempotence check (the re-encoding of [1][0]int{} does not decode)
func hasZeroWidth(t *T) bool {
	if t == nil {
		return false
	}
	switch t.K {
	case "array":
		return t.N == 0 || hasZeroWidth(t.E)
	case "slice":
		return hasZeroWidth(t.E)
	case "map":
		return hasZeroWidth(t.Key) || hasZeroWidth(t.E)
	case "reg":
		return t.Name == "HEmpty" || t.Name == "HZArr"
	}
	return false
}

func hasZeroWidthV(v *V) bool {
	if v == nil {
		return false
	}
	if v.K == "any" && (hasZeroWidth(v.T) || hasZeroWidthV(v.X)) {
		return true
	}
	for _, e := range v.L {
		if hasZeroWidthV(e) {
			return true
		}
	}
	for _, kv := range v.M {
		if hasZeroWidthV(kv[0]) || hasZeroWidthV(kv[1]) {
			return true
		}
	}
	return false
}

func unnamedArrayKey(t *T) bool {
	if t == nil {
		return false
	}
	if t.K == "map" && (t.Key.K == "array" || t.Key.K == "slice" || t.Key.K == "map") {
		return true
	}
	return unnamedArrayKey(t.E) || unnamedArrayKey(t.Key)
}

// ---- parent ------------------------------------------------------------------------------------------

func optTriple(t *T, v *V, tail int) string {
	if t == nil || v == nil {
		return "None"
	}
	return fmt.Sprintf("(Some (%s, %s, %d))", coqT(t), coqV(v), tail)
}

func runEdf(f flags) {
	registerAll()
	thorough := os.Getenv("VERIF_TIER") == "thorough"
	r := util.Rng(1611)
	g := &genCfg{r: util.Rng(1612)}
	var cases []hcase

	if f.replay != "" {
		raw, err := os.ReadFile(f.replay)
		if err != nil {
			panic(err)
		}
		var rp struct {
			Case hcase `json:"case"`
		}
		if err := json.Unmarshal(raw, &rp); err != nil {
			panic(err)
		}
		rp.Case.Obs = nil
		cases = append(cases, rp.Case)
	} else {
		cases = append(cases, knownCases(f.known, thorough)...)
		// fixed witnesses of repaired defects (must pass): registered map count before the check, Marshaler-style
		// length wrap of binaries, string length wrap
		hm := regByShort["HMap"].Name
		regmap := append(append(append([]byte{131}, be16(uint16(len(hm)))...), hm...), 131, 0x7f, 0xff, 0xff, 0xff)
		cases = append(cases, hcase{Class: "fixed-regmap-count", Hex: hex.EncodeToString(regmap), Tags: []string{}})
		cases = append(cases, hcase{Class: "fixed-binary-wrap", Hex: "8efffffffc00000000", Tags: []string{}})
		// a slice whose items have zero size ([][0]int, [][][0]int) with an inflated item count: no byte of input
		// stands behind the count, the decoder must refuse it at once (it does: "incorrect data length"), not walk 2^32 items
		cases = append(cases, hcase{Class: "zero-size-slice-inflated-count", Hex: hex.EncodeToString([]byte{130, 0, 7, 157, 158, 0, 0, 0, 0, 150, 157, 0xff, 0xff, 0xff, 0xff}), Tags: []string{}})
		cases = append(cases, hcase{Class: "zero-size-slice-inflated-count", Hex: hex.EncodeToString([]byte{130, 0, 8, 157, 157, 158, 0, 0, 0, 0, 150, 157, 0, 0, 0, 2, 157, 0xff, 0xff, 0xff, 0xff, 157, 0xff, 0xff, 0xff, 0xff}), Tags: []string{}})
		cases = append(cases, hcase{Class: "zero-size-slice-inflated-count", Hex: hex.EncodeToString([]byte{130, 0, 7, 157, 158, 0, 0, 0, 0, 150, 157, 0x08, 0, 0, 0}), Tags: []string{}})
		for len(cases) < f.n {
			var c hcase
			c.Tags = []string{}
			k := r.Intn(100)
			if k < 22 {
				b, class := synthetic(r)
				c.Class, c.Hex = class, hex.EncodeToString(b)
				if r.Intn(3) == 0 {
					c.Opts = g.genOpts()
				}
			} else {
				base := g.randomCase()
				eo, _ := buildOptions(base.Opts)
				buf := lib.TakeBuffer()
				rv := toGo(goType(base.T), base.V)
				err := edf.Encode(rv.Interface(), buf, eo)
				enc := append([]byte{}, buf.B...)
				lib.ReleaseBuffer(buf)
				if err != nil || len(enc) > 3000 {
					continue
				}
				c.Opts = base.Opts
				if k < 36 {
					c.Class = "valid"
				} else {
					var class string
					enc, class = mutate(r, enc)
					c.Class = class
					for r.Intn(4) == 0 { // a second / third mutation
						enc, _ = mutate(r, enc)
						c.Class = "multi"
					}
				}
				c.Hex = hex.EncodeToString(enc)
			}
			if p := arrProduct(c.bytes()); p > arrSmall {
				// a mutation made an array descriptor with a large length: the known finding's class
				if !f.known["array-descriptor"] || p > 1<<22 {
					continue
				}
				c.Tags = append(c.Tags, "array-descriptor")
				c.Skip = true
			}
			cases = append(cases, c)
		}
		if thorough {
			// truncation at every byte of some valid encodings
			for i := 0; i < 40; i++ {
				base := g.randomCase()
				eo, _ := buildOptions(base.Opts)
				buf := lib.TakeBuffer()
				err := edf.Encode(toGo(goType(base.T), base.V).Interface(), buf, eo)
				enc := append([]byte{}, buf.B...)
				lib.ReleaseBuffer(buf)
				if err != nil || len(enc) > 200 || arrProduct(enc) > arrSmall {
					continue
				}
				for k := 0; k < len(enc); k++ {
					cases = append(cases, hcase{Class: "truncate-all", Opts: base.Opts, Hex: hex.EncodeToString(enc[:k]), Tags: []string{}})
				}
			}
		}
	}

	// ---- run: ordinary cases in parallel batches, the slow / dangerous classes one per child
	res := map[int]*hobs{}
	var mu sync.Mutex
	var wg sync.WaitGroup
	sem := make(chan struct{}, 8)
	var normal []batchItem
	for i, c := range cases {
		it := batchItem{Idx: i, Opts: c.Opts, Hex: c.Hex}
		if c.Skip {
			wg.Add(1)
			go func(it batchItem) {
				defer wg.Done()
				sem <- struct{}{}
				defer func() { <-sem }()
				// 3 GiB of address space, 12 s
				runBatch([]batchItem{it}, 3*1024*1024, 12*time.Second, 0, res, &mu)
			}(it)
		} else {
			normal = append(normal, it)
		}
	}
	per := 150
	for i := 0; i < len(normal); i += per {
		j := imin(len(normal), i+per)
		wg.Add(1)
		go func(items []batchItem) {
			defer wg.Done()
			sem <- struct{}{}
			defer func() { <-sem }()
			runBatch(items, 3*1024*1024, 20*time.Second, 300*time.Millisecond, res, &mu)
		}(normal[i:j])
	}
	wg.Wait()

	// ---- report
	o := util.NewOut("hostile.edf")
	o.Extra["prelude"] = coqPrelude()
	for i := range cases {
		c := &cases[i]
		ob := res[i]
		if ob == nil {
			ob = &hobs{Idx: i, Outcome: "crash", Stderr: "no observation"}
		}
		c.Obs = ob
		in := c.bytes()
		// tags of C11's known findings showing up in the idempotence check
		if ob.Outcome == "value" && (hasZeroWidth(ob.T) || hasZeroWidthV(ob.V)) {
			// decoded value with zero-width elements ([0]T, struct{}): its re-encoding does not decode
			// (C11's known finding, here seen by the idempotence check): an input class of a known
			// finding is reported only when the finding is listed
			if !f.known["zero-width-elem"] && f.replay == "" {
				o.Stats["dropped:zero-width-elem"]++
				continue
			}
			c.Tags = append(c.Tags, "zero-width-elem")
		}
		skip := c.Skip || ob.TooBig || ob.Outcome == "crash" || ob.Outcome == "oom" || ob.Outcome == "hang" || len(in) > 4000
		dec := "None"
		if ob.Outcome == "value" && !ob.TooBig {
			dec = optTriple(ob.T, ob.V, ob.Tail)
		}
		redec := "None"
		if ob.Reenc && ob.Re2Err == "" && !ob.TooBig {
			redec = optTriple(ob.T2, ob.V2, ob.Tail2)
		}
		inS := coqBytes(in)
		if skip {
			inS = "[]"
			dec, redec = "None", "None"
		}
		term := fmt.Sprintf("mk_hcase %s %s %s %s %d %s %s", coqOpts(c.Opts), inS, util.B(skip), dec, ob.Alloc, util.B(ob.Reenc), redec)
		idx := o.Add(term, c)

		o.Stats["class:"+c.Class]++
		o.Stats["outcome:"+ob.Outcome]++
		if skip {
			o.Stats["go-monitor-only"]++
		}
		for _, t := range c.Tags {
			o.Stats["tag:"+t]++
		}
		switch l := len(in); {
		case l < 8:
			o.Stats["len:<8"]++
		case l < 64:
			o.Stats["len:<64"]++
		case l < 512:
			o.Stats["len:<512"]++
		default:
			o.Stats["len:>=512"]++
		}
		if int(ob.Alloc) > o.Stats["max-alloc"] && ob.Outcome != "oom" {
			o.Stats["max-alloc"] = int(ob.Alloc)
		}
		if ob.Outcome == "value" && ob.Reenc {
			o.Stats["re-encoded"]++
		}

		fail := func(what string) {
			o.Monitor = append(o.Monitor, util.MonitorFail{Case: idx, What: what, Tags: c.Tags})
		}
		pfx := fmt.Sprintf("%d input bytes (%s): ", len(in), hex.EncodeToString(in[:imin(len(in), 24)]))
		switch ob.Outcome {
		case "crash":
			fail(pfx + "the process running edf.Decode died: " + ob.Stderr + ob.Err)
		case "oom":
			fail(pfx + "the process running edf.Decode ran out of memory (3 GiB limit): " + ob.Stderr)
		case "hang":
			fail(pfx + "edf.Decode did not return within the time limit")
		default:
			// skipped cases are not evaluated in Coq: the bound is checked here
			if skip && ob.Alloc > uint64(alK*len(in)+alK0) {
				fail(pfx + fmt.Sprintf("edf.Decode allocated %d bytes (bound %d*len+%d)", ob.Alloc, alK, alK0))
			}
			if ob.DurUs > 3_000_000 {
				fail(pfx + fmt.Sprintf("edf.Decode took %d ms", ob.DurUs/1000))
			}
		}
	}
	o.Stats["runs"] = len(cases)
	keys := make([]string, 0, len(o.Stats))
	for k := range o.Stats {
		keys = append(keys, k)
	}
	sort.Strings(keys)
	if f.out != "" {
		o.Write(f.out)
	} else {
		json.NewEncoder(os.Stdout).Encode(o)
	}
}

