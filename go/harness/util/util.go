// Package util: shared helpers of the verification harness (PRNG, Coq term printing,
// JSON result files).
package util

import (
	"encoding/hex"
	"encoding/json"
	"fmt"
	"math/rand"
	"os"
	"strconv"
	"strings"
)

// Seed returns VERIF_SEED (default 1).
func Seed() int64 {
	if s := os.Getenv("VERIF_SEED"); s != "" {
		if v, err := strconv.ParseInt(s, 10, 64); err == nil {
			return v
		}
	}
	return 1
}

func Rng(stream int64) *rand.Rand {
	return rand.New(rand.NewSource(Seed()*1000003 + stream))
}

// Z prints an integer as a Coq Z literal.
func Z(v int64) string {
	if v < 0 {
		return fmt.Sprintf("(%d)", v)
	}
	return fmt.Sprintf("%d", v)
}

func ZU(v uint64) string { return fmt.Sprintf("%d", v) }

func B(b bool) string {
	if b {
		return "true"
	}
	return "false"
}

func ZList(l []int64) string {
	p := make([]string, len(l))
	for i, v := range l {
		p[i] = Z(v)
	}
	return "[" + strings.Join(p, "; ") + "]"
}

func List(items []string) string { return "[" + strings.Join(items, "; ") + "]" }

// Hex prints bytes as a Coq string literal of hex digits (decoded in Gallina).
func Hex(b []byte) string { return "\"" + hex.EncodeToString(b) + "\"" }

// Out collects what a harness run reports to bin/check.
type Out struct {
	Engine  string            `json:"engine"`
	Seed    int64             `json:"seed"`
	Cases   []string          `json:"cases"`   // Coq terms, one per case
	Replays []json.RawMessage `json:"replays"` // same cases, JSON, index-aligned
	Stats   map[string]int    `json:"stats"`   // input distribution
	Monitor []MonitorFail     `json:"monitor"` // property failures seen on the implementation
	Notes   []string          `json:"notes"`
	Extra   map[string]any    `json:"extra,omitempty"`
}

type MonitorFail struct {
	Case  int      `json:"case"`
	What  string   `json:"what"`
	Known string   `json:"known,omitempty"`
	Tags  []string `json:"tags,omitempty"`
}

func NewOut(engine string) *Out {
	return &Out{Engine: engine, Seed: Seed(), Stats: map[string]int{}, Extra: map[string]any{}}
}

func (o *Out) Add(coq string, replay any) int {
	o.Cases = append(o.Cases, coq)
	r, _ := json.Marshal(replay)
	o.Replays = append(o.Replays, r)
	return len(o.Cases) - 1
}

func (o *Out) Write(path string) {
	f, err := os.Create(path)
	if err != nil {
		panic(err)
	}
	defer f.Close()
	enc := json.NewEncoder(f)
	if err := enc.Encode(o); err != nil {
		panic(err)
	}
}
