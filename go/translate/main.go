// vtranslate: T1 of /verif — regenerates, from the Go source of the tree under test, the part of the
// Coq model that is plain data or plain integer arithmetic:
//   - every integer constant of the listed packages (evaluated by go/types, iota and typed
//     constants included)                                              -> Consts.v
//   - the right-hand sides of selected assignments and the conditions of selected if / for
//     statements, translated expression by expression into Gallina over Z with the wrap-around
//     of Go's fixed-width integer types written out                    -> Exprs.v
//
// The committed files coq/tie/*.v prove that the hand-written model uses exactly these constants
// and formulas; a change of the source changes the generated file and the proof no longer checks.
//
// usage: vtranslate <repo> <sites.json> <outdir>
package main

import (
	"bytes"
	"encoding/json"
	"fmt"
	"go/ast"
	"go/build"
	"go/constant"
	"go/importer"
	"go/parser"
	"go/printer"
	"go/token"
	"go/types"
	"os"
	"path/filepath"
	"regexp"
	"sort"
	"strings"
)

type Site struct {
	Name    string            `json:"name"`
	Pkg     string            `json:"pkg"`
	File    string            `json:"file"`    // optional: base name of the file
	Func    string            `json:"func"`    // optional: regexp on the function name
	Kind    string            `json:"kind"`    // "assign" | "cond"
	Re      string            `json:"re"`      // regexp on the printed left-hand side / condition
	Re2     string            `json:"re2"`     // kind switch: regexp on the variable assigned inside the clauses
	Oracles map[string]string `json:"oracles"` // kind func: Go expressions that become extra parameters
}

type Spec struct {
	Packages []string `json:"packages"`
	Sites    []Site   `json:"sites"`
}

type pkgInfo struct {
	fset  *token.FileSet
	files []*ast.File
	names []string
	info  *types.Info
	pkg   *types.Package
	errs  []string
}

var sharedFset = token.NewFileSet()
var sharedImporter types.Importer

func load(repo, rel string) (*pkgInfo, error) {
	dir := filepath.Join(repo, rel)
	ctx := build.Default
	ctx.BuildTags = nil // the tree as it is shipped (hooks are no-ops without the verif tag)
	ctx.CgoEnabled = false
	ents, err := os.ReadDir(dir)
	if err != nil {
		return nil, err
	}
	p := &pkgInfo{fset: sharedFset}
	for _, e := range ents {
		n := e.Name()
		if e.IsDir() || !strings.HasSuffix(n, ".go") || strings.HasSuffix(n, "_test.go") {
			continue
		}
		ok, err := ctx.MatchFile(dir, n)
		if err != nil || !ok {
			continue
		}
		f, err := parser.ParseFile(p.fset, filepath.Join(dir, n), nil, 0)
		if err != nil {
			return nil, err
		}
		p.files = append(p.files, f)
		p.names = append(p.names, n)
	}
	if len(p.files) == 0 {
		return nil, fmt.Errorf("no Go files in %s", dir)
	}
	if sharedImporter == nil {
		sharedImporter = importer.ForCompiler(sharedFset, "source", nil)
	}
	conf := types.Config{Importer: sharedImporter,
		Error: func(e error) { p.errs = append(p.errs, e.Error()) }}
	p.info = &types.Info{Defs: map[*ast.Ident]types.Object{}, Uses: map[*ast.Ident]types.Object{},
		Types: map[ast.Expr]types.TypeAndValue{}}
	p.pkg, _ = conf.Check("ergo.services/ergo/"+rel, p.fset, p.files, p.info)
	return p, nil
}

func show(fset *token.FileSet, n ast.Node) string {
	var b bytes.Buffer
	printer.Fprint(&b, fset, n)
	return strings.Join(strings.Fields(b.String()), " ")
}

var coqReserved = map[string]bool{"end": true, "in": true, "at": true, "as": true, "fun": true, "let": true, "if": true,
	"then": true, "else": true, "match": true, "with": true, "return": true, "Type": true, "Prop": true, "Set": true,
	"fix": true, "cofix": true, "forall": true, "exists": true, "where": true, "using": true, "for": true}

func coqName(s string) string {
	if coqReserved[s] {
		return s + "_"
	}
	return s
}

func modName(rel string) string {
	return strings.ReplaceAll(strings.ReplaceAll(rel, "/", "_"), "-", "_")
}

// ---- expressions ------------------------------------------------------------------------------

type tr struct {
	p      *pkgInfo
	leaves []string
	bad    string
}

func (t *tr) leaf(e ast.Expr) string {
	s := show(t.p.fset, e)
	for i, l := range t.leaves {
		if l == s {
			return fmt.Sprintf("x%d", i+1)
		}
	}
	t.leaves = append(t.leaves, s)
	return fmt.Sprintf("x%d", len(t.leaves))
}

func intInfo(ty types.Type) (width int, signed bool, ok bool) {
	b, isb := ty.Underlying().(*types.Basic)
	if !isb {
		return 0, false, false
	}
	switch b.Kind() {
	case types.Int8:
		return 8, true, true
	case types.Int16:
		return 16, true, true
	case types.Int32:
		return 32, true, true
	case types.Int64, types.Int:
		return 64, true, true
	case types.Uint8:
		return 8, false, true
	case types.Uint16:
		return 16, false, true
	case types.Uint32:
		return 32, false, true
	case types.Uint64, types.Uint, types.Uintptr:
		return 64, false, true
	case types.UntypedInt, types.UntypedRune:
		return 0, true, true
	}
	return 0, false, false
}

func wrap(ty types.Type, s string) string {
	w, sg, ok := intInfo(ty)
	if !ok || w == 0 {
		return s
	}
	if sg {
		return fmt.Sprintf("(swrap %d %s)", w, s)
	}
	return fmt.Sprintf("(uwrap %d %s)", w, s)
}

func zlit(v constant.Value) (string, bool) {
	if v.Kind() != constant.Int {
		return "", false
	}
	s := v.ExactString()
	if strings.HasPrefix(s, "-") {
		return "(" + s + ")", true
	}
	return s, true
}

// integer expression -> Gallina term of type Z
func (t *tr) intExpr(e ast.Expr) string {
	tv, has := t.p.info.Types[e]
	if has && tv.Value != nil {
		if s, ok := zlit(tv.Value); ok {
			return s
		}
		t.bad = "non-integer constant " + show(t.p.fset, e)
		return "0"
	}
	switch x := e.(type) {
	case *ast.ParenExpr:
		return t.intExpr(x.X)
	case *ast.BinaryExpr:
		if !has {
			t.bad = "untyped " + show(t.p.fset, e)
			return "0"
		}
		if _, _, ok := intInfo(tv.Type); !ok {
			t.bad = "non-integer operation " + show(t.p.fset, e)
			return "0"
		}
		a, b := t.intExpr(x.X), t.intExpr(x.Y)
		_, sg, _ := intInfo(tv.Type)
		switch x.Op {
		case token.ADD:
			return wrap(tv.Type, fmt.Sprintf("(%s + %s)", a, b))
		case token.SUB:
			return wrap(tv.Type, fmt.Sprintf("(%s - %s)", a, b))
		case token.MUL:
			return wrap(tv.Type, fmt.Sprintf("(%s * %s)", a, b))
		case token.QUO:
			if sg {
				return wrap(tv.Type, fmt.Sprintf("(Z.quot %s %s)", a, b))
			}
			return fmt.Sprintf("(%s / %s)", a, b)
		case token.REM:
			if sg {
				return fmt.Sprintf("(Z.rem %s %s)", a, b)
			}
			return fmt.Sprintf("(%s mod %s)", a, b)
		case token.AND:
			return fmt.Sprintf("(Z.land %s %s)", a, b)
		case token.OR:
			return fmt.Sprintf("(Z.lor %s %s)", a, b)
		case token.XOR:
			return fmt.Sprintf("(Z.lxor %s %s)", a, b)
		case token.SHL:
			return wrap(tv.Type, fmt.Sprintf("(Z.shiftl %s %s)", a, b))
		case token.SHR:
			return fmt.Sprintf("(Z.shiftr %s %s)", a, b)
		case token.AND_NOT:
			return fmt.Sprintf("(Z.ldiff %s %s)", a, b)
		}
		t.bad = "operator " + x.Op.String()
		return "0"
	case *ast.UnaryExpr:
		if has {
			if _, _, ok := intInfo(tv.Type); ok {
				a := t.intExpr(x.X)
				switch x.Op {
				case token.SUB:
					return wrap(tv.Type, fmt.Sprintf("(- %s)", a))
				case token.ADD:
					return a
				case token.XOR:
					return wrap(tv.Type, fmt.Sprintf("(Z.lnot %s)", a))
				}
			}
		}
		t.bad = "unary " + show(t.p.fset, e)
		return "0"
	case *ast.CallExpr:
		// conversion between integer types: T(x)
		if ftv, ok := t.p.info.Types[x.Fun]; ok && ftv.IsType() && len(x.Args) == 1 {
			if _, _, ok := intInfo(ftv.Type); ok {
				if atv, ok := t.p.info.Types[x.Args[0]]; ok {
					if _, _, ok := intInfo(atv.Type); ok {
						return wrap(ftv.Type, t.intExpr(x.Args[0]))
					}
				}
			}
			t.bad = "conversion " + show(t.p.fset, e)
			return "0"
		}
	}
	// anything else of integer type is an opaque input of the formula
	if has {
		if _, _, ok := intInfo(tv.Type); ok {
			return t.leaf(e)
		}
	}
	t.bad = "not an integer: " + show(t.p.fset, e)
	return "0"
}

// boolean expression -> Gallina term of type bool
func (t *tr) boolExpr(e ast.Expr) string {
	switch x := e.(type) {
	case *ast.ParenExpr:
		return t.boolExpr(x.X)
	case *ast.UnaryExpr:
		if x.Op == token.NOT {
			return "(negb " + t.boolExpr(x.X) + ")"
		}
	case *ast.BinaryExpr:
		switch x.Op {
		case token.LAND:
			return fmt.Sprintf("(%s && %s)", t.boolExpr(x.X), t.boolExpr(x.Y))
		case token.LOR:
			return fmt.Sprintf("(%s || %s)", t.boolExpr(x.X), t.boolExpr(x.Y))
		case token.LSS, token.LEQ, token.GTR, token.GEQ, token.EQL, token.NEQ:
			tvx, ok := t.p.info.Types[x.X]
			if !ok {
				break
			}
			if _, _, isint := intInfo(tvx.Type); !isint {
				break
			}
			a, b := t.intExpr(x.X), t.intExpr(x.Y)
			switch x.Op {
			case token.LSS:
				return fmt.Sprintf("(%s <? %s)", a, b)
			case token.LEQ:
				return fmt.Sprintf("(%s <=? %s)", a, b)
			case token.GTR:
				return fmt.Sprintf("(%s >? %s)", a, b)
			case token.GEQ:
				return fmt.Sprintf("(%s >=? %s)", a, b)
			case token.EQL:
				return fmt.Sprintf("(%s =? %s)", a, b)
			case token.NEQ:
				return fmt.Sprintf("(negb (%s =? %s))", a, b)
			}
		}
	}
	t.bad = "not an integer comparison: " + show(t.p.fset, e)
	return "false"
}

// ---- sites --------------------------------------------------------------------------------------

type found struct {
	loc    string
	leaves []string
	term   string
	bad    string
}

func collect(p *pkgInfo, s Site) []found {
	var out []found
	re := regexp.MustCompile(s.Re)
	var fre *regexp.Regexp
	if s.Func != "" {
		fre = regexp.MustCompile("^(" + s.Func + ")$")
	}
	for i, f := range p.files {
		if s.File != "" && p.names[i] != s.File {
			continue
		}
		for _, d := range f.Decls {
			fd, ok := d.(*ast.FuncDecl)
			if !ok || fd.Body == nil {
				continue
			}
			if fre != nil && !fre.MatchString(fd.Name.Name) {
				continue
			}
			ast.Inspect(fd.Body, func(n ast.Node) bool {
				switch st := n.(type) {
				case *ast.AssignStmt:
					if s.Kind != "assign" || len(st.Lhs) != len(st.Rhs) {
						return true
					}
					for k, l := range st.Lhs {
						if !re.MatchString(show(p.fset, l)) {
							continue
						}
						t := &tr{p: p}
						term := t.intExpr(st.Rhs[k])
						pos := p.fset.Position(st.Pos())
						out = append(out, found{fmt.Sprintf("%s %s: %s", p.names[i], fd.Name.Name, show(p.fset, st)), t.leaves, term, t.bad})
						_ = pos
					}
				case *ast.IfStmt:
					if s.Kind == "cond" && re.MatchString(show(p.fset, st.Cond)) {
						t := &tr{p: p}
						term := t.boolExpr(st.Cond)
						out = append(out, found{fmt.Sprintf("%s %s: if %s", p.names[i], fd.Name.Name, show(p.fset, st.Cond)), t.leaves, term, t.bad})
					}
				case *ast.ForStmt:
					if s.Kind == "cond" && st.Cond != nil && re.MatchString(show(p.fset, st.Cond)) {
						t := &tr{p: p}
						term := t.boolExpr(st.Cond)
						out = append(out, found{fmt.Sprintf("%s %s: for %s", p.names[i], fd.Name.Name, show(p.fset, st.Cond)), t.leaves, term, t.bad})
					}
				}
				return true
			})
		}
	}
	return out
}

// switch statements over an integer tag: per case clause the constant case values ([] = default) and the
// last selector of the right-hand side assigned, inside the clause, to a variable matching the site's
// second regexp (e.g. `switch options.Priority { case High: queue = p.mailbox.System ... }` -> ([1], "System"))
type switchRow struct {
	vals []string
	sel  string
}
type switchTab struct {
	loc  string
	rows []switchRow
}

func collectSwitch(p *pkgInfo, s Site) []switchTab {
	var out []switchTab
	re := regexp.MustCompile(s.Re)
	re2 := regexp.MustCompile(s.Re2)
	var fre *regexp.Regexp
	if s.Func != "" {
		fre = regexp.MustCompile("^(" + s.Func + ")$")
	}
	for i, f := range p.files {
		if s.File != "" && p.names[i] != s.File {
			continue
		}
		for _, d := range f.Decls {
			fd, ok := d.(*ast.FuncDecl)
			if !ok || fd.Body == nil {
				continue
			}
			if fre != nil && !fre.MatchString(fd.Name.Name) {
				continue
			}
			ast.Inspect(fd.Body, func(n ast.Node) bool {
				sw, ok := n.(*ast.SwitchStmt)
				if !ok || sw.Tag == nil || !re.MatchString(show(p.fset, sw.Tag)) {
					return true
				}
				tab := switchTab{loc: fmt.Sprintf("%s %s: switch %s", p.names[i], fd.Name.Name, show(p.fset, sw.Tag))}
				assigned := false
				for _, cl := range sw.Body.List {
					cc := cl.(*ast.CaseClause)
					row := switchRow{sel: "-"}
					for _, e := range cc.List {
						v := "None"
						if tv, ok := p.info.Types[e]; ok && tv.Value != nil {
							if z, ok := zlit(tv.Value); ok {
								v = "Some " + z
							}
						}
						row.vals = append(row.vals, v)
					}
					for _, st := range cc.Body {
						as, ok := st.(*ast.AssignStmt)
						if !ok || len(as.Lhs) != 1 || len(as.Rhs) != 1 || !re2.MatchString(show(p.fset, as.Lhs[0])) {
							continue
						}
						r := show(p.fset, as.Rhs[0])
						if k := strings.LastIndex(r, "."); k >= 0 {
							r = r[k+1:]
						}
						row.sel = r
						assigned = true
					}
					tab.rows = append(tab.rows, row)
				}
				if assigned {
					out = append(out, tab)
				}
				return true
			})
		}
	}
	return out
}

type atomicOp struct {
	loc, fn, op string
	args        []string
}

// calls atomic.<Op>(&x.state, consts...) whose first argument matches the site's regexp
func collectAtomic(p *pkgInfo, s Site) []atomicOp {
	var out []atomicOp
	re := regexp.MustCompile(s.Re)
	var fre *regexp.Regexp
	if s.Func != "" {
		fre = regexp.MustCompile("^(" + s.Func + ")$")
	}
	for i, f := range p.files {
		if s.File != "" && p.names[i] != s.File {
			continue
		}
		for _, d := range f.Decls {
			fd, ok := d.(*ast.FuncDecl)
			if !ok || fd.Body == nil {
				continue
			}
			if fre != nil && !fre.MatchString(fd.Name.Name) {
				continue
			}
			ast.Inspect(fd.Body, func(n ast.Node) bool {
				ce, ok := n.(*ast.CallExpr)
				if !ok || len(ce.Args) == 0 {
					return true
				}
				se, ok := ce.Fun.(*ast.SelectorExpr)
				if !ok {
					return true
				}
				id, ok := se.X.(*ast.Ident)
				if !ok || id.Name != "atomic" || !re.MatchString(show(p.fset, ce.Args[0])) {
					return true
				}
				op := atomicOp{loc: fmt.Sprintf("%s %s: %s", p.names[i], fd.Name.Name, show(p.fset, ce)), fn: fd.Name.Name, op: se.Sel.Name}
				for _, a := range ce.Args[1:] {
					if tv, ok := p.info.Types[a]; ok && tv.Value != nil {
						if z, ok := zlit(tv.Value); ok {
							op.args = append(op.args, "Some "+z)
							continue
						}
					}
					op.args = append(op.args, "None")
				}
				out = append(out, op)
				return true
			})
		}
	}
	return out
}

// site kind "literal": every composite literal whose type (as written) matches Re, in the functions matching Func:
// the fields it sets, each with the source text of its value (in source order)
type litSite struct {
	loc    string
	fields [][2]string
}

func collectLiteral(p *pkgInfo, s Site) []litSite {
	var out []litSite
	re := regexp.MustCompile(s.Re)
	var fre *regexp.Regexp
	if s.Func != "" {
		fre = regexp.MustCompile("^(" + s.Func + ")$")
	}
	for i, f := range p.files {
		if s.File != "" && p.names[i] != s.File {
			continue
		}
		for _, d := range f.Decls {
			fd, ok := d.(*ast.FuncDecl)
			if !ok || fd.Body == nil {
				continue
			}
			if fre != nil && !fre.MatchString(fd.Name.Name) {
				continue
			}
			ast.Inspect(fd.Body, func(n ast.Node) bool {
				cl, ok := n.(*ast.CompositeLit)
				if !ok || cl.Type == nil || !re.MatchString(show(p.fset, cl.Type)) {
					return true
				}
				ls := litSite{loc: fmt.Sprintf("%s %s", p.names[i], fd.Name.Name)}
				for _, e := range cl.Elts {
					if kv, ok := e.(*ast.KeyValueExpr); ok {
						ls.fields = append(ls.fields, [2]string{show(p.fset, kv.Key), show(p.fset, kv.Value)})
					} else {
						ls.fields = append(ls.fields, [2]string{"", show(p.fset, e)})
					}
				}
				out = append(out, ls)
				return true
			})
		}
	}
	return out
}

func coqStr(s string) string { return "\"" + strings.ReplaceAll(s, "\"", "\"\"") + "\"" }

func coqStrList(l []string) string {
	q := make([]string, len(l))
	for i, s := range l {
		q[i] = coqStr(s)
	}
	return "[" + strings.Join(q, "; ") + "]"
}

const maxArity = 4

func main() {
	if len(os.Args) != 4 {
		fmt.Fprintln(os.Stderr, "usage: vtranslate <repo> <sites.json> <outdir>")
		os.Exit(2)
	}
	repo, outdir := os.Args[1], os.Args[3]
	var spec Spec
	raw, err := os.ReadFile(os.Args[2])
	if err != nil {
		panic(err)
	}
	if err := json.Unmarshal(raw, &spec); err != nil {
		panic(err)
	}
	os.MkdirAll(outdir, 0o755)
	pkgs := map[string]*pkgInfo{}
	get := func(rel string) *pkgInfo {
		if p, ok := pkgs[rel]; ok {
			return p
		}
		p, err := load(repo, rel)
		if err != nil {
			fmt.Fprintln(os.Stderr, "vtranslate:", err)
			os.Exit(1)
		}
		pkgs[rel] = p
		return p
	}
	report := map[string]any{}

	// ---- constants
	var b strings.Builder
	b.WriteString("(* GENERATED by /verif/go/translate from the Go source of the tree under test - do not edit *)\n")
	b.WriteString("From Coq Require Import ZArith.\nLocal Open Scope Z_scope.\n\n")
	nconst := 0
	for _, rel := range spec.Packages {
		p := get(rel)
		fmt.Fprintf(&b, "Module %s.\n", modName(rel))
		names := p.pkg.Scope().Names()
		sort.Strings(names)
		for _, nm := range names {
			c, ok := p.pkg.Scope().Lookup(nm).(*types.Const)
			if !ok || nm == "_" {
				continue
			}
			if s, ok := zlit(c.Val()); ok {
				fmt.Fprintf(&b, "  Definition %s : Z := %s.\n", coqName(nm), s)
				nconst++
			}
		}
		fmt.Fprintf(&b, "End %s.\n\n", modName(rel))
	}
	if err := os.WriteFile(filepath.Join(outdir, "Consts.v"), []byte(b.String()), 0o644); err != nil {
		panic(err)
	}
	report["constants"] = nconst

	// ---- expression sites
	b.Reset()
	b.WriteString("(* GENERATED by /verif/go/translate from the Go source of the tree under test - do not edit *)\n")
	b.WriteString("From Coq Require Import ZArith List String Bool.\nFrom Ergo Require Import Common.GoInt.\nImport ListNotations.\nLocal Open Scope string_scope.\nLocal Open Scope bool_scope.\nLocal Open Scope Z_scope.\n\n")
	nsites := 0
	sitesReport := map[string]int{}
	for _, s := range spec.Sites {
		p := get(s.Pkg)
		if s.Kind == "func" {
			fmt.Fprintf(&b, "(* site %s: whole function %s of %s *)\n%s\n", s.Name, s.Func, s.Pkg, translateFunc(p, s))
			sitesReport[s.Name] = 1
			nsites++
			continue
		}
		if s.Kind == "switch" {
			tabs := collectSwitch(p, s)
			sitesReport[s.Name] = len(tabs)
			nsites += len(tabs)
			fmt.Fprintf(&b, "(* site %s: switch /%s/ assigning /%s/ in %s %s %s *)\n", s.Name, s.Re, s.Re2, s.Pkg, s.File, s.Func)
			fmt.Fprintf(&b, "Definition %s_tabs : list (string * list (list (option Z) * string)) := [", s.Name)
			for i, t := range tabs {
				if i > 0 {
					b.WriteString(";")
				}
				var rows []string
				for _, r := range t.rows {
					rows = append(rows, fmt.Sprintf("([%s], %s)", strings.Join(r.vals, "; "), coqStr(r.sel)))
				}
				fmt.Fprintf(&b, "\n  (%s, [%s])", coqStr(t.loc), strings.Join(rows, "; "))
			}
			b.WriteString("].\n\n")
			continue
		}
		if s.Kind == "literal" {
			lits := collectLiteral(p, s)
			sitesReport[s.Name] = len(lits)
			nsites += len(lits)
			fmt.Fprintf(&b, "(* site %s: composite literals of type /%s/ in %s %s %s *)\n", s.Name, s.Re, s.Pkg, s.File, s.Func)
			fmt.Fprintf(&b, "Definition %s_lits : list (string * list (string * string)) := [", s.Name)
			for i, l := range lits {
				if i > 0 {
					b.WriteString(";")
				}
				var fl []string
				for _, kv := range l.fields {
					fl = append(fl, fmt.Sprintf("(%s, %s)", coqStr(kv[0]), coqStr(kv[1])))
				}
				fmt.Fprintf(&b, "\n  (%s, [%s])", coqStr(l.loc), strings.Join(fl, "; "))
			}
			b.WriteString("].\n\n")
			continue
		}
		if s.Kind == "atomic" {
			ops := collectAtomic(p, s)
			sitesReport[s.Name] = len(ops)
			nsites += len(ops)
			fmt.Fprintf(&b, "(* site %s: atomic operations on /%s/ in %s %s %s *)\n", s.Name, s.Re, s.Pkg, s.File, s.Func)
			fmt.Fprintf(&b, "Definition %s_ops : list (string * string * string * list (option Z)) := [", s.Name)
			for i, o := range ops {
				if i > 0 {
					b.WriteString(";")
				}
				fmt.Fprintf(&b, "\n  (%s, %s, %s, [%s])", coqStr(o.loc), coqStr(o.fn), coqStr(o.op), strings.Join(o.args, "; "))
			}
			b.WriteString("].\n\n")
			continue
		}
		fs := collect(p, s)
		sitesReport[s.Name] = len(fs)
		nsites += len(fs)
		res := "Z"
		if s.Kind == "cond" {
			res = "bool"
		}
		by := make([][]found, maxArity+1)
		var other []string
		for _, f := range fs {
			if f.bad != "" || len(f.leaves) > maxArity {
				other = append(other, f.loc+" ["+f.bad+"]")
				continue
			}
			by[len(f.leaves)] = append(by[len(f.leaves)], f)
		}
		fmt.Fprintf(&b, "(* site %s: %s %s /%s/ in %s %s %s *)\n", s.Name, s.Kind, res, s.Re, s.Pkg, s.File, s.Func)
		for k := 0; k <= maxArity; k++ {
			ty := res
			for i := 0; i < k; i++ {
				ty = "Z -> " + ty
			}
			fmt.Fprintf(&b, "Definition %s_%d : list (string * list string * (%s)) := [", s.Name, k, ty)
			for i, f := range by[k] {
				if i > 0 {
					b.WriteString(";")
				}
				lam := f.term
				if k > 0 {
					var xs []string
					for j := 1; j <= k; j++ {
						xs = append(xs, fmt.Sprintf("x%d", j))
					}
					lam = "fun " + strings.Join(xs, " ") + " : Z => " + f.term
				}
				fmt.Fprintf(&b, "\n  (%s, %s, (%s))", coqStr(f.loc), coqStrList(f.leaves), lam)
			}
			b.WriteString("].\n")
		}
		fmt.Fprintf(&b, "Definition %s_other : list string := %s.\n\n", s.Name, coqStrList(other))
	}
	if err := os.WriteFile(filepath.Join(outdir, "Exprs.v"), []byte(b.String()), 0o644); err != nil {
		panic(err)
	}
	report["sites"] = sitesReport
	report["site_occurrences"] = nsites
	terrs := 0
	for _, p := range pkgs {
		terrs += len(p.errs)
	}
	report["type_errors"] = terrs
	js, _ := json.MarshalIndent(report, "", " ")
	os.WriteFile(filepath.Join(outdir, "report.json"), js, 0o644)
	fmt.Println(string(js))
}
