module vtranslate

go 1.23
