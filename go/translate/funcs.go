package main

// Function-level translation (site kind "func"): a whole Go function of a small imperative subset is
// translated, statement by statement, into a Gallina function.
//
//   types        integers (Z, wrap-around of the Go type written out), bool, slices of integers (list Z)
//   expressions  integer arithmetic / comparisons / && || ! as in the expression translator; len(s);
//                s[i]; s[i:]; append(s, x...); calls listed in the site's "oracles" become extra parameters
//                (e.g. time.Now().UnixMilli() -> now)
//   statements   x := e, x = e, if c { .. } [else { .. }], for c { .. } (no break / continue),
//                return e1, .., en
//
// Control flow is translated in continuation style: the translation of a statement list is a term for
// "the result of running these statements and then the rest". A `for` loop becomes a top-level Fixpoint
// on an explicit fuel argument over the tuple of the variables its body assigns; with fuel exhausted
// the loop stops where it is (the tie theorems give enough fuel and prove it is enough).
// Anything outside the subset makes the translation fail loudly (the generated file then contains
// `unsupported : string` instead of the function and the tie no longer checks).

import (
	"fmt"
	"go/ast"
	"go/token"
	"go/types"
	"sort"
	"strings"
)

type ftr struct {
	p       *pkgInfo
	name    string
	oracles map[string]string // printed Go expression -> parameter name
	used    map[string]bool   // oracle parameters actually used
	loops   []string          // generated Fixpoints
	nloop   int
	bad     string
	locals  map[string]types.Type
}

func (t *ftr) fail(msg string) string {
	if t.bad == "" {
		t.bad = msg
	}
	return "0"
}

func isIntSlice(ty types.Type) bool {
	s, ok := ty.Underlying().(*types.Slice)
	if !ok {
		return false
	}
	_, _, ok = intInfo(s.Elem())
	return ok
}

func (t *ftr) coqType(ty types.Type) string {
	if _, _, ok := intInfo(ty); ok {
		return "Z"
	}
	if isIntSlice(ty) {
		return "list Z"
	}
	if b, ok := ty.Underlying().(*types.Basic); ok && b.Kind() == types.Bool {
		return "bool"
	}
	t.fail("unsupported type " + ty.String())
	return "Z"
}

func (t *ftr) expr(e ast.Expr) string {
	if s, ok := t.oracles[show(t.p.fset, e)]; ok {
		t.used[s] = true
		return s
	}
	tv, has := t.p.info.Types[e]
	if has && tv.Value != nil {
		if s, ok := zlit(tv.Value); ok {
			return s
		}
		if tv.Value.String() == "true" || tv.Value.String() == "false" {
			return tv.Value.String()
		}
	}
	switch x := e.(type) {
	case *ast.ParenExpr:
		return t.expr(x.X)
	case *ast.Ident:
		if x.Name == "true" || x.Name == "false" {
			return x.Name
		}
		return coqName(x.Name)
	case *ast.BinaryExpr:
		switch x.Op {
		case token.LAND:
			return fmt.Sprintf("(%s && %s)", t.expr(x.X), t.expr(x.Y))
		case token.LOR:
			return fmt.Sprintf("(%s || %s)", t.expr(x.X), t.expr(x.Y))
		case token.LSS, token.LEQ, token.GTR, token.GEQ, token.EQL, token.NEQ:
			a, b := t.expr(x.X), t.expr(x.Y)
			if xt, ok := t.p.info.Types[x.X]; !ok {
				return t.fail("untyped comparison")
			} else if _, _, isint := intInfo(xt.Type); !isint {
				return t.fail("comparison of non-integers: " + show(t.p.fset, e))
			}
			op := map[token.Token]string{token.LSS: "<?", token.LEQ: "<=?", token.GTR: ">?", token.GEQ: ">=?", token.EQL: "=?"}[x.Op]
			if x.Op == token.NEQ {
				return fmt.Sprintf("(negb (%s =? %s))", a, b)
			}
			return fmt.Sprintf("(%s %s %s)", a, op, b)
		}
		if !has {
			return t.fail("untyped " + show(t.p.fset, e))
		}
		a, b := t.expr(x.X), t.expr(x.Y)
		_, sg, ok := intInfo(tv.Type)
		if !ok {
			return t.fail("non-integer operation " + show(t.p.fset, e))
		}
		switch x.Op {
		case token.ADD:
			return wrap(tv.Type, fmt.Sprintf("(%s + %s)", a, b))
		case token.SUB:
			return wrap(tv.Type, fmt.Sprintf("(%s - %s)", a, b))
		case token.MUL:
			return wrap(tv.Type, fmt.Sprintf("(%s * %s)", a, b))
		case token.QUO:
			if sg {
				return wrap(tv.Type, fmt.Sprintf("(Z.quot %s %s)", a, b))
			}
			return fmt.Sprintf("(%s / %s)", a, b)
		case token.REM:
			if sg {
				return fmt.Sprintf("(Z.rem %s %s)", a, b)
			}
			return fmt.Sprintf("(%s mod %s)", a, b)
		}
		return t.fail("operator " + x.Op.String())
	case *ast.UnaryExpr:
		if x.Op == token.NOT {
			return "(negb " + t.expr(x.X) + ")"
		}
		if x.Op == token.SUB && has {
			return wrap(tv.Type, "(- "+t.expr(x.X)+")")
		}
	case *ast.IndexExpr:
		if xt, ok := t.p.info.Types[x.X]; ok && isIntSlice(xt.Type) {
			return fmt.Sprintf("(nth (Z.to_nat %s) %s 0)", t.expr(x.Index), t.expr(x.X))
		}
	case *ast.SliceExpr:
		if xt, ok := t.p.info.Types[x.X]; ok && isIntSlice(xt.Type) && x.High == nil && x.Max == nil && x.Low != nil {
			return fmt.Sprintf("(skipn (Z.to_nat %s) %s)", t.expr(x.Low), t.expr(x.X))
		}
	case *ast.CallExpr:
		if id, ok := x.Fun.(*ast.Ident); ok {
			switch id.Name {
			case "len":
				if len(x.Args) == 1 {
					return fmt.Sprintf("(Z.of_nat (List.length %s))", t.expr(x.Args[0]))
				}
			case "append":
				if len(x.Args) >= 1 && x.Ellipsis == token.NoPos {
					var els []string
					for _, a := range x.Args[1:] {
						els = append(els, t.expr(a))
					}
					return fmt.Sprintf("(app %s [%s])", t.expr(x.Args[0]), strings.Join(els, "; "))
				}
			}
		}
		if ftv, ok := t.p.info.Types[x.Fun]; ok && ftv.IsType() && len(x.Args) == 1 {
			if _, _, ok := intInfo(ftv.Type); ok {
				return wrap(ftv.Type, t.expr(x.Args[0]))
			}
		}
	}
	return t.fail("unsupported expression " + show(t.p.fset, e))
}

// variables assigned (with = or :=) anywhere in the statements
func assigned(stmts []ast.Stmt, into map[string]bool) {
	for _, s := range stmts {
		ast.Inspect(s, func(n ast.Node) bool {
			if as, ok := n.(*ast.AssignStmt); ok {
				for _, l := range as.Lhs {
					if id, ok := l.(*ast.Ident); ok && id.Name != "_" {
						into[id.Name] = true
					}
				}
			}
			return true
		})
	}
}

func returns(stmts []ast.Stmt) bool {
	if len(stmts) == 0 {
		return false
	}
	switch s := stmts[len(stmts)-1].(type) {
	case *ast.ReturnStmt:
		return true
	case *ast.IfStmt:
		if s.Else == nil {
			return false
		}
		eb, ok := s.Else.(*ast.BlockStmt)
		return ok && returns(s.Body.List) && returns(eb.List)
	}
	return false
}

func tuple(vs []string) string {
	if len(vs) == 1 {
		return vs[0]
	}
	return "(" + strings.Join(vs, ", ") + ")"
}

func pattern(vs []string) string {
	if len(vs) == 1 {
		return vs[0]
	}
	return "'(" + strings.Join(vs, ", ") + ")"
}

// stmts: the term for "run stmts, then k" where k is the continuation term (already translated; it may
// mention any variable in scope). inLoop != nil: falling off the end yields the tuple of the loop variables.
func (t *ftr) stmts(list []ast.Stmt, k func() string, scope map[string]bool) string {
	if len(list) == 0 {
		return k()
	}
	rest := func() string { return t.stmts(list[1:], k, scope) }
	switch s := list[0].(type) {
	case *ast.AssignStmt:
		if len(s.Lhs) != len(s.Rhs) {
			return t.fail("multi-value assignment " + show(t.p.fset, s))
		}
		out := ""
		var binds []string
		for i, l := range s.Lhs {
			id, ok := l.(*ast.Ident)
			if !ok {
				return t.fail("assignment to " + show(t.p.fset, l))
			}
			binds = append(binds, fmt.Sprintf("let %s := %s in ", coqName(id.Name), t.expr(s.Rhs[i])))
			scope[id.Name] = true
		}
		out = strings.Join(binds, "")
		return out + "\n  " + rest()
	case *ast.ReturnStmt:
		var rs []string
		for _, r := range s.Results {
			rs = append(rs, t.expr(r))
		}
		return tuple(rs)
	case *ast.IfStmt:
		if s.Init != nil {
			return t.fail("if with init statement")
		}
		c := t.expr(s.Cond)
		var elseL []ast.Stmt
		if s.Else != nil {
			eb, ok := s.Else.(*ast.BlockStmt)
			if !ok {
				return t.fail("else if")
			}
			elseL = eb.List
		}
		if returns(s.Body.List) && (s.Else == nil || returns(elseL)) {
			// the branch leaves the function: no merge needed
			thenT := t.stmts(s.Body.List, func() string { return t.fail("unreachable") }, copyScope(scope))
			var elseT string
			if s.Else != nil {
				elseT = t.stmts(elseL, func() string { return t.fail("unreachable") }, copyScope(scope))
				return fmt.Sprintf("(if %s then %s\n  else %s)", c, thenT, elseT)
			}
			return fmt.Sprintf("(if %s then %s\n  else %s)", c, thenT, rest())
		}
		// both branches fall through: merge the variables they assign (that are in scope afterwards)
		mod := map[string]bool{}
		assigned(s.Body.List, mod)
		assigned(elseL, mod)
		var vs []string
		for v := range mod {
			if scope[v] {
				vs = append(vs, coqName(v))
			}
		}
		sort.Strings(vs)
		if len(vs) == 0 {
			return rest()
		}
		thenT := t.stmts(s.Body.List, func() string { return tuple(vs) }, copyScope(scope))
		elseT := t.stmts(elseL, func() string { return tuple(vs) }, copyScope(scope))
		return fmt.Sprintf("let %s := (if %s then %s else %s) in\n  %s", pattern(vs), c, thenT, elseT, rest())
	case *ast.ForStmt:
		if s.Init != nil || s.Post != nil || s.Cond == nil {
			return t.fail("only `for cond { }` loops")
		}
		bad := false
		ast.Inspect(s.Body, func(n ast.Node) bool {
			switch n.(type) {
			case *ast.BranchStmt, *ast.ReturnStmt:
				bad = true
			}
			return true
		})
		if bad {
			return t.fail("break / continue / return inside a loop")
		}
		mod := map[string]bool{}
		assigned(s.Body.List, mod)
		var vs []string
		for v := range mod {
			if scope[v] {
				vs = append(vs, v)
			}
		}
		sort.Strings(vs)
		// free variables read by the loop that it does not assign: extra (constant) parameters
		free := map[string]bool{}
		ast.Inspect(s, func(n ast.Node) bool {
			if id, ok := n.(*ast.Ident); ok && scope[id.Name] && !mod[id.Name] {
				free[id.Name] = true
			}
			return true
		})
		var fs []string
		for v := range free {
			fs = append(fs, v)
		}
		sort.Strings(fs)
		t.nloop++
		lname := fmt.Sprintf("%s_loop%d", t.name, t.nloop)
		var params, args []string
		for _, v := range append(append([]string{}, fs...), vs...) {
			ty := t.coqType(t.locals[v])
			params = append(params, fmt.Sprintf("(%s : %s)", coqName(v), ty))
			args = append(args, coqName(v))
		}
		var cvs []string
		for _, v := range vs {
			cvs = append(cvs, coqName(v))
		}
		for oname := range t.oraclesUsedIn(s) {
			params = append([]string{fmt.Sprintf("(%s : Z)", oname)}, params...)
			args = append([]string{oname}, args...)
		}
		body := t.stmts(s.Body.List, func() string { return fmt.Sprintf("%s fuel' %s", lname, strings.Join(args, " ")) }, copyScope(scope))
		loop := fmt.Sprintf("Fixpoint %s (fuel : nat) %s {struct fuel} :=\n  match fuel with\n  | O => %s\n  | S fuel' =>\n    if %s then\n      %s\n    else %s\n  end.\n",
			lname, strings.Join(params, " "), tuple(cvs), t.expr(s.Cond), body, tuple(cvs))
		t.loops = append(t.loops, loop)
		return fmt.Sprintf("let %s := %s fuel %s in\n  %s", pattern(cvs), lname, strings.Join(args, " "), rest())
	case *ast.ExprStmt, *ast.DeclStmt:
		return t.fail("unsupported statement " + show(t.p.fset, s))
	}
	return t.fail("unsupported statement " + show(t.p.fset, list[0]))
}

func (t *ftr) oraclesUsedIn(n ast.Node) map[string]bool {
	out := map[string]bool{}
	ast.Inspect(n, func(m ast.Node) bool {
		if e, ok := m.(ast.Expr); ok {
			if s, ok := t.oracles[show(t.p.fset, e)]; ok {
				out[s] = true
				return false
			}
		}
		return true
	})
	return out
}

func copyScope(s map[string]bool) map[string]bool {
	c := map[string]bool{}
	for k, v := range s {
		c[k] = v
	}
	return c
}

// translateFunc returns the Gallina text for the function (Fixpoints of its loops first).
func translateFunc(p *pkgInfo, s Site) string {
	var fd *ast.FuncDecl
	for _, f := range p.files {
		for _, d := range f.Decls {
			if x, ok := d.(*ast.FuncDecl); ok && x.Name.Name == s.Func && x.Body != nil {
				fd = x
			}
		}
	}
	if fd == nil {
		return fmt.Sprintf("Definition %s_unsupported : string := %s.\n", s.Name, coqStr("function "+s.Func+" not found"))
	}
	t := &ftr{p: p, name: s.Name, oracles: s.Oracles, used: map[string]bool{}, locals: map[string]types.Type{}}
	// types of all local variables and parameters
	ast.Inspect(fd, func(n ast.Node) bool {
		if id, ok := n.(*ast.Ident); ok {
			if o := p.info.Defs[id]; o != nil {
				if v, ok := o.(*types.Var); ok {
					t.locals[id.Name] = v.Type()
				}
			}
		}
		return true
	})
	scope := map[string]bool{}
	var params []string
	for _, f := range fd.Type.Params.List {
		for _, n := range f.Names {
			scope[n.Name] = true
			params = append(params, fmt.Sprintf("(%s : %s)", coqName(n.Name), t.coqType(t.locals[n.Name])))
		}
	}
	// every local counts as "in scope" for the merge / loop-variable computation once it is declared:
	// Go scoping of := inside blocks is ignored (shadowing inside a block is outside the subset)
	body := t.stmts(fd.Body.List, func() string { return t.fail("function falls off its end") }, scope)
	var onames []string
	for _, o := range s.Oracles {
		onames = append(onames, o)
	}
	sort.Strings(onames)
	var oparams []string
	for _, o := range onames {
		oparams = append(oparams, fmt.Sprintf("(%s : Z)", o))
	}
	if t.bad != "" {
		return fmt.Sprintf("Definition %s_unsupported : string := %s.\n", s.Name, coqStr(t.bad))
	}
	src := show(p.fset, fd.Type)
	out := fmt.Sprintf("(* func %s %s   [%s]; oracles: %v *)\n", s.Func, src, s.Pkg, s.Oracles)
	out += strings.Join(t.loops, "\n")
	out += fmt.Sprintf("Definition %s (fuel : nat) %s %s :=\n  %s.\n", s.Name, strings.Join(oparams, " "), strings.Join(params, " "), body)
	return out
}
