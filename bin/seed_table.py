#!/usr/bin/env python3
"""Writes seeded/README.md from seeded/*/meta.json."""
import glob, json, os
V = os.path.dirname(os.path.dirname(os.path.abspath(__file__)))
rows = []
for f in sorted(glob.glob(os.path.join(V, "seeded", "*", "meta.json"))):
    m = json.load(open(f))
    sid = os.path.basename(os.path.dirname(f))
    res = m.get("checks_against_change", {})
    caught = []
    for c, r in res.items():
        kind = "concrete failing input" if any(l.startswith("VIOLATION") and "no-failing-input-found" not in l for l in r["lines"]) else \
               ("no-failing-input-found" if r["rc"] != 0 else "MISSED")
        caught.append("%s: %s" % (c, kind))
    conf = m.get("confirmed", {})
    d1 = conf.get("demo_with_change", {}).get("rc")
    d0 = conf.get("demo_without_change", {}).get("rc")
    rows.append("| %s | %s | %s | %s | demo fails with change: %s, passes without: %s | %s |" % (
        sid, m.get("property"), (m.get("summary") or "").replace("|", "/")[:260], (m.get("needs") or "").replace("|", "/")[:260],
        d1 not in (0, None), d0 == 0, "; ".join(caught)))
with open(os.path.join(V, "seeded", "README.md"), "w") as f:
    f.write("# Independently produced property-breaking changes\n\n"
            "Each was written by a fresh sub-agent that saw only the property text and a scratch worktree of /repo (nothing from /verif),\n"
            "then confirmed by `bin/seed_confirm.py`: the patch is re-based on /repo's HEAD in a scratch worktree, the author's demonstration\n"
            "must fail with the change and pass without it, and the property's quick check is run with `VERIF_REPO=<worktree>`.\n"
            "`patch.diff`, the demonstration, `meta.json` (what it needs to manifest, what was run) and the replay written by the check are in each directory.\n"
            "Checks that first missed a change were strengthened (see the notes column / DESIGN.md section 9).\n\n"
            "| seed | property | change | needs | confirmation | caught by |\n|---|---|---|---|---|---|\n" + "\n".join(rows) + "\n")
print(len(rows), "seeds")
