#!/usr/bin/env python3
"""seed_prompt.py <wave> <Cxx>: writes seeded/_prompts/Cxx_<wave>.txt (the text given to a fresh
sub-agent) and prints its path. The agent sees the property text, its own worktree and the list of
sites earlier seeds used - nothing from /verif."""
import json, os, sys, glob, re
V = os.path.dirname(os.path.dirname(os.path.abspath(__file__)))
wave, pid = sys.argv[1], sys.argv[2]
props = {}
for l in open(os.path.join(V, "properties.jsonl")):
    p = json.loads(l); props[p["id"]] = p
p = props[pid]
wt = "/tmp/seed%s_%s" % (wave, pid)
used = []
for d in sorted(glob.glob(os.path.join(V, "seeded", pid + "-*"))):
    try:
        m = json.load(open(os.path.join(d, "meta.json")))
    except Exception:
        continue
    files = ", ".join(m.get("files") or [])
    used.append("   - %s - %s" % (files, (m.get("summary") or "")[:260].replace("\n", " ")))
anchors = p["anchors"]["files"]
quant = p["quantifier"]["text"]
txt = """You are given a Go repository: a git worktree of ergo-services/ergo (an Erlang/OTP-style actor framework: process runtime with mailboxes, links/monitors, supervisors, its own EDF codec, handshake and inter-node protocol) at %(wt)s (Go 1.23, no network: `export GOFLAGS=-mod=mod GOPROXY=off GOSUMDB=off GOTOOLCHAIN=local` in every shell). Work ONLY inside %(wt)s (and scratch files under %(wt)s_scratch if needed). Do NOT look at or use anything under /verif, and do not touch /repo itself.

Here is a semantic property that the framework is supposed to satisfy:

  %(id)s - %(title)s
  %(stmt)s
  (quantified over: %(quant)s)
  Code anchors: %(anch)s

Your task: produce ONE realistic change to the framework's NON-test source code (a plausible bug a maintainer could introduce: a wrong condition, a reordered pair of operations, an off-by-one, a dropped check, a mishandled case in one of several branches, two sites that each look fine alone ...) that BREAKS this property while the code still compiles and the repository's existing tests still pass. The breakage must need something specific to manifest - a particular interleaving, a crash or fault at a particular point, a multi-step sequence of operations, an unusual input/boundary value, or two cooperating sites - NOT something ordinary use exposes at once. Other contributors have already proposed changes at these sites (do not reuse any of them, nor a close variant of the same idea):
%(used)s
 Pick a different site and a different kind of fault. Look well beyond the first ideas that come to mind: the less obvious functions and branches of the anchored code and of the code it relies on (error paths, rarely taken cases, helper functions, the interplay of two functions, options that are rarely switched on, remote / networked variants of a local path, behaviour under resource limits, behaviour after a restart or re-registration). Do not touch files whose name starts with verif_ or contains the build tag `verif`, do not remove `lib.VerifPoint(...)` lines (they are no-op instrumentation), do not edit tests.

Deliver, inside %(wt)s:
 1. the change itself, left uncommitted in the worktree, and saved as a unified diff in %(wt)s/SEED_patch.diff (`git diff > SEED_patch.diff` from the worktree root, excluding the SEED_* files);
 2. a demonstration %(wt)s/SEED_demo_test.go placed in a suitable package directory of the worktree (or a small `package main` program under %(wt)s/SEED_demo/), that FAILS with your change and PASSES without it (check both by applying your diff in reverse: `git apply -R SEED_patch.diff` ... `git apply SEED_patch.diff`; do NOT use git stash, it is shared between worktrees), deterministic or at least failing with probability > 90%% per run with the change and never without it; keep its runtime under ~30 s;
 3. evidence that the existing tests still pass with the change for the packages you touched: run `go build ./... && go test -vet=off -count=1 ./<touched packages>/...` (for packages under node/, act/, gen/, lib/, net/...; skip the slow integration suites under testing/tests unless your change is likely to affect them, in which case run the relevant `-run` subset inside `unshare -n` to avoid port clashes with other users of this machine);
 4. %(wt)s/SEED_meta.json: {"property": "%(id)s", "summary": "<what the change does>", "needs": "<what it takes to manifest>", "files": [...], "demo": "<how to run the demonstration>", "ran": ["<commands you ran and their outcome>"]}.

Final message: a short report (the diff, why it breaks the property, what it needs to manifest, the commands you ran with outcomes). Budget: about 45 minutes.""" % dict(
    wt=wt, id=pid, title=p.get("title", ""), stmt=p.get("statement") or p.get("text") or p.get("description") or "",
    quant=quant, anch=", ".join(anchors), used="\n".join(used))
out = os.path.join(V, "seeded", "_prompts", "%s_%s.txt" % (pid, wave))
open(out, "w").write(txt)
print(out)
