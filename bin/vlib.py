"""Shared machinery of bin/check: Coq build, Print Assumptions parsing, harness build/run,
in-Coq evaluation of correspondence cases, violation / known-finding reporting, evidence."""
import fcntl
import glob
import hashlib
import json
import os
import re
import subprocess
import sys
import time
from concurrent.futures import ThreadPoolExecutor

VERIF = os.path.dirname(os.path.dirname(os.path.abspath(__file__)))
COQ = os.path.join(VERIF, "coq")
BUILD = os.path.join(VERIF, "build")
REPO = os.environ.get("VERIF_REPO", "/repo")
GOENV = dict(os.environ, GOFLAGS="-mod=mod", GOPROXY="off", GOSUMDB="off", GOTOOLCHAIN="local",
             CGO_ENABLED="0")

ALLOWED_AXIOMS = set()  # the development is meant to be closed under the global context

TRUSTED_BASE = [
    "Coq 8.16.1 kernel as run by coqc, including the vm_compute virtual machine (no native_compute)",
    "Print Assumptions output of every property theorem: 'Closed under the global context' required (no axioms)",
    "correspondence check: bin/check + go/harness (Go, hand written) print implementation observations as Coq terms; "
    "the committed *Cases.v checker definitions are evaluated on them with vm_compute",
    "Go toolchain 1.23.5 building /repo's working tree with -tags verif (hook files are add-only)",
]


def sh(cmd, cwd=None, timeout=600, env=None):
    p = subprocess.run(cmd, cwd=cwd, timeout=timeout, env=env, shell=isinstance(cmd, str),
                       stdout=subprocess.PIPE, stderr=subprocess.STDOUT, text=True)
    return p.returncode, p.stdout


class Lock:
    def __init__(self, name):
        os.makedirs(BUILD, exist_ok=True)
        self.path = os.path.join(BUILD, "." + name + ".lock")

    def __enter__(self):
        self.f = open(self.path, "w")
        fcntl.flock(self.f, fcntl.LOCK_EX)
        return self

    def __exit__(self, *a):
        fcntl.flock(self.f, fcntl.LOCK_UN)
        self.f.close()


def coq_sources():
    out = []
    for p in sorted(glob.glob(os.path.join(COQ, "theories", "**", "*.v"), recursive=True)):
        out.append(os.path.relpath(p, COQ))
    return out


def regen_coqproject():
    lines = ["-Q theories Ergo"] + coq_sources()
    txt = "\n".join(lines) + "\n"
    path = os.path.join(COQ, "_CoqProject")
    old = open(path).read() if os.path.exists(path) else ""
    if old != txt or not os.path.exists(os.path.join(COQ, "Makefile")):
        with open(path, "w") as f:
            f.write(txt)
        rc, out = sh(["coq_makefile", "-f", "_CoqProject", "-o", "Makefile"], cwd=COQ)
        if rc != 0:
            raise RuntimeError("coq_makefile failed: " + out)


def coq_make(targets=None, timeout=1500, clean=False):
    """Full .vo build (never -vos) of the given .vo targets (None = everything)."""
    with Lock("coq"):
        regen_coqproject()
        if clean and targets:
            # re-check the cone from scratch (only the cone: other engines' files stay built)
            for t in targets:
                if "/Common/" in t:
                    continue
                for ext in (".vo", ".vok", ".vos", ".glob"):
                    f = os.path.join(COQ, t[:-3] + ext)
                    if os.path.exists(f):
                        os.remove(f)
        cmd = ["timeout", str(timeout), "make", "-j16", "-k"]
        if targets:
            cmd += targets
        rc, out = sh(cmd, cwd=COQ, timeout=timeout + 30)
        return rc == 0, out


def coq_deps(vfile):
    """Transitive closure of project-local dependencies of a .v file (relative to coq/)."""
    seen, todo = [], [vfile]
    while todo:
        f = todo.pop()
        if f in seen:
            continue
        seen.append(f)
        try:
            txt = open(os.path.join(COQ, f)).read()
        except OSError:
            continue
        for m in re.finditer(r"From\s+Ergo\s+Require\s+(?:Import\s+|Export\s+)?([\w.'\s]+?)\.(?:\s|$)", txt):
            for mod in m.group(1).split():
                todo.append("theories/" + mod.replace(".", "/") + ".v")
        for m in re.finditer(r"Require\s+(?:Import|Export)\s+((?:Ergo\.[\w.']+\s*)+)\.", txt):
            for mod in m.group(1).split():
                todo.append("theories/" + mod[len("Ergo."):].replace(".", "/") + ".v")
    return [f for f in seen if os.path.exists(os.path.join(COQ, f))]


STMT_RE = re.compile(r"^\s*(?:Local\s+|Global\s+)?(Theorem|Lemma|Example|Corollary|Fact|Proposition)\s+([\w']+)", re.M)
FORBIDDEN_RE = re.compile(r"\b(Admitted|admit|Axiom|Axioms|Parameter|Parameters|Conjecture|Admit Obligations)\b|Unset\s+Guard|bypass_check|type-in-type|Unset\s+Universe\s+Checking|Unset\s+Positivity")


def strip_comments(txt):
    out, depth, i = [], 0, 0
    while i < len(txt):
        if txt.startswith("(*", i):
            depth += 1
            i += 2
        elif txt.startswith("*)", i) and depth:
            depth -= 1
            i += 2
        else:
            if not depth:
                out.append(txt[i])
            i += 1
    return "".join(out)


def count_obligations(files):
    total, names, forbidden = 0, [], []
    for f in files:
        txt = strip_comments(open(os.path.join(COQ, f)).read())
        st = STMT_RE.findall(txt)
        total += len(st)
        names += [f + ":" + n for _, n in st]
        for m in FORBIDDEN_RE.finditer(txt):
            forbidden.append(f + ":" + m.group(0))
    return total, names, forbidden


def compile_props(vfile, timeout=600):
    """Compile a Properties file on its own and parse the Print Assumptions answers."""
    with Lock("coq"):
        rc, out = sh(["timeout", str(timeout), "coqc", "-Q", "theories", "Ergo", vfile], cwd=COQ, timeout=timeout + 30)
    closed = out.count("Closed under the global context")
    axioms = []
    for m in re.finditer(r"Axioms:\s*\n((?:.+\n?)+?)(?:\n|$)", out):
        for line in m.group(1).splitlines():
            mm = re.match(r"^([\w.']+)\s*:", line)
            if mm:
                axioms.append(mm.group(1))
    txt = strip_comments(open(os.path.join(COQ, vfile)).read())
    asked = len(re.findall(r"Print\s+Assumptions", txt))
    theorems = [n for _, n in STMT_RE.findall(txt)]
    return {"ok": rc == 0, "closed": closed, "asked": asked, "axioms": sorted(set(axioms)),
            "theorems": theorems, "log": out[-4000:]}


def build_harness(cmd, timeout=900):
    """Build go/harness/cmd/<cmd> against $VERIF_REPO's working tree with -tags verif."""
    os.makedirs(os.path.join(BUILD, "bin"), exist_ok=True)
    src = os.path.join(VERIF, "go", "harness")
    # runs against a scratch worktree (VERIF_REPO) keep their own module file and binaries
    sfx = "" if os.path.realpath(REPO) == "/repo" else "_" + hashlib.md5(os.path.realpath(REPO).encode()).hexdigest()[:8]
    with Lock("go"):
        modfile = os.path.join(BUILD, "harness%s.mod" % sfx)
        mod = open(os.path.join(src, "go.mod")).read()
        mod = re.sub(r"replace ergo\.services/ergo => .*", "replace ergo.services/ergo => " + REPO, mod)
        if not os.path.exists(modfile) or open(modfile).read() != mod:
            with open(modfile, "w") as f:
                f.write(mod)
        sumsrc = os.path.join(REPO, "go.sum")
        with open(os.path.join(BUILD, "harness%s.sum" % sfx), "w") as f:
            f.write(open(sumsrc).read() if os.path.exists(sumsrc) else "")
        binp = os.path.join(BUILD, "bin", cmd + sfx)
        rc, out = sh(["go", "build", "-tags", "verif", "-modfile", modfile, "-o", binp, "./cmd/" + cmd],
                     cwd=src, timeout=timeout, env=GOENV)
    return rc == 0, out, binp


def translate_source():
    """T1: runs go/translate on $VERIF_REPO's working tree. The output directory is named after the hash of
    everything the translation reads (source files of the listed packages, site table, translator), so the
    generated model always corresponds to the source as it is now; an existing directory is re-used."""
    tdir = os.path.join(VERIF, "go", "translate")
    spec = json.load(open(os.path.join(tdir, "sites.json")))
    h = hashlib.sha1()
    for f in ("main.go", "sites.json", "go.mod"):
        h.update(open(os.path.join(tdir, f), "rb").read())
    for f in ("theories/Common/GoInt.v", "theories/Common/Base.v"):
        h.update(open(os.path.join(COQ, f), "rb").read())
    pk = sorted(set(spec["packages"]) | set(s["pkg"] for s in spec["sites"]))
    for rel in pk:
        for fn in sorted(glob.glob(os.path.join(REPO, rel, "*.go"))):
            if fn.endswith("_test.go"):
                continue
            h.update(fn[len(REPO):].encode())
            h.update(open(fn, "rb").read())
    h.update(open(os.path.join(REPO, "go.mod"), "rb").read())
    gendir = os.path.join(BUILD, "gen", h.hexdigest()[:16])
    with Lock("gen"):
        rp = os.path.join(gendir, "report.json")
        if os.path.exists(rp) and os.path.exists(os.path.join(gendir, "Exprs.vo")):
            return gendir, json.load(open(rp))
        os.makedirs(os.path.join(BUILD, "bin"), exist_ok=True)
        binp = os.path.join(BUILD, "bin", "vtranslate")
        rc, out = sh(["go", "build", "-o", binp, "."], cwd=tdir, timeout=600, env=GOENV)
        if rc != 0:
            raise RuntimeError("go build of go/translate failed: " + out[-2000:])
        os.makedirs(gendir, exist_ok=True)
        rc, out = sh([binp, REPO, os.path.join(tdir, "sites.json"), gendir], cwd=REPO, timeout=600, env=GOENV)
        if rc != 0:
            raise RuntimeError("go/translate failed on %s: %s" % (REPO, out[-2000:]))
        ok, log = coq_make(["theories/Common/GoInt.vo"])
        if not ok:
            raise RuntimeError("Common/GoInt.v does not build: " + log[-1500:])
        for f in ("Consts.v", "Exprs.v"):
            rc, o2 = sh(["timeout", "600", "coqc", "-Q", "theories", "Ergo", "-Q", gendir, "ErgoGen", os.path.join(gendir, f)], cwd=COQ, timeout=630)
            if rc != 0:
                try:
                    os.remove(rp)
                except OSError:
                    pass
                raise RuntimeError("generated %s is not accepted by Coq: %s" % (f, o2[-2000:]))
        # keep the few most recent generated models only
        olds = sorted(glob.glob(os.path.join(BUILD, "gen", "*")), key=os.path.getmtime)
        for o in olds[:-8]:
            if o != gendir:
                sh(["rm", "-rf", o])
        return gendir, json.load(open(rp))


def run_harness(binp, args, timeout=600, env=None):
    e = dict(GOENV)
    if env:
        e.update(env)
    t = time.time()
    p = subprocess.run([binp] + args, stdout=subprocess.PIPE, stderr=subprocess.STDOUT, text=True, timeout=timeout, env=e)
    return p.returncode, p.stdout, time.time() - t


def _parse_lists(out, names):
    """Parse the output of `Print R.` where R = (l1, (l2, ...)) of nat lists, or a single list."""
    txt = re.sub(r"\s+", " ", out)
    m = re.search(r"R = (.*?) : ", txt)
    if not m:
        return None
    lists = re.findall(r"\[([^\[\]]*)\]", m.group(1))
    if len(lists) != len(names):
        return None
    res = {}
    for n, l in zip(names, lists):
        res[n] = [int(x) for x in re.findall(r"\d+", l)]
    return res


def coq_eval_cases(tag, imports, ctype, cases, checkers, shard=None, timeout=900):
    """Evaluate boolean checkers (Gallina, committed) on implementation observations inside Coq.
    Returns {checker: [failing case indices]} and a list of errors."""
    if not shard:
        # spread over the 16 cores, but keep shards big enough to amortise loading the libraries
        shard = min(400, max(20, (len(cases) + 15) // 16))
    d = os.path.join(BUILD, "cases", tag)
    os.makedirs(d, exist_ok=True)
    for old in glob.glob(os.path.join(d, "*")):
        os.remove(old)
    # shards by number of cases AND by source size: a coqc that parses several MB of byte-list terms needs GBs,
    # and 16 of them run in parallel
    max_bytes = 400_000
    shards, starts, cur, cur_b = [], [], [], 0
    for i, cs in enumerate(cases):
        if cur and (len(cur) >= shard or cur_b + len(cs) > max_bytes):
            shards.append(cur)
            cur, cur_b = [], 0
        if not cur:
            starts.append(i)
        cur.append(cs)
        cur_b += len(cs)
    if cur or not shards:
        if not cur:
            starts.append(0)
        shards.append(cur)

    def write(fn, sh_cases):
        with open(fn, "w") as f:
            f.write(imports + "\n")
            f.write("Definition cases : list (%s) := [\n" % ctype)
            f.write(";\n".join("  (" + c + ")" for c in sh_cases))
            f.write("\n].\n")
            tup = None
            for name in reversed(checkers):
                t = "failing %s cases" % name
                tup = t if tup is None else "(%s, %s)" % (t, tup)
            f.write("Definition R := Eval vm_compute in %s.\nPrint R.\n" % tup)

    files = []
    for k, sh_cases in enumerate(shards):
        fn = os.path.join(d, "cases_%03d.v" % k)
        write(fn, sh_cases)
        files.append(fn)

    def one(fn):
        rc, out = sh(["timeout", str(timeout), "coqc", "-Q", os.path.join(COQ, "theories"), "Ergo", fn], cwd=d, timeout=timeout + 30)
        return rc, out

    res = {c: [] for c in checkers}
    errors = []
    retry = []
    with ThreadPoolExecutor(max_workers=16) as ex:
        for k, (rc, out) in enumerate(ex.map(one, files)):
            parsed = _parse_lists(out, checkers) if rc == 0 else None
            if parsed is None:
                retry.append((k, rc, out))
                continue
            for c in checkers:
                res[c] += [starts[k] + i for i in parsed[c]]
    # a shard whose coqc was killed (out of memory while its neighbours ran) or timed out: once more, alone, in small pieces
    for k, rc0, out0 in retry:
        if rc0 not in (-9, 137, 124, -15) or len(shards[k]) <= 1:
            errors.append("shard %d: coqc rc=%d: %s" % (k, rc0, out0[-1500:]))
            continue
        piece = max(1, len(shards[k]) // 8)
        for j in range(0, len(shards[k]), piece):
            fn = os.path.join(d, "cases_%03d_r%03d.v" % (k, j))
            write(fn, shards[k][j:j + piece])
            rc, out = one(fn)
            parsed = _parse_lists(out, checkers) if rc == 0 else None
            if parsed is None:
                errors.append("shard %d (retried alone, cases %d..): coqc rc=%d: %s" % (k, starts[k] + j, rc, out[-1500:]))
                continue
            for c in checkers:
                res[c] += [starts[k] + j + i for i in parsed[c]]
    for c in checkers:
        res[c].sort()
    return res, errors


class Check:
    """State of one check run: collects proof status, correspondence results, violations."""

    def __init__(self, prop, tier, seed, replay=None):
        self.prop, self.tier, self.seed, self.replay = prop, tier, seed, replay
        self.t0 = time.time()
        self.violations = []      # dicts {kind, what, replay_obj, concrete}
        self.known = []
        self.broken = []          # proofs / correspondences that no longer check
        self.cov = {"evaluations": 0, "distinct_nontrivial": 0, "samples": [], "obligations": 0, "discharged": 0,
                    "traces_validated_against_impl": 0, "trusted_base": list(TRUSTED_BASE), "checker_cmd": "",
                    "rule": "", "input_distribution": {}, "correspondence": {}, "theorems": [], "axioms": []}
        self.assumptions = []
        self.kf = [e for e in load_known() if e.get("property") == prop]
        self._distinct = set()

    # ---- proofs -------------------------------------------------------------------
    def proofs(self, props_file, clean=False):
        files = coq_deps(props_file)
        n, names, forbidden = count_obligations(files)
        self.cov["obligations"] += n
        self.cov["cone_files"] = sorted(files)
        ok, log = coq_make([f[:-2] + ".vo" for f in files], clean=clean)
        done = 0
        for f in files:
            if os.path.exists(os.path.join(COQ, f[:-2] + ".vo")) and \
               os.path.getmtime(os.path.join(COQ, f[:-2] + ".vo")) >= os.path.getmtime(os.path.join(COQ, f)):
                done += count_obligations([f])[0]
        pr = compile_props(props_file) if ok else {"ok": False, "closed": 0, "asked": 0, "axioms": [], "theorems": [], "log": log[-3000:]}
        self.cov["discharged"] += done if ok else max(0, done - 1)
        self.cov["checker_cmd"] = "make -C coq -j16 <cone of %s> (coq_makefile, full .vo build) && coqc %s (Print Assumptions)" % (props_file, props_file)
        self.cov["theorems"] += pr["theorems"]
        self.cov["axioms"] += pr["axioms"]
        self.cov["print_assumptions_closed"] = pr["closed"]
        if forbidden:
            self.broken.append({"kind": "forbidden-construct", "what": "; ".join(forbidden)})
        if clean and ok and pr["ok"]:
            # thorough tier: independent re-check of the compiled cone with coqchk, axioms listed with -o
            mod = "Ergo." + props_file[len("theories/"):-2].replace("/", ".")
            with Lock("coq"):
                rcc, outc = sh(["timeout", "2400", "coqchk", "-silent", "-o", "-Q", "theories", "Ergo", mod], cwd=COQ, timeout=2500)
            m = re.search(r"\* Axioms:(.*?)\n\s*\n\s*\*", outc, re.S)
            axs = (m.group(1).strip() if m else "?")
            self.cov["coqchk"] = {"rc": rcc, "module": mod, "axioms": axs}
            if rcc != 0 or axs != "<none>":
                self.broken.append({"kind": "coqchk", "what": "coqchk of %s: rc=%d axioms=%s" % (mod, rcc, axs[:300]), "detail": outc[-1500:]})
        if not ok or not pr["ok"]:
            m = re.search(r'File "([^"]+)", line (\d+)[^\n]*\n((?:.*\n?){1,12})', log if not ok else pr["log"])
            self.broken.append({"kind": "proof", "what": "Coq build of the cone of %s failed" % props_file,
                                "detail": (m.group(0) if m else (log if not ok else pr["log"])[-1500:])})
        else:
            bad = [a for a in pr["axioms"] if a not in ALLOWED_AXIOMS]
            if bad:
                self.broken.append({"kind": "axioms", "what": "Print Assumptions lists axioms: " + ", ".join(bad)})
            if pr["closed"] < pr["asked"]:
                self.broken.append({"kind": "axioms", "what": "only %d of %d Print Assumptions are closed" % (pr["closed"], pr["asked"])})
        return ok and pr["ok"]

    # ---- T1: translation of the source + tie theorems ------------------------------
    def translate(self, ties):
        """Regenerate Consts.v / Exprs.v from $VERIF_REPO's current source (go/translate) and re-check
        the committed tie theorems coq/tie/<T>.v against them. A tie that no longer checks is a broken
        proof obligation (the model's formulas / constants are no longer those of the source)."""
        try:
            gendir, rep = translate_source()
        except Exception as e:
            self.broken.append({"kind": "translation", "what": "translation of %s failed" % REPO, "detail": str(e)[-2500:]})
            return False
        self.cov["translation"] = {"generated_from": REPO, "constants": rep.get("constants"), "site_occurrences": rep.get("site_occurrences"),
                                   "sites": rep.get("sites"), "ties": {}}
        files = ["tie/%s.v" % t for t in ties]
        deps = set()
        for f in files:
            txt = open(os.path.join(COQ, f)).read()
            for m in re.finditer(r"From\s+Ergo\s+Require\s+(?:Import\s+|Export\s+)?([\w.'\s]+?)\.(?:\s|$)", txt):
                for mod in m.group(1).split():
                    deps.add("theories/" + mod.replace(".", "/") + ".vo")
        okb, logb = coq_make(sorted(deps))
        if not okb:
            self.broken.append({"kind": "proof", "what": "Coq build of the models the tie theorems speak about failed", "detail": logb[-2000:]})
            return False

        def one(t):
            od = os.path.join(gendir, "out_%d" % os.getpid())
            os.makedirs(od, exist_ok=True)
            out_vo = os.path.join(od, "%s.vo" % t)
            rc, out = sh(["timeout", "600", "coqc", "-Q", "theories", "Ergo", "-Q", gendir, "ErgoGen", "-o", out_vo, "tie/%s.v" % t],
                         cwd=COQ, timeout=630)
            for ext in (".vo", ".vok", ".vos", ".glob"):
                try:
                    os.remove(out_vo[:-3] + ext)
                except OSError:
                    pass
            try:
                os.rmdir(od)
            except OSError:
                pass
            return t, rc, out

        allok = True
        with ThreadPoolExecutor(max_workers=8) as ex:
            for t, rc, out in ex.map(one, ties):
                n, names, forbidden = count_obligations(["tie/%s.v" % t])
                txt = strip_comments(open(os.path.join(COQ, "tie/%s.v" % t)).read())
                asked = len(re.findall(r"Print\s+Assumptions", txt))
                closed = out.count("Closed under the global context")
                self.cov["obligations"] += n
                ok = rc == 0 and closed == asked and not forbidden
                if ok:
                    self.cov["discharged"] += n
                self.cov["theorems"] += [x.split(":")[1] for x in names if ":tie_" in x]
                self.cov["translation"]["ties"][t] = {"ok": ok, "theorems": n, "print_assumptions_closed": closed}
                if not ok:
                    allok = False
                    m = re.search(r'File "([^"]+)", line (\d+)[^\n]*\n((?:.*\n?){1,14})', out)
                    self.broken.append({"kind": "translation-tie",
                                        "what": "tie theorem file coq/tie/%s.v no longer checks against the model regenerated from %s "
                                                "(the formulas / constants of the source are no longer those of the hand-written model)" % (t, REPO),
                                        "detail": (m.group(0) if m else out[-1500:]) + ("; forbidden: %s" % forbidden if forbidden else "")})
        self.cov["checker_cmd"] += " && go/translate <repo> -> build/gen/<hash>/{Consts,Exprs}.v && coqc coq/tie/{%s}.v" % ",".join(ties)
        return allok

    # ---- harness + cases ----------------------------------------------------------
    def harness(self, cmd, args, timeout=600, env=None):
        ok, out, binp = build_harness(cmd)
        if not ok:
            self.broken.append({"kind": "harness-build", "what": "go build of harness %s against %s failed" % (cmd, REPO), "detail": out[-3000:]})
            return None
        outp = os.path.join(BUILD, "out", "%s-%s-%d.json" % (self.prop, cmd, len(self.cov["correspondence"])))
        os.makedirs(os.path.dirname(outp), exist_ok=True)
        if os.path.exists(outp):
            os.remove(outp)
        e = {"VERIF_SEED": str(self.seed), "VERIF_TIER": self.tier}
        if env:
            e.update(env)
        try:
            rc, log, dt = run_harness(binp, args + ["-out", outp], timeout=timeout, env=e)
        except subprocess.TimeoutExpired:
            self.broken.append({"kind": "harness-run", "what": "harness %s %s timed out after %ds" % (cmd, " ".join(args), timeout)})
            return None
        if rc != 0 or not os.path.exists(outp):
            self.broken.append({"kind": "harness-run", "what": "harness %s %s exited %d" % (cmd, " ".join(args), rc), "detail": log[-3000:]})
            return None
        return json.load(open(outp))

    def cases(self, name, out, imports, ctype, corr=(), spec=(), premise=(), known_tags=None, shard=None):
        """Evaluate committed Gallina checkers on the harness output.
        corr: model = implementation; spec: the property evaluated on implementation observations;
        premise: non-vacuity counters (a case counts as non-trivial when all premises hold)."""
        cases = out["cases"]
        checkers = list(corr) + list(spec) + list(premise)
        mods = []
        for m in re.finditer(r"From\s+Ergo\s+Require\s+(?:Import|Export)\s+([\w.'\s]+?)\.(?:\s|$)", imports):
            mods += ["theories/" + x.replace(".", "/") + ".vo" for x in m.group(1).split()]
        if mods:
            okb, logb = coq_make(mods)
            if not okb:
                self.broken.append({"kind": "proof", "what": "Coq build of the checker definitions failed (%s)" % " ".join(mods), "detail": logb[-2000:]})
        res, errors = coq_eval_cases(self.prop + "_" + name, imports, ctype, cases, checkers, shard=shard)
        n = len(cases)
        self.cov["evaluations"] += n
        self.cov["traces_validated_against_impl"] += n
        for k, v in out.get("stats", {}).items():
            self.cov["input_distribution"][name + "/" + k] = v
        nontriv = set(range(n))
        for p in premise:
            nontriv -= set(res[p])
        for i in nontriv:
            self._distinct.add(hashlib.sha1((name + re.sub(r"\d{10,}", "T", cases[i])).encode()).hexdigest())
        self.cov["correspondence"][name] = {"cases": n, "corr_failing": {c: len(res[c]) for c in corr},
                                            "spec_failing": {c: len(res[c]) for c in spec},
                                            "nontrivial": len(nontriv)}
        if cases and len(self.cov["samples"]) < 6:
            self.cov["samples"].append({"engine": name, "case": out["replays"][0] if out.get("replays") else cases[0][:400]})
            if n > 1:
                self.cov["samples"].append({"engine": name, "coq_term": cases[n // 2][:600]})
        for e in errors:
            self.broken.append({"kind": "cases-eval", "what": "evaluation of %s cases in Coq failed" % name, "detail": e})
        for c in spec:
            for i in res[c]:
                rp = out["replays"][i] if out.get("replays") else None
                self.fail(name, c, i, rp, cases[i])
        for c in corr:
            if res[c]:
                i = res[c][0]
                rp = out["replays"][i] if out.get("replays") else None
                self.broken.append({"kind": "correspondence", "what": "model and implementation differ: checker %s fails on %d of %d %s cases" % (c, len(res[c]), n, name),
                                    "first_case": rp, "first_case_coq": cases[i][:2000], "engine": name})
        for m in (out.get("monitor") or []):
            rp = out["replays"][m["case"]] if out.get("replays") and m["case"] < len(out["replays"]) and m["case"] >= 0 else None
            self.fail(name, "go-monitor", m["case"], rp, m["what"], what=m["what"], tags=m.get("tags"))
        return res

    def monitor(self, name, out):
        """Harness outputs without Coq cases: only the Go-side property monitor."""
        n = int(out.get("stats", {}).get("runs", len(out.get("replays") or [])))
        self.cov["evaluations"] += n
        for k, v in out.get("stats", {}).items():
            self.cov["input_distribution"][name + "/" + k] = v
        for m in (out.get("monitor") or []):
            rp = out["replays"][m["case"]] if out.get("replays") and 0 <= m["case"] < len(out["replays"]) else None
            self.fail(name, "go-monitor", m["case"], rp, m["what"], what=m["what"], tags=m.get("tags"))

    def fail(self, engine, checker, idx, replay_obj, coq_term, what=None, tags=None):
        tags = list(tags or [])
        if isinstance(replay_obj, dict):
            tags += list(replay_obj.get("tags") or [])
        for e in self.kf:
            if e.get("status") != "known":
                continue
            need = e.get("match", {})
            if need.get("checker") not in (None, checker) or need.get("engine") not in (None, engine):
                continue
            if all(t in tags for t in need.get("tags_all", ["<none>"])):
                self.known.append({"id": e["id"], "what": e["what"], "engine": engine, "case": replay_obj})
                return
        self.violations.append({"concrete": True, "engine": engine, "checker": checker, "index": idx,
                                "what": what or ("property monitor %s fails on implementation observation" % checker),
                                "case": replay_obj, "coq_term": (coq_term or "")[:4000]})

    # ---- finish -------------------------------------------------------------------
    def finish(self, level="proof", extra_assumptions=()):
        os.makedirs(os.path.join(VERIF, "evidence"), exist_ok=True)
        os.makedirs(os.path.join(VERIF, "replay"), exist_ok=True)
        lines = []
        seen = set()
        for k in self.known:
            if k["id"] not in seen:
                seen.add(k["id"])
                lines.append("KNOWN-FINDING: property=%s %s" % (self.prop, k["what"]))
        rc = 0
        if self.violations:
            v = self.violations[0]
            path = self._write_replay({"property": self.prop, "kind": "failing-input", "engine": v["engine"], "checker": v["checker"],
                                       "what": v["what"], "case": v["case"], "coq_term": v["coq_term"], "seed": self.seed,
                                       "others": len(self.violations) - 1, "broken": self.broken})
            lines.append("VIOLATION property=%s replay=%s" % (self.prop, path))
            rc = 1
        elif self.broken:
            path = self._write_replay({"property": self.prop, "kind": "no-failing-input-found", "no_longer_checks": self.broken, "seed": self.seed})
            lines.append("VIOLATION property=%s replay=%s no-failing-input-found" % (self.prop, path))
            rc = 1
        self.cov["distinct_nontrivial"] = len(self._distinct)
        if not self.cov["rule"]:
            self.cov["rule"] = "distinct = different Coq case term after masking wall-clock timestamps; non-trivial = all premise checkers of the engine hold on the case"
        self.cov["known_findings_reported"] = sorted(seen)
        self.cov["broken"] = self.broken
        ev = {"property_id": self.prop, "tier": self.tier, "seed": self.seed, "level": level, "coverage": self.cov,
              "assumptions": list(self.assumptions) + list(extra_assumptions), "wall_s": round(time.time() - self.t0, 2),
              "violations": len(self.violations) + (1 if (self.broken and not self.violations) else 0)}
        evdir = os.path.join(VERIF, "evidence")
        if os.path.realpath(REPO) != "/repo":
            # development runs against a scratch worktree (seeded changes) do not overwrite the evidence of /repo itself
            evdir = os.path.join(VERIF, "build", "evidence_scratch")
            os.makedirs(evdir, exist_ok=True)
        with open(os.path.join(evdir, self.prop + ".json"), "w") as f:
            json.dump(ev, f, indent=1, sort_keys=True)
        for l in lines:
            print(l)
        print("%s %s tier=%s obligations=%d discharged=%d evaluations=%d wall=%.1fs" % (
            self.prop, "FAIL" if rc else "ok", self.tier, self.cov["obligations"], self.cov["discharged"],
            self.cov["evaluations"], time.time() - self.t0))
        sys.stdout.flush()
        return rc

    def _write_replay(self, obj):
        h = hashlib.sha1(json.dumps(obj, sort_keys=True, default=str).encode()).hexdigest()[:10]
        path = os.path.join(VERIF, "replay", "%s-%s.json" % (self.prop, h))
        with open(path, "w") as f:
            json.dump(obj, f, indent=1, default=str)
        return path


def load_known():
    p = os.path.join(VERIF, "known_findings.json")
    if not os.path.exists(p):
        return []
    return json.load(open(p)).get("findings", [])
