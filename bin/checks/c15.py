"""C15 remote access control: cookie authentication, spawn / application-start permissions."""

IMPORTS = "From Ergo Require Import Common.Base Hs.Model Hs.Cases.\nLocal Open Scope N_scope."

# sub-command, case type, corr, spec, premise, quick n, thorough n
RUNS = [
    ("pair", "pcase", ["corr_pair"], ["spec_pair"], ["premise_pair"], 80, 1500),
    ("jpair", "jcase", ["corr_jpair"], ["spec_jpair"], [], 40, 600),
    ("adv", "acase", ["corr_adv"], ["spec_adv"], ["premise_adv"], 150, 3000),
    ("tab", "tcase", ["corr_tab"], ["spec_tab"], ["premise_tab"], 200, 4000),
    ("conn", "ccase", ["corr_conn"], ["spec_conn"], ["premise_conn"], 24, 64),
    ("req", "rcase", ["corr_req"], ["spec_req"], ["premise_req"], 60, 600),
]


def run(c):
    import vlib
    c.proofs("theories/Properties/C15.v", clean=(c.tier == "thorough"))
    # the checker definitions are not in the cone of the property file: build them explicitly
    ok, log = vlib.coq_make(["theories/Hs/Cases.vo"])
    if not ok:
        c.broken.append({"kind": "proof", "what": "Coq build of theories/Hs/Cases.v failed", "detail": log[-2000:]})
    for sub, ctype, corr, spec, prem, nq, nt in RUNS:
        n = nq if c.tier == "quick" else nt
        if c.replay:
            import json
            rp = json.load(open(c.replay))
            eng = (rp.get("engine") or "").replace("-search", "")
            if eng not in ("", sub) or not isinstance(rp.get("case"), dict):
                continue
            out = c.harness("hs", [sub, "-replay", c.replay])
        else:
            out = c.harness("hs", [sub, "-n", str(n)])
        if out:
            c.cases(sub, out, IMPORTS, ctype, corr=corr, spec=spec, premise=prem)
    if c.broken and not c.violations and not c.replay:
        # something no longer checks: spend the extra search budget looking for a failing input
        keep = list(c.broken)
        for sub, ctype, corr, spec, prem, nq, nt in RUNS:
            n = (nq if c.tier == "quick" else nt) * 10
            out = c.harness("hs", [sub, "-n", str(n)], env={"VERIF_SEED": str(c.seed + 7919)})
            if out:
                c.cases(sub + "-search", out, IMPORTS, ctype, corr=[], spec=spec, premise=prem)
        c.broken = keep + [b for b in c.broken if b not in keep]
    c.assumptions += [
        "SHA-256 modelled as a free constructor (no collisions, not invertible); lib.RandomString salts / connection ids fresh and unguessable",
        "the attacker's knowledge is closed under pairing (':'-joining), projection and hashing; it holds no term that exposes the cookie",
    ]
