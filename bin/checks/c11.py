"""C11 EDF round trip: what encodes, decodes to the same value."""

IMPORTS = ("From Coq Require Import String.\n"
           "From Ergo Require Import Common.Base Common.Bytes Common.Codec Edf.Model Edf.Cases.\n"
           "Local Open Scope N_scope.\n")

TAGS = ["zero-width-elem", "map-array-key", "atommap-target>255"]


def _known_tags(c):
    """Input classes of known findings are generated only when known_findings.json lists them
    (otherwise their failing cases would be plain violations)."""
    out = []
    for e in c.kf:
        if e.get("status") != "known":
            continue
        for t in e.get("match", {}).get("tags_all", []):
            if t in TAGS and t not in out:
                out.append(t)
    return out


def _run(c, name, n, seed=None, corr=("corr_enc", "corr_dec"), spec=("spec_roundtrip",)):
    import os
    args = ["roundtrip", "-n", str(n), "-corpus", os.path.join(os.path.dirname(os.path.dirname(os.path.dirname(os.path.abspath(__file__)))), "corpus", "C11")]
    kt = _known_tags(c)
    if kt:
        args += ["-known", ",".join(kt)]
    if c.replay and seed is None:
        args = ["roundtrip", "-replay", c.replay]
    env = {"VERIF_SEED": str(seed)} if seed is not None else None
    out = c.harness("edf", args, env=env)
    if not out:
        return
    imports = IMPORTS + out.get("extra", {}).get("prelude", "")
    c.cases(name, out, imports, "ecase", corr=list(corr), spec=list(spec), premise=["premise_ok"])


NEG_IMPORTS = ("From Coq Require Import String.\n"
               "From Ergo Require Import Common.Base Common.Bytes Common.Codec Edf.Model Edf.Cases Edf.Negotiate Edf.NegCases.\n"
               "Local Open Scope N_scope.\n")


def _run_neg(c, name, n, seed=None, corr=("corr_neg_cache", "corr_neg_enc", "corr_neg_dec"), spec=("spec_negotiated",)):
    """two nodes with different registries; caches negotiated by the real handshake helpers"""
    args = ["negotiated", "-n", str(n)]
    if c.replay and seed is None:
        args = ["negotiated", "-replay", c.replay]
    env = {"VERIF_SEED": str(seed)} if seed is not None else None
    out = c.harness("edf", args, env=env)
    if not out:
        return
    imports = NEG_IMPORTS + out.get("extra", {}).get("prelude", "")
    c.cases(name, out, imports, "ncase", corr=list(corr), spec=list(spec), premise=["premise_neg"])


WIN_IMPORTS = ("From Coq Require Import String.\n"
               "From Ergo Require Import Common.Base Common.Bytes Common.Codec Edf.Model Edf.Negotiate Edf.NegCases Edf.Window Edf.WinCases.\n"
               "Local Open Scope N_scope.\n")


def _run_win(c, name, n, seed=None, corr=("corr_window",), spec=("spec_window",)):
    """the real handshake.Start / Accept over a pipe while the registries grow during the handshake"""
    args = ["window", "-n", str(n)]
    if c.replay and seed is None:
        args = ["window", "-replay", c.replay]
    env = {"VERIF_SEED": str(seed)} if seed is not None else None
    out = c.harness("edf", args, env=env)
    if not out:
        return
    c.cases(name, out, WIN_IMPORTS, "wcase", corr=list(corr), spec=list(spec), premise=["premise_window"])


def _is_win_replay(path):
    import json
    try:
        return "steps" in json.load(open(path)).get("case", {})
    except Exception:
        return False


def _is_neg_replay(path):
    import json
    try:
        return "neg" in json.load(open(path)).get("case", {})
    except Exception:
        return False


def run(c):
    c.proofs("theories/Properties/C11.v", clean=(c.tier == "thorough"))
    c.translate(['TieEdf'])  # T1: formulas / constants regenerated from the source, tie theorems re-checked
    # the checker definitions are not in the cone of the property file: (re)build them after the cone
    import vlib
    ok, log = vlib.coq_make(["theories/Edf/Cases.vo", "theories/Edf/NegCases.vo", "theories/Edf/WinCases.vo"])
    if not ok:
        c.broken.append({"kind": "proof", "what": "Coq build of theories/Edf/Cases.v / NegCases.v failed", "detail": log[-2500:]})
    n = 1300 if c.tier == "quick" else 20000   # + ~240 deterministic encodeType-flag cases of corpus/C11/flag-*.json
    nn = 250 if c.tier == "quick" else 6000
    nw = 60 if c.tier == "quick" else 90   # bounded by the pool of 96 registrable types of the harness
    if c.replay:
        if _is_win_replay(c.replay):
            _run_win(c, "window", nw)
        elif _is_neg_replay(c.replay):
            _run_neg(c, "negotiated", nn)
        else:
            _run(c, "roundtrip", n)
    else:
        _run(c, "roundtrip", n)
        _run_neg(c, "negotiated", nn)
        _run_win(c, "window", nw)
    if c.broken and not c.violations and not c.replay:
        # something no longer checks: spend the extra search budget on the property monitors only
        keep = list(c.broken)
        _run(c, "roundtrip-search", n * 10 if c.tier == "quick" else n * 3, seed=c.seed + 7919, corr=())
        _run_neg(c, "negotiated-search", nn * 10 if c.tier == "quick" else nn * 3, seed=c.seed + 7919, corr=())
        _run_win(c, "window-search", 90, seed=c.seed + 7919, corr=())
        c.broken = keep + [b for b in c.broken if b not in keep]
    c.cov["rule"] = ("distinct = different Coq case term (type, value, options, bytes); non-trivial = the encoder model "
                     "accepts the value, the guard of C11_roundtrip_partial holds and Unmarshal inverts Marshal on the marshaler "
                     "states of the case (the theorem applies to the case); negotiated: both registries well formed, node B's texts "
                     "injective (hypotheses of neg_sentinel_spec), options well formed, value accepted and supported")
    c.assumptions += [
        "Go values are presented to the model by the harness (reflect): ints as Z, floats as IEEE bit patterns, "
        "strings/atoms/binaries as byte lists, time.Time as its MarshalBinary form, errors as (sentinel identity, text)",
        "the decoder side runs with the options net/proto/enp.go installs for the same connection (caches by id, atom mapping reversed)",
        "edf.Marshaler / encoding.BinaryMarshaler types: the user's Unmarshal inverts the user's Marshal (hypothesis marsh_inv of the "
        "theorems; proved for the harness's HMar / HBin, evaluated on every case by premise_ok); options.Cache memoisation is outside the model",
        "negotiated family: the two nodes live in one process (one edf type registry; error and atom tables are per node), each "
        "MessageIntroduce crosses the handshake's real framing over net.Pipe, caches come from handshake.VerifCaches (build tag verif)",
        "window family: both parties live in one process and share edf's registries; registrations are placed inside the Write of a "
        "scripted handshake frame (after the message was built, before the peer has it); the announced tables are read from the wire",
        "time.Time.MarshalBinary / UnmarshalBinary of the Go standard library round-trip (only the length/version check is modelled)",
        "encodeType flag protocol (Edf/Flag.v): the stateEncode chain state, state.child, ... is modelled as the list of its encodeType "
        "flags; options are constant along the chain; a pooled and a freshly allocated child are the same (flag false, no child); the "
        "round-trip theorem is stated for the functional encoder enc_val, which C11_flag_refines proves equal to the stateful one when all "
        "nine resets are in place; that /repo has the nine resets is tied by the byte-exact correspondence on the flag-* corpus cases and "
        "the flag-random family (interface-typed next to concrete-typed siblings in every registered and unnamed container kind)",
    ]
