"""C14 remote failure detection: node down, remote termination, incarnations."""

IMPORTS = ("From Ergo Require Import Common.Base Rel.Amap Rel.Model Rel.Cases NetFail.Model NetFail.Cases.\n"
           "Local Open Scope N_scope.")

TAGS = ["restart-same-second"]

CORR = ["corr_results", "corr_inbox"]
SPEC = ["spec_once", "spec_incarnation", "spec_calls"]
PREMISE = ["premise_hist", "premise_creations"]


def _known_tags(c):
    """Input classes of known findings are generated only when known_findings.json lists them
    (otherwise their failing cases would be plain violations)."""
    out = []
    for e in c.kf:
        if e.get("status") != "known":
            continue
        for t in e.get("match", {}).get("tags_all", []):
            if t in TAGS and t not in out:
                out.append(t)
    return out


BATCH = 400   # cases per harness process: every node ever started in a process leaves its name in the
              # process-global EDF atom cache, which travels in every handshake; beyond ~2200 node starts
              # the handshake message exceeds its size cap and new connections are refused


def _run(c, name, n, seed=None, corr=CORR):
    kt = _known_tags(c)
    env = {"VERIF_SEED": str(seed)} if seed is not None else None
    if c.replay and seed is None:
        out = c.harness("netfail", ["hist", "-replay", c.replay], timeout=600, env=env)
        if out:
            c.cases(name, out, IMPORTS, "ncase", corr=list(corr), spec=SPEC, premise=PREMISE)
        return
    k = 0
    while n > 0:
        args = ["hist", "-n", str(min(n, BATCH)), "-stream", str(k)]
        if kt:
            args += ["-known", ",".join(kt)]
        out = c.harness("netfail", args, timeout=900, env=env)
        if out:
            c.cases(name if k == 0 else "%s-b%d" % (name, k), out, IMPORTS, "ncase", corr=list(corr), spec=SPEC, premise=PREMISE)
        if c.violations:
            break
        n -= BATCH
        k += 1


def run(c):
    c.proofs("theories/Properties/C14.v", clean=(c.tier == "thorough"))
    # the checker definitions are not in the cone of the property file: (re)build them after the cone
    import vlib
    ok, log = vlib.coq_make(["theories/NetFail/Cases.vo"])
    if not ok:
        c.broken.append({"kind": "proof", "what": "Coq build of theories/NetFail/Cases.v failed", "detail": log[-2500:]})
    n = 150 if c.tier == "quick" else 1600
    _run(c, "hist", n)
    if c.broken and not c.violations and not c.replay:
        # something no longer checks: spend the extra search budget on the property monitors only
        keep = list(c.broken)
        _run(c, "hist-search", n * 6 if c.tier == "quick" else n * 2, seed=c.seed + 7919, corr=())
        c.broken = keep + [b for b in c.broken if b not in keep]
    c.cov["rule"] = ("distinct = different Coq case term (history with observed results, mailboxes of the observers, calls); "
                     "non-trivial = a connection was lost while a confirmed relation was held and a notification was owed")
    c.assumptions += [
        "two real nodes in one process over loopback TCP (optionally through a cutting TCP proxy with one pooled link); "
        "node A is described from its own point of view: the answers of the peer to link/monitor requests (nil / error / none) "
        "are taken from the observed result, Terminate* frames are assumed to arrive for every target the harness terminated while connected",
        "when the peer is stopped (Stop / StopForce) the Terminate* frames of its dying processes race the loss of the connection: "
        "for pid / name / alias / event notes the reasons 'no connection', shutdown and kill stand for each other in such cases (exactly-once is still checked)",
        "MessageExitNode / MessageDownNode carry no reason field; the harness records them with the 'no connection' class",
        "timers (time.Timer behind waitResponse / waitResult) are modelled by the hypothesis of C14_calls_fail: a started timer fires unless the call completed; "
        "the harness measures that every call returns within its timeout + 1.5 s and a watchdog reports hangs",
        "notifications are collected after the mailboxes have been quiet for 100 ms (at most 2 s): a notification arriving later would be missed",
        "creations of successive incarnations differ (guard of C14_incarnation_partial): node creation is time.Now().Unix() seconds; "
        "the same-second restart class is generated only when known_findings.json lists its tag",
        "the race between the answer to a link/monitor request and the loss of the connection inside RouteLink* (relation inserted after CleanupNode ran) is outside the model: operations are atomic with respect to node-down",
    ]
