"""C14 remote failure detection: node down, remote termination, incarnations."""

IMPORTS = ("From Ergo Require Import Common.Base Rel.Amap Rel.Model Rel.Cases NetFail.Model NetFail.Cases.\n"
           "Local Open Scope N_scope.")

TAGS = ["restart-same-second"]

CORR = ["corr_results", "corr_inbox"]
SPEC = ["spec_once", "spec_incarnation", "spec_calls"]
PREMISE = ["premise_hist", "premise_creations"]

# incarnation guard table: every outgoing operation of gen.Connection attempted with identifiers of the
# previous incarnation after a restart of the peer (netfail guard, one restart per case)
G_IMPORTS = ("From Ergo Require Import Common.Base Rel.Amap Rel.Model NetFail.Model NetFail.Guard NetFail.GuardCases.\n"
             "Local Open Scope N_scope.")
G_CORR = ["corr_guard"]
G_SPEC = ["spec_guard"]
G_PREMISE = ["premise_guard"]


def _guard(c, name, n, seed=None, corr=G_CORR, replay=None, stream=0):
    env = {"VERIF_SEED": str(seed)} if seed is not None else None
    args = ["guard", "-replay", replay] if replay else ["guard", "-n", str(n), "-stream", str(stream)]
    out = c.harness("netfail", args, timeout=600, env=env)
    if not out:
        return
    c.cases(name, out, G_IMPORTS, "gcase", corr=list(corr), spec=G_SPEC, premise=G_PREMISE)
    if not replay and c.cov["correspondence"].get(name, {}).get("nontrivial", 0) == 0 and not c.violations:
        c.broken.append({"kind": "coverage", "what": "no guard case reached the situation of the theorems (twins with equal numeric ids, "
                         "different creations, every table operation attempted with a stale and a current identifier)"})


# fan-out of RouteNodeDown / RouteTerminate* with consumers that cannot take the message (netfail fan):
# 10-40 watchers per two-node scenario, a few of them zombies / bounded mailboxes with full queues /
# killed at the moment of the loss; model and theorems in NetFail/Fanout*.v
F_IMPORTS = ("From Ergo Require Import Common.Base Rel.Amap Rel.Model Rel.Cases NetFail.Model NetFail.Cases NetFail.Fanout NetFail.FanoutCases.\n"
             "Local Open Scope N_scope.")
F_CORR = ["corr_fan"]
F_SPEC = ["spec_fan"]
F_PREMISE = ["premise_fan"]


def _fan(c, name, n, seed=None, corr=F_CORR, replay=None, stream=0):
    env = {"VERIF_SEED": str(seed)} if seed is not None else None
    args = ["fan", "-replay", replay] if replay else ["fan", "-n", str(n), "-stream", str(stream)]
    out = c.harness("netfail", args, timeout=900, env=env)
    if not out:
        return
    c.cases(name, out, F_IMPORTS, "fcase", corr=list(corr), spec=F_SPEC, premise=F_PREMISE)
    if not replay and c.cov["correspondence"].get(name, {}).get("nontrivial", 0) == 0 and not c.violations:
        c.broken.append({"kind": "coverage", "what": "no fan case reached the situation of the theorems (a failing delivery while "
                         "at least five able watchers are owed a notification)"})


# LinkNode / MonitorNode against unregisterConnection (connections.Delete, RouteNodeDown): every
# interleaving on two real nodes, model and theorems in the Rel race family (Rel/NodeRace*.v,
# C04_node_race_exactly_one); harness `rel ilvnode`
N_IMPORTS = ("From Ergo Require Import Common.Base Rel.Amap Rel.Model Rel.RaceGen Rel.RaceGenCases Rel.NodeRace Rel.NodeRaceCases.\n"
             "Local Open Scope N_scope.")


def _node_race(c, replay=None):
    out = c.harness("rel", ["ilvnode", "-replay", replay] if replay else ["ilvnode", "-n", "0"], timeout=600)
    if out:
        c.cases("ilvnode", out, N_IMPORTS, "ncase", corr=["corr_node"], spec=["spec_node"], premise=["premise_node"])


def _replay_kind(path):
    import json
    try:
        d = json.load(open(path))
        case = d.get("case") or d
        if (d.get("engine") or "") == "linkloss":
            return "linkloss"
        if case.get("mode") == "ilvnode":
            return "ilvnode"
        return case.get("kind", "")
    except Exception:
        return ""


def _known_tags(c):
    """Input classes of known findings are generated only when known_findings.json lists them
    (otherwise their failing cases would be plain violations)."""
    out = []
    for e in c.kf:
        if e.get("status") != "known":
            continue
        for t in e.get("match", {}).get("tags_all", []):
            if t in TAGS and t not in out:
                out.append(t)
    return out


BATCH = 400   # cases per harness process: every node ever started in a process leaves its name in the
              # process-global EDF atom cache, which travels in every handshake; beyond ~2200 node starts
              # the handshake message exceeds its size cap and new connections are refused


def _run(c, name, n, seed=None, corr=CORR):
    kt = _known_tags(c)
    env = {"VERIF_SEED": str(seed)} if seed is not None else None
    if c.replay and seed is None:
        out = c.harness("netfail", ["hist", "-replay", c.replay], timeout=600, env=env)
        if out:
            c.cases(name, out, IMPORTS, "ncase", corr=list(corr), spec=SPEC, premise=PREMISE)
        return
    k = 0
    while n > 0:
        args = ["hist", "-n", str(min(n, BATCH)), "-stream", str(k)]
        if kt:
            args += ["-known", ",".join(kt)]
        out = c.harness("netfail", args, timeout=900, env=env)
        if out:
            c.cases(name if k == 0 else "%s-b%d" % (name, k), out, IMPORTS, "ncase", corr=list(corr), spec=SPEC, premise=PREMISE)
        if c.violations:
            break
        n -= BATCH
        k += 1


def _linkloss(c, n, replay=None):
    args = ["linkloss", "-replay", replay] if replay else ["linkloss", "-n", str(n)]
    out = c.harness("proto", args, timeout=900)
    if out:
        c.monitor("linkloss", out)


def run(c):
    c.proofs("theories/Properties/C14.v", clean=(c.tier == "thorough"))
    c.translate(['TieGuard'])  # T1: the guarded methods of connection.go are the stamped rows of the model's guard table
    # the checker definitions are not in the cone of the property file: (re)build them after the cone
    import vlib
    ok, log = vlib.coq_make(["theories/NetFail/Cases.vo"])
    if not ok:
        c.broken.append({"kind": "proof", "what": "Coq build of theories/NetFail/Cases.v failed", "detail": log[-2500:]})
    n = 140 if c.tier == "quick" else 1600
    ng = 12 if c.tier == "quick" else 96
    nf = 16 if c.tier == "quick" else 160
    if c.replay and _replay_kind(c.replay) == "fan":
        _fan(c, "fan", 1, replay=c.replay)
        return
    if c.replay and _replay_kind(c.replay) == "guard":
        _guard(c, "guard", 1, replay=c.replay)
        return
    if c.replay and _replay_kind(c.replay) == "ilvnode":
        _node_race(c, replay=c.replay)
        return
    if c.replay and _replay_kind(c.replay) == "linkloss":
        _linkloss(c, 1, replay=c.replay)
        return
    if not c.replay:
        _node_race(c)
        if c.violations:
            return
        # partial loss: ONE pooled link of a live connection is lost (connection objects over pipes); afterwards nothing the
        # node sends may vanish (exit / down messages and request answers travel as such frames) and Terminate must close every
        # remaining link, or the peer never sees the connection go down and delivers no node-down notification
        _linkloss(c, 40 if c.tier == "quick" else 800)
        if c.violations:
            return
    if not c.replay:
        _fan(c, "fan", nf)
        if c.broken and not c.violations:
            keep = list(c.broken)
            _fan(c, "fan-search", nf * 4, seed=c.seed + 7919, corr=(), stream=1)
            c.broken = keep + [b for b in c.broken if b not in keep]
        if c.violations:
            return
    _guard(c, "guard", ng)
    if c.broken and not c.violations and not c.replay:
        keep = list(c.broken)
        _guard(c, "guard-search", ng * 4, seed=c.seed + 7919, corr=(), stream=1)
        c.broken = keep + [b for b in c.broken if b not in keep]
    if c.violations:
        return
    _run(c, "hist", n)
    if c.broken and not c.violations and not c.replay:
        # something no longer checks: spend the extra search budget on the property monitors only
        keep = list(c.broken)
        _run(c, "hist-search", n * 6 if c.tier == "quick" else n * 2, seed=c.seed + 7919, corr=())
        c.broken = keep + [b for b in c.broken if b not in keep]
    c.cov["rule"] = ("distinct = different Coq case term (history with observed results, mailboxes of the observers, calls); "
                     "non-trivial = a connection was lost while a confirmed relation was held and a notification was owed; "
                     "fan: non-trivial = the hypotheses of C14_node_down_fan_exact hold on the case (NoDup relations, the groups are a permutation of CleanupNode's report, "
                     "every healthy watcher is [able]), at least one delivery fails and at least five able watchers are owed a notification")
    c.assumptions += [
        "two real nodes in one process over loopback TCP (optionally through a cutting TCP proxy with one pooled link); "
        "node A is described from its own point of view: the answers of the peer to link/monitor requests (nil / error / none) "
        "are taken from the observed result, Terminate* frames are assumed to arrive for every target the harness terminated while connected",
        "when the peer is stopped (Stop / StopForce) the Terminate* frames of its dying processes race the loss of the connection: "
        "for pid / name / alias / event notes the reasons 'no connection', shutdown and kill stand for each other in such cases (exactly-once is still checked)",
        "MessageExitNode / MessageDownNode carry no reason field; the harness records them with the 'no connection' class",
        "timers (time.Timer behind waitResponse / waitResult) are modelled by the hypothesis of C14_calls_fail: a started timer fires unless the call completed; "
        "the harness measures that every call returns within its timeout + 1.5 s and a watchdog reports hangs",
        "notifications are collected after the mailboxes have been quiet for 100 ms (at most 2 s): a notification arriving later would be missed",
        "creations of successive incarnations differ (guard of C14_incarnation_partial): node creation is time.Now().Unix() seconds; "
        "the same-second restart class is generated only when known_findings.json lists its tag",
        "guard table (netfail guard): the rows of NetFail/Guard.v were read off net/proto/connection.go by hand (each Go line is quoted there) and are re-checked against the source on every run by T1 (coq/tie/TieGuard.v: the methods containing the creation guard are exactly the stamped rows); "
        "the tie is per row: every one of the fifteen methods that take a stamped identifier of the peer is called on the REAL connection object "
        "(type assertion of the gen.RemoteNode to gen.Connection) and through the process API with identifiers of the previous incarnation "
        "(pids, aliases, the (caller, ref) pair of a request the previous incarnation made) and of the current one; observed are the returned error, "
        "the connection's MessagesOut counter around the call (frames written) and what the same-numbered processes of the new incarnation received",
        "the restarted peer runs in the same OS process as before, so the alias / ref counters restart from the same value (startUniqID is a package variable) "
        "and the alias ids of the twins coincide as the pids do; after a restart of the OS process only the pids would coincide",
        "a response written for a stale (pid, ref) pair would be dropped by the twin unless it is waiting for a response itself: for SendResponse / SendResponseError "
        "the observation is the returned error and the frame counter, not the twin's mailbox",
        "the race between the answer to a link/monitor request and the loss of the connection inside RouteLink* (relation inserted after CleanupNode ran) is outside the model: operations are atomic with respect to node-down",
        "fan-out with failing deliveries (netfail fan, NetFail/Fanout*.v): the ways ONE delivery fails are transcribed from sendExitMessage / RouteSendPID "
        "(not in n.processes; isAlive() false, down messages only; bounded queue full) with Fallback.Enable == false — a process with a fallback name is not modelled; "
        "the watchers' state at the moment of the fan-out is set up by the harness and checked before the loss (ProcessState == Zombee; a second filler send answers "
        "ErrProcessMailboxFull), free slots of a bounded queue = MailboxSize 1 minus the fillers; blocked watchers stay blocked until every healthy watcher has its messages",
        "fan: a watcher killed (idle) at the very moment of the loss may or may not get its messages (class 3): it is only required to get nothing twice and nothing it is not owed; "
        "the window inside unregisterProcess (ErrProcessUnknown) is reached only by chance through that class",
        "fan: for a bounded watcher whose queue has fewer free slots than messages addressed to it WHICH of them fit depends on the iteration order of the Go maps: "
        "model and implementation are compared on the number of exits and of downs it handled, each handled message must be one it is owed, none twice",
        "fan: healthy watchers are awaited by exact counts (10 s deadline per phase), then 250 ms are left for duplicates; exits for name / alias / event / node targets "
        "are sent by the core pid (trapped by act.Actor because they are not MessageExitPID)",
        "LinkNode / MonitorNode against the loss of the connection IS covered for all interleavings (Rel/NodeRace*.v, theorem C04_node_race_exactly_one, "
        "runs 'ilvnode': both threads parked at the target manager calls on two real nodes; a lookup without connection fails because the static route is removed)",
    ]
