"""C08 supervisor restart semantics by type and strategy."""
from checks import supmachine as sm


def _name_release(c, replay=None):
    """a supervisor restarts its child under the same registered name as soon as it gets the child's exit message: when
    the termination of a process is announced (its relations are being dropped) its registered name is already free
    (real node, target manager wrapper of the rel initfail family)"""
    args = ["initfail", "-replay", replay] if replay else ["initfail", "-n", "60" if c.tier == "quick" else "1200"]
    out = c.harness("rel", args, timeout=600)
    if out:
        out["monitor"] = [m for m in (out.get("monitor") or []) if "restart under the same name" in m["what"]]
        c.monitor("name-release", out)


def run(c):
    c.proofs("theories/Properties/C08.v", clean=(c.tier == "thorough"))
    if c.replay and sm.replay_kind(c).startswith("name-release"):
        _name_release(c, replay=c.replay)
        return
    if not c.replay:
        _name_release(c)
    sm.machine(c, "machine",
               spec=["spec_prescribed", "spec_keeporder", "spec_start_order", "spec_noticed"],
               premise=["premise_quiescent"])
    sm.e2e(c, "c08", spec=["spec_e2e_prescribed"], premise=["premise_e2e_settled"], n_quick=25, n_thorough=400)
    c.assumptions += sm.ASSUMPTIONS + [
        "C08_quiescent_children is a closed-loop theorem for one-for-one (exit histories), simple-one-for-one (StartChild + exit "
        "histories) and all-for-one / rest-for-one (exit, foreign-exit and clock-shift histories through the Coq driver: "
        "C08_quiescent_children_arfo_from_init proves the monitor spec_prescribed true on every run of the model allowed by env_ok); "
        "for histories with StartChild/AddChild/EnableChild/DisableChild (OFO/ARFO) and failing spawns it is evaluated as a monitor "
        "(spec_prescribed / spec_e2e_prescribed: the specification `prescribed` = a_step/a_quiesce of Sup/Machine.v walks over every "
        "observed history); the theorems cover every single decision of the machines for any state",
    ]
