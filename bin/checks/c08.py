"""C08 supervisor restart semantics by type and strategy."""
from checks import supmachine as sm


def run(c):
    c.proofs("theories/Properties/C08.v", clean=(c.tier == "thorough"))
    sm.machine(c, "machine",
               spec=["spec_prescribed", "spec_keeporder", "spec_start_order", "spec_noticed"],
               premise=["premise_quiescent"])
    sm.e2e(c, "c08", spec=["spec_e2e_prescribed"], premise=["premise_e2e_settled"], n_quick=25, n_thorough=400)
    c.assumptions += sm.ASSUMPTIONS + [
        "C08_quiescent_children is evaluated as a monitor (spec_prescribed / spec_e2e_prescribed: the 10-line "
        "specification `prescribed` = a_step/a_quiesce of Sup/Machine.v walks over every observed history) rather than "
        "proved as one closed-loop theorem; the theorems cover every single decision of the machines for any state",
    ]
