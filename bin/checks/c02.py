"""C02 local delivery: exactly once, no lost wake-up, truthful result, fallback, delayed sends."""
from checks import _sched

D_IMPORTS = "From Ergo Require Import Common.Base Sched.Delayed."


def run(c):
    _sched.run(c, "theories/Properties/C02.v", ["spec_c02"], meta_spec=["spec_meta_c02"])
    if not c.replay:
        out = c.harness("sched", ["delayed", "-n", "400" if c.tier == "quick" else "5000"], timeout=600)
        if out:
            c.cases("delayed", out, D_IMPORTS, "dcase", corr=[], spec=["spec_delayed"], premise=["premise_delayed"])
    # bounded mailbox + fallback over pid / name / ALIAS addressing: wrapper (original recipient, tag), exactly once
    is_fb_replay = False
    if c.replay:
        import json
        is_fb_replay = json.load(open(c.replay)).get("engine", "") == "mbox-fallback"
    if not c.replay or is_fb_replay:
        args = ["fallback", "-replay", c.replay] if is_fb_replay else ["fallback", "-n", "150" if c.tier == "quick" else "3000"]
        out = c.harness("mbox", args, timeout=900)
        if out:
            c.monitor("mbox-fallback", out)
    c.assumptions.append("time.Timer.Stop returns true iff it prevented the function from running (Go runtime contract; hypothesis of C02_delayed)")
