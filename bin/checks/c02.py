"""C02 local delivery: exactly once, no lost wake-up, truthful result."""
from checks import _sched


def run(c):
    _sched.run(c, "theories/Properties/C02.v", ["spec_c02"])
