"""C02 local delivery: exactly once, no lost wake-up, truthful result, fallback, delayed sends."""
from checks import _sched

D_IMPORTS = "From Ergo Require Import Common.Base Sched.Delayed."


def run(c):
    _sched.run(c, "theories/Properties/C02.v", ["spec_c02"], meta_spec=["spec_meta_c02"])
    if not c.replay:
        out = c.harness("sched", ["delayed", "-n", "400" if c.tier == "quick" else "5000"], timeout=600)
        if out:
            c.cases("delayed", out, D_IMPORTS, "dcase", corr=[], spec=["spec_delayed"], premise=["premise_delayed"])
    # bounded mailbox + fallback over pid / name / ALIAS addressing: wrapper (original recipient, tag), exactly once
    is_fb_replay = False
    if c.replay:
        import json
        is_fb_replay = json.load(open(c.replay)).get("engine", "") == "mbox-fallback"
    if not c.replay or is_fb_replay:
        args = ["fallback", "-replay", c.replay] if is_fb_replay else ["fallback", "-n", "150" if c.tier == "quick" else "3000"]
        out = c.harness("mbox", args, timeout=900)
        if out:
            c.monitor("mbox-fallback", out)
    # fallback chains / rings: where one send ends, against the model Mbox/Fallback.v (each case in a child process:
    # before the fix a ring of full mailboxes killed the node)
    is_ring_replay = False
    if c.replay:
        import json
        is_ring_replay = json.load(open(c.replay)).get("engine", "").startswith("fbring")
    if not c.replay or is_ring_replay:
        args = ["fbring", "-replay", c.replay] if is_ring_replay else ["fbring", "-n", "60" if c.tier == "quick" else "1500"]
        out = c.harness("mbox", args, timeout=1200)
        if out:
            for n in out.get("notes") or []:
                c.broken.append({"kind": "harness-run", "what": n})
            c.cases("fbring", out, "From Ergo Require Import Common.Base Mbox.Fallback Mbox.FallbackCases.\nLocal Open Scope Z_scope.",
                    "frcase", corr=["corr_fb"], spec=["spec_fb"], premise=["premise_fb"])
    # messages and requests that reach their handler through an act.Pool (process.Forward hands the SAME mailbox message
    # from worker to worker when a bounded worker mailbox is full): each accepted one is handled exactly once, by one
    # worker, with the original sender
    is_pool_replay = False
    if c.replay:
        import json
        is_pool_replay = json.load(open(c.replay)).get("engine", "").startswith("pool-forward")
    if not c.replay or is_pool_replay:
        args = ["run", "-replay", c.replay] if is_pool_replay else ["run", "-n", "100" if c.tier == "quick" else "1500", "-par", "96"]
        out = c.harness("pool", args, timeout=400 if c.tier == "quick" else 1500)
        if out:
            c.cases("pool-forward", out, "From Ergo Require Import Common.Base Pool.Model Pool.Cases.\nLocal Open Scope Z_scope.\n",
                    "pcase", corr=[], spec=["spec_one_worker", "spec_sender_kept"], premise=["premise_ok"])
    c.assumptions.append("fallback routing: the mailbox states are frozen during one send (receivers blocked by the harness); "
                         "concurrent draining while a chain is being walked is outside the model")
    c.assumptions.append("time.Timer.Stop returns true iff it prevented the function from running (Go runtime contract; hypothesis of C02_delayed)")
