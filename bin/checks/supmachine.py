"""Shared by c08 / c09 / c10: the supervisor machine correspondence (real supOFO/supARFO/supSOFO through
act/verif_export.go vs Sup/Machine.v) and the end-to-end run on a real node."""

IMPORTS = ("From Ergo Require Import Common.Base Sup.Intensity Sup.Machine Sup.MachineCases.\n"
           "Local Open Scope Z_scope.")

ASSUMPTIONS = [
    "machine level: the harness plays Supervisor.handleAction and the environment (fake pids, exits in any order, spawn failures); "
    "the Coq driver (Sup/Machine.v handleAction/step) is compared with it call by call, so it is tied to the harness, and to "
    "act/supervisor.go:handleAction by the end-to-end run only",
    "the wall clock of supCheckRestartIntensity is read back from the recorded restart list (its last element) and handed to the model",
    "exits of one pid are delivered once; a spawn for a spec whose previous instance's exit is still queued is refused by the "
    "environment in the theorems (no_stale guard; see findings/C08.md 'stale exit')",
]


import json


def replay_kind(c):
    """engine name stored in a replay file written by bin/check ('intensity', 'machine', 'e2e-c08', ...)."""
    if not c.replay:
        return ""
    try:
        return str(json.load(open(c.replay)).get("engine", ""))
    except Exception:
        return ""


def witness_tags(c):
    """tags of the known findings of this property: their witnesses are run (and reported as KNOWN-FINDING)
    only once known_findings.json lists them."""
    tags = []
    for e in c.kf:
        if e.get("status") == "known":
            tags += [t for t in e.get("match", {}).get("tags_all", []) if t not in tags]
    return tags


def machine(c, name, spec, premise, n_quick=1500, n_thorough=24000):
    if c.replay and not replay_kind(c).startswith("machine"):
        return
    n = n_quick if c.tier == "quick" else n_thorough
    if c.replay:
        out = c.harness("sup", ["machine", "-replay", c.replay])
    else:
        args = ["machine", "-n", str(n)]
        w = witness_tags(c)
        if w:
            args += ["-witness", ",".join(w)]
        out = c.harness("sup", args, timeout=900)
    if out:
        c.cases(name, out, IMPORTS, "mcase", corr=["corr_machine"], spec=spec, premise=premise)
    if c.broken and not c.violations and not c.replay:
        # something no longer checks: extra search budget for a concrete failing input, spec checkers only
        out = c.harness("sup", ["machine", "-n", str(n * 10 if c.tier == "quick" else n * 2)], timeout=1800,
                        env={"VERIF_SEED": str(c.seed + 7919)})
        if out:
            keep = list(c.broken)
            c.cases(name + "-search", out, IMPORTS, "mcase", corr=[], spec=spec, premise=premise)
            c.broken = keep + [b for b in c.broken if b not in keep]


def e2e(c, what, spec, premise, n_quick, n_thorough):
    """what: scenario family of the e2e sub-command (c08, c09, c10): real node, real act.Supervisor."""
    if c.replay and not replay_kind(c).startswith("e2e"):
        return
    n = n_quick if c.tier == "quick" else n_thorough
    if c.replay:
        out = c.harness("sup", ["e2e", "-what", what, "-replay", c.replay], timeout=600)
    else:
        out = c.harness("sup", ["e2e", "-what", what, "-n", str(n)], timeout=3000)
    if out:
        c.cases("e2e-" + what, out, IMPORTS, "ecase", corr=["corr_e2e"], spec=spec, premise=premise)
