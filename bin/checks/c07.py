"""C07 request/response correlation."""

IMPORTS = ("From Ergo Require Import Common.Base Ids.Model Call.Model Call.Cases.\n"
           "Local Open Scope Z_scope.\n")

CORR = ["corr_results", "corr_sends", "corr_presented", "corr_tokens"]
SPEC = ["spec_correlated", "spec_once_caller", "spec_once_callee", "spec_no_stall", "spec_ack_truthful"]


def _run(c, name, n, seed=None, corr=CORR):
    args = ["run", "-n", str(n)]
    if c.replay and seed is None:
        args = ["run", "-replay", c.replay]
    env = {"VERIF_SEED": str(seed)} if seed is not None else None
    out = c.harness("call", args, env=env, timeout=400 if c.tier == "quick" else 1500)
    if not out:
        return
    c.cases(name, out, IMPORTS, "ccase", corr=list(corr), spec=SPEC, premise=["premise_ok"])
    for note in out.get("notes") or []:
        c.cov.setdefault("notes", []).append(note)


def run(c):
    c.proofs("theories/Properties/C07.v", clean=(c.tier == "thorough"))
    c.translate(['TieIds'])  # T1: formulas / constants regenerated from the source, tie theorems re-checked
    n = 260 if c.tier == "quick" else 4000
    _run(c, "calls", n)
    if c.broken and not c.violations and not c.replay:
        # something no longer checks: spend the extra search budget on the property monitors only
        keep = list(c.broken)
        _run(c, "calls-search", n * 10 if c.tier == "quick" else n * 3, seed=c.seed + 7919, corr=[])
        c.broken = keep + [b for b in c.broken if b not in keep]
    c.cov["rule"] = ("distinct = different Coq case term (history with the real references, results, send codes); "
                     "non-trivial = the references of the case are pairwise distinct (hypothesis of the theorems) and "
                     "at least one call returned a reply")
    c.assumptions += [
        "the caller's select in waitResponse is gated by the harness through lib.VerifPoint(\"wait.select\") (build tag verif): "
        "a history is the order in which the harness performs sends and grants select passes; Go's random choice between a "
        "ready timer and a ready channel is a model event order the harness never produces (1 s timers, microsecond scripts)",
        "replies sent by act.Actor / the meta process itself (synchronous HandleCall result) have an unobservable send result",
        "references of calls whose RouteCall* failed never leave the node: a placeholder outside MakeRef's range stands for them",
        "references pairwise distinct: Ids engine (C06 refs_never_repeat) - MakeRef is injective on 64-bit counters",
        "exactly-once of the callee's real MPSC mailbox is property C02; the Call model has an abstract FIFO per callee",
        "remote callers/callees (network path of SendResponse) are outside this engine (C12)",
    ]
