"""C07 request/response correlation."""

IMPORTS = ("From Ergo Require Import Common.Base Ids.Model Call.Model Call.Cases.\n"
           "Local Open Scope Z_scope.\n")

CORR = ["corr_results", "corr_sends", "corr_presented", "corr_tokens"]
SPEC = ["spec_correlated", "spec_once_caller", "spec_once_callee", "spec_no_stall", "spec_ack_truthful"]


def _run(c, name, n, seed=None, corr=CORR):
    args = ["run", "-n", str(n)]
    if c.replay and seed is None:
        args = ["run", "-replay", c.replay]
    env = {"VERIF_SEED": str(seed)} if seed is not None else None
    out = c.harness("call", args, env=env, timeout=400 if c.tier == "quick" else 1500)
    if not out:
        return
    c.cases(name, out, IMPORTS, "ccase", corr=list(corr), spec=SPEC, premise=["premise_ok"])
    for note in out.get("notes") or []:
        c.cov.setdefault("notes", []).append(note)


G_IMPORTS = ("From Ergo Require Import Common.Base Rel.Amap Rel.Model NetFail.Model NetFail.Guard NetFail.GuardCases.\n"
             "Local Open Scope N_scope.")


def _is_guard_replay(path):
    import json
    try:
        return (json.load(open(path)).get("engine") or "").startswith("stale-incarnation")
    except Exception:
        return False


def _stale(c, name, n, seed=None, replay=None, corr=("corr_guard",)):
    """remote replies / requests across a restart of the peer: two real nodes, B restarted under the same name with the
    same spawn order (twins with equal numeric ids), every request/response operation attempted with identifiers of the
    previous incarnation (netfail guard; the rows SendResponse, SendResponseError, CallPID, CallAlias are C07's)"""
    env = {"VERIF_SEED": str(seed)} if seed is not None else None
    args = ["guard", "-replay", replay] if replay else ["guard", "-n", str(n), "-stream", "2"]
    out = c.harness("netfail", args, timeout=600, env=env)
    if out:
        c.cases(name, out, G_IMPORTS, "gcase", corr=list(corr), spec=["spec_guard_calls"], premise=["premise_guard_calls"])


P_IMPORTS = ("From Ergo Require Import Common.Base Pool.Model Pool.Cases.\n"
             "Local Open Scope Z_scope.\n")


def _replay_engine(path):
    import json
    try:
        return json.load(open(path)).get("engine") or ""
    except Exception:
        return ""


def _is_pool_replay(path):
    import json
    try:
        return (json.load(open(path)).get("engine") or "").startswith("pool-calls")
    except Exception:
        return False


def _pool(c, n, replay=None):
    """requests that reach their callee through an act.Pool (Forward keeps sender and reference; full / dead / respawned
    workers): a caller is answered by the worker that handled ITS request, no request is handled by two callees"""
    args = ["run", "-replay", replay] if replay else ["run", "-n", str(n), "-par", "96"]
    out = c.harness("pool", args, timeout=400 if c.tier == "quick" else 1500)
    if out:
        c.cases("pool-calls", out, P_IMPORTS, "pcase", corr=[], spec=["spec_reply_reaches_caller", "spec_one_worker"], premise=["premise_ok"])


def _metacall(c):
    """requests to the alias of a meta process with a bounded mailbox: a request the meta process cannot take fails with a
    delivery error and is never answered by another process; every answer is the meta process's answer to that request"""
    out = c.harness("call", ["metacall", "-n", "6"], timeout=300)
    if out:
        c.monitor("metacall", out)


def run(c):
    c.proofs("theories/Properties/C07.v", clean=(c.tier == "thorough"))
    c.translate(['TieIds', 'TieGuard'])  # T1: formulas / constants regenerated from the source, tie theorems re-checked
    n = 260 if c.tier == "quick" else 4000
    if c.replay and _is_guard_replay(c.replay):
        _stale(c, "stale-incarnation", 1, replay=c.replay)
        return
    if c.replay and _replay_engine(c.replay).startswith("metacall"):
        _metacall(c)
        return
    if c.replay and _is_pool_replay(c.replay):
        _pool(c, 1, replay=c.replay)
        return
    _run(c, "calls", n)
    if not c.replay:
        _stale(c, "stale-incarnation", 4 if c.tier == "quick" else 40)
        _pool(c, 100 if c.tier == "quick" else 1500)
        _metacall(c)
    if c.broken and not c.violations and not c.replay:
        # something no longer checks: spend the extra search budget on the property monitors only
        keep = list(c.broken)
        _run(c, "calls-search", n * 10 if c.tier == "quick" else n * 3, seed=c.seed + 7919, corr=[])
        c.broken = keep + [b for b in c.broken if b not in keep]
    c.cov["rule"] = ("distinct = different Coq case term (history with the real references, results, send codes); "
                     "non-trivial = the references of the case are pairwise distinct (hypothesis of the theorems) and "
                     "at least one call returned a reply")
    c.assumptions += [
        "the caller's select in waitResponse is gated by the harness through lib.VerifPoint(\"wait.select\") (build tag verif): "
        "a history is the order in which the harness performs sends and grants select passes; Go's random choice between a "
        "ready timer and a ready channel is a model event order the harness never produces (1 s timers, microsecond scripts)",
        "replies sent by act.Actor / the meta process itself (synchronous HandleCall result) have an unobservable send result",
        "references of calls whose RouteCall* failed never leave the node: a placeholder outside MakeRef's range stands for them",
        "references pairwise distinct: Ids engine (C06 refs_never_repeat) - MakeRef is injective on 64-bit counters",
        "exactly-once of the callee's real MPSC mailbox is property C02; the Call model has an abstract FIFO per callee",
        "remote callers / callees: the frame path is C12; across a restart of the peer the incarnation guard of the request / response "
        "operations is the theorem C07_stale_incarnation, tied to two real nodes on every run (netfail guard rows)",
    ]
