"""C06 registry integrity: unique identities, complete release on termination."""

IMPORTS_REL = "From Ergo Require Import Common.Base Rel.Amap Rel.Model Rel.Cases.\nLocal Open Scope N_scope."
IMPORTS_IDS = "From Ergo Require Import Common.Base Ids.Model Ids.Cases.\nLocal Open Scope N_scope."


IMPORTS_ILV = "From Ergo Require Import Common.Base Rel.Amap Rel.Model Rel.RaceGen Rel.RaceGenCases.\nLocal Open Scope N_scope."


IMPORTS_IF = "From Ergo Require Import Common.Base Rel.Amap Rel.InitFail Rel.InitFailCases.\nLocal Open Scope N_scope."


def _eval(c, sub, out, search=False):
    if sub == "initfail":
        # the registered name of processes held inside ProcessInit on a real node (Rel/InitFail.v replays the history)
        c.cases("initfail" + ("-search" if search else ""), out, IMPORTS_IF, "icase",
                corr=[] if search else ["corr_initfail"], spec=["spec_initfail"], premise=["premise_initfail"])
        return
    if sub == "ilv":
        # every interleaving of a link / monitor request with every way its target goes away (real node, threads parked at
        # the target manager calls): afterwards no relation names an identifier that is gone
        c.cases("ilv" + ("-search" if search else ""), out, IMPORTS_ILV, "rcase",
                corr=[], spec=["spec_ilv_release"], premise=["premise_ilv"])
        return
    if sub == "ref":
        c.cases("ref" + ("-search" if search else ""), out, IMPORTS_IDS, "refcase",
                corr=[] if search else ["corr_ref"], spec=["spec_ref"], premise=["premise_ref"])
    elif sub == "hist":
        c.cases("hist" + ("-search" if search else ""), out, IMPORTS_REL, "hcase",
                corr=[] if search else ["corr_hist"], spec=["spec_hist_c06"], premise=["premise_hist"])
    elif sub == "tm":
        c.cases("tm" + ("-search" if search else ""), out, IMPORTS_REL, "tmcase",
                corr=[] if search else ["corr_tm"], spec=["spec_tm"], premise=["premise_tm"])
    elif sub == "race":
        out["monitor"] = [m for m in (out.get("monitor") or [])
                          if "link-vs-terminate" not in (out["replays"][m["case"]].get("tags") or [])]
        c.monitor("race", out)


def run(c):
    c.proofs("theories/Properties/C06.v", clean=(c.tier == "thorough"))
    c.translate(['TieIds'])  # T1: formulas / constants regenerated from the source, tie theorems re-checked
    quick = c.tier == "quick"
    n = {"ref": 1500 if quick else 20000, "hist": 250 if quick else 3000, "tm": 150 if quick else 2000,
         "race": 1500 if quick else 30000}
    if c.replay:
        import json
        eng = (json.load(open(c.replay)).get("engine") or "ref")
        if eng.startswith("meta-alias"):
            out = c.harness("sched", ["meta", "-replay", c.replay])
            if out:
                out["monitor"] = [m for m in (out.get("monitor") or []) if "meta-alias" in (m.get("tags") or [])]
                c.monitor("meta-alias", out)
            return
        sub = eng.split("-")[0]
        out = c.harness("rel", [sub, "-replay", c.replay])
        if out:
            _eval(c, sub, out)
        return
    n["ilv"] = 0
    n["initfail"] = 150 if quick else 3000
    for sub in ("ref", "hist", "tm", "race", "ilv", "initfail"):
        out = c.harness("rel", [sub, "-n", str(n[sub])], timeout=900)
        if out:
            _eval(c, sub, out)
    # aliases of meta processes: every way a meta process terminates (Start returns while the handler is idle / inside a
    # callback, the parent terminates, a callback fails), under the schedules of the Sched meta family; afterwards the alias
    # must not resolve any more
    out = c.harness("sched", ["meta", "-n", "150" if quick else "3000"], timeout=900 if quick else 3000)
    if out:
        out["monitor"] = [m for m in (out.get("monitor") or []) if "meta-alias" in (m.get("tags") or [])]
        c.monitor("meta-alias", out)
    if c.broken and not c.violations:
        keep = list(c.broken)
        for sub in ("ref", "hist", "tm", "race"):
            out = c.harness("rel", [sub, "-n", str(n[sub] * (10 if quick else 3))], timeout=1500,
                            env={"VERIF_SEED": str(c.seed + 7919)})
            if out:
                _eval(c, sub, out, search=True)
            if c.violations:
                break
        c.broken = keep + [b for b in c.broken if b not in keep]
    c.cov["rule"] = ("distinct = different Coq case term; non-trivial = ref: two different counters below 2^64, hist: a process "
                     "terminated and some actor handled a notification, tm: some cleanup reported a relation")
    c.assumptions += [
        "the 64-bit counters n.uniqID and n.nextID do not wrap during a node's life (stated hypothesis counter + k < 2^64; uniqID starts at time.Now().UnixNano())",
        "sync.Map.LoadOrStore / LoadAndDelete / CompareAndDelete and atomic.Bool operations are linearizable; racing registrants are modelled by the order in which their LoadOrStore takes effect",
        "process-level operations run inside the owning actor's callback (state Running); only node.RegisterName and node.Kill are called from foreign goroutines",
        "meta-process aliases are not in the Rel model; their release after every kind of termination of a meta process is monitored on the real node under the schedules of the Sched meta family (send to the alias must fail afterwards); the agreement / release / no-dangling theorems speak about sequential histories of atomic registry operations",
    ]
