"""C12 remote delivery integrity (Proto engine)."""

IMPORTS = ("From Coq Require Import Uint63.\n"
           "From Ergo Require Import Common.Base Proto.Model Proto.Cases Wire.Cases.\n"
           "Local Open Scope Z_scope.")

SHARD = 10
CORR = ["corr_send", "corr_recv", "corr_resegment", "corr_ack_frames", "corr_e2e"]
SPEC = ["spec_delivery", "spec_limit"]

# dialing side of a pool link: handshake tails, link drops, re-dials (harness sub-command `redial`)
RD_IMPORTS = ("From Coq Require Import Uint63.\n"
              "From Ergo Require Import Common.Base Proto.Model Proto.Cases Proto.Redial Proto.RedialCases.\n"
              "Local Open Scope Z_scope.")
RD_CORR = ["corr_rd_delivery", "corr_rd_loop"]
RD_SPEC = ["spec_rd_once"]
RD_MONITOR = ("dup:", "lost:", "extra:", "back:", "unknown:")   # lines of the Go monitor that state C12 (order: is C13)


def _replay_engine(path):
    import json
    try:
        return json.load(open(path)).get("engine") or ""
    except (OSError, ValueError):
        return ""


def _redial(c, n, name="redial", corr=RD_CORR, env=None, replay=None):
    args = ["redial", "-replay", replay] if replay else ["redial", "-n", str(n)]
    out = c.harness("proto", args, timeout=900, env=env)
    if out:
        out["monitor"] = [m for m in (out.get("monitor") or []) if m["what"].startswith(RD_MONITOR)]
        c.cases(name, out, RD_IMPORTS, "rcase", corr=corr, spec=RD_SPEC, premise=["premise_rd"], shard=40)


def _prepare():
    """The cases carry the raw wire bytes: give coqc a deep stack and evaluate small shards in parallel
    (helpers local to this module; vlib is used as it is)."""
    import resource
    import vlib
    try:
        resource.setrlimit(resource.RLIMIT_STACK, (resource.RLIM_INFINITY, resource.RLIM_INFINITY))
    except (ValueError, OSError):
        pass
    if not getattr(vlib.coq_eval_cases, "_proto_small_shards", False):
        orig = vlib.coq_eval_cases

        def small_shards(tag, imports, ctype, cases, checkers, shard=SHARD, timeout=900):
            return orig(tag, imports, ctype, cases, checkers, shard=SHARD, timeout=timeout)
        small_shards._proto_small_shards = True
        vlib.coq_eval_cases = small_shards


def _linkloss(c, n, replay=None, name="linkloss", env=None):
    args = ["linkloss", "-replay", replay] if replay else ["linkloss", "-n", str(n)]
    out = c.harness("proto", args, timeout=900, env=env)
    if out:
        # links and order bytes chosen by send() after the loss against the model of the pool (pool_drop), in Coq;
        # exactly-once delivery is the Go monitor of the family
        c.cases(name, out, IMPORTS, "ocase", corr=["corr_links"], spec=[], premise=[])


def run(c):
    _prepare()
    c.proofs("theories/Properties/C12.v", clean=(c.tier == "thorough"))
    c.translate(['TieProto'])  # T1: formulas / constants regenerated from the source, tie theorems re-checked
    n = 150 if c.tier == "quick" else 2400
    nrd = 200 if c.tier == "quick" else 3000
    out = None
    if c.replay and _replay_engine(c.replay).startswith("redial"):
        _redial(c, 1, replay=c.replay)
    elif c.replay:
        out = c.harness("proto", ["c12", "-replay", c.replay])
    else:
        out = c.harness("proto", ["c12", "-n", str(n)], timeout=900)
    if out:
        c.cases("frames", out, IMPORTS, "pcase", corr=CORR, spec=SPEC, premise=["premise_c12"])
    if not c.replay:
        _redial(c, nrd)
    # a pooled link is lost while the connection stays up: everything sent before and after is delivered exactly once
    if c.replay and _replay_engine(c.replay).startswith("linkloss"):
        _linkloss(c, 1, replay=c.replay)
    elif not c.replay:
        _linkloss(c, 60 if c.tier == "quick" else 1500)
    if c.broken and not c.violations and not c.replay:
        # something no longer checks: spend the extra search budget looking for a failing input
        out = c.harness("proto", ["c12", "-n", str(n * 10)], timeout=1500, env={"VERIF_SEED": str(c.seed + 7919)})
        if out:
            keep = list(c.broken)
            c.cases("frames-search", out, IMPORTS, "pcase", corr=[], spec=SPEC, premise=["premise_c12"])
            c.broken = keep + [b for b in c.broken if b not in keep]
        if not c.violations:
            keep = list(c.broken)
            _redial(c, nrd * 3, name="redial-search", corr=[], env={"VERIF_SEED": str(c.seed + 7919)})
            c.broken = keep + [b for b in c.broken if b not in keep]
        if not c.violations:
            keep = list(c.broken)
            _linkloss(c, 600, name="linkloss-search", env={"VERIF_SEED": str(c.seed + 7919)})
            c.broken = keep + [b for b in c.broken if b not in keep]
    c.cov["rule"] = ("distinct = different Coq case term (requests, wire bytes, chunking, calls); non-trivial = at least one request "
                     "accepted and every send returned nil or ErrTooLarge")
    c.assumptions += [
        "re-dial family: the peer of the dialing side is played by the harness (raw bytes of frames a real sending connection "
        "wrote; net.Pipe, so a successful write = bytes read by serve()); a link drop is the peer closing the socket (EOF); what "
        "the drop cut inside a frame, and what a node writes to a link between its loss and the completed re-dial, is lost with "
        "the link (send still returns nil: the pool item stays in the pool while it is re-dialed)",
        "TCP delivers the bytes of each link in order and unchanged (the relay re-chunks but never reorders within a link)",
        "compress/decompress of the Go standard library (gzip, zlib, lzw) round-trip: abstract codec with the round-trip law as "
        "section hypothesis; in the correspondence check the codec is the table of (inner frame, stream) pairs seen on the wire, "
        "cross-checked with the standard library by the harness",
        "EDF payloads are opaque byte strings at this level (C11 covers them); the harness compares decoded values in Go",
        "one process sends sequentially (the harness issues the sends of a case from one goroutine)",
        "frames whose length field is below 8 or whose fixed fields are truncated are hostile input (C16), not produced here",
    ]
