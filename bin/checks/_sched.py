"""Shared part of the Sched checks (C01, C02, C05): controlled-schedule runs of the real runtime."""
import os
import vlib

IMPORTS = "From Ergo Require Import Common.Base Sched.Model Sched.Cases."
M_IMPORTS = "From Ergo Require Import Common.Base Sched.MetaModel Sched.MetaCases."


def run_meta(c, spec):
    """controlled-schedule runs of a real meta-process (node/meta.go)"""
    quick = c.tier == "quick"
    if c.replay:
        args = ["meta", "-replay", c.replay]
    else:
        args = ["meta", "-n", "300" if quick else "8000"]
    out = c.harness("sched", args, timeout=900 if quick else 3000)
    if out:
        # an alias that outlives its meta process is C06's observation (bin/checks/c06.py), not a statement about callbacks
        out["monitor"] = [m for m in (out.get("monitor") or []) if "meta-alias" not in (m.get("tags") or [])]
        for n in out.get("notes") or []:
            c.broken.append({"kind": "scheduler-stall", "what": n})
        c.cases("meta", out, M_IMPORTS, "mcase", corr=["corr_meta"], spec=spec, premise=["premise_meta"])


def run(c, props, spec, meta_spec=None):
    c.proofs(props, clean=(c.tier == "thorough"))
    c.translate(["TieSched"])  # T1: the atomic operations on the state word, extracted from the source, are the LTS's transitions
    quick = c.tier == "quick"
    corpus = os.path.join(vlib.VERIF, "corpus", "sched")
    runs = []
    is_meta_replay = False
    if c.replay:
        import json
        is_meta_replay = json.load(open(c.replay)).get("engine", "").startswith("meta")
    if meta_spec and (not c.replay or is_meta_replay):
        run_meta(c, meta_spec)
    if is_meta_replay:
        return
    if c.replay:
        runs.append(("replay", ["run", "-replay", c.replay]))
    else:
        runs.append(("corpus", ["corpus", "-corpus", corpus]))
        runs.append(("dfs", ["dfs", "-n", "100000" if quick else "3000000", "-preempt", "1" if quick else "2"]))
        runs.append(("random", ["run", "-n", "600" if quick else "8000"]))
    for name, args in runs:
        out = c.harness("sched", args, timeout=900 if quick else 3000)
        if not out:
            continue
        for n in out.get("notes") or []:
            c.broken.append({"kind": "scheduler-stall", "what": n})
        c.cases(name, out, IMPORTS, "scase", corr=["corr_ok"], spec=spec, premise=["premise_ok"])
    if c.broken and not c.violations and not c.replay:
        # 1. local search around the schedules on which model and implementation differ
        firsts = [b.get("first_case") for b in c.broken if b.get("kind") == "correspondence" and b.get("first_case") and "sched" in (b.get("first_case") or {})]
        if firsts:
            import json
            os.makedirs(os.path.join(vlib.BUILD, "out"), exist_ok=True)
            ar = os.path.join(vlib.BUILD, "out", "%s-around.json" % c.prop)
            json.dump({"cases": firsts[:4]}, open(ar, "w"))
            keep = list(c.broken)
            out = c.harness("sched", ["around", "-replay", ar, "-n", "3000"], timeout=900)
            if out:
                c.cases("around", out, IMPORTS, "scase", corr=[], spec=spec, premise=["premise_ok"])
            c.broken = keep + [b for b in c.broken if b not in keep]
    if c.broken and not c.violations and not c.replay:
        out = c.harness("sched", ["run", "-n", "3000"], timeout=1800, env={"VERIF_SEED": str(c.seed + 7919)})
        if out:
            keep = list(c.broken)
            c.cases("random-search", out, IMPORTS, "scase", corr=[], spec=spec, premise=["premise_ok"])
        if meta_spec:
            out = c.harness("sched", ["meta", "-n", "4000"], timeout=1800, env={"VERIF_SEED": str(c.seed + 7919)})
            if out:
                c.cases("meta-search", out, M_IMPORTS, "mcase", corr=[], spec=meta_spec, premise=["premise_meta"])
        c.broken = keep + [b for b in c.broken if b not in keep]
    c.assumptions += [
        "Go sync/atomic operations are sequentially consistent; between two lib.VerifPoint hooks a goroutine performs at most one access to the state word / process table / mailbox links (the hook sits immediately before each)",
        "goroutine scheduling is abstracted to interleavings of the hooked accesses (real parallelism between two hooks is not explored)",
        "callbacks are those of an act.Actor test behaviour (ok / error / panic / synchronous Call); the scheduler serialises granted steps",
    ]
