"""C16 hostile input safety of the EDF decoder, the handshake and the frame parser."""
import json

IMPORTS = ("From Coq Require Import String.\n"
           "From Ergo Require Import Common.Base Common.Bytes Common.Codec Edf.Model Edf.Cases "
           "Hostile.Alloc Hostile.Frames Hostile.HsMsg Hostile.Cases.\n"
           "Local Open Scope N_scope.\n")

# input classes of known findings: generated only when known_findings.json lists the tag
TAGS = ["array-descriptor", "nested-count-amplification", "descriptor-error-chain", "zero-width-loop",
        "decompress-declared-size", "zero-width-elem", "map-array-key"]


def _known_tags(c):
    out = []
    for e in c.kf:
        if e.get("status") != "known":
            continue
        for t in e.get("match", {}).get("tags_all", []):
            if t in TAGS and t not in out:
                out.append(t)
    return out


def _args(c, sub, n, replay=None):
    a = [sub]
    if replay:
        a += ["-replay", replay]
    else:
        a += ["-n", str(n)]
    kt = _known_tags(c)
    if kt:
        a += ["-known", ",".join(kt)]
    return a


def _edf(c, name, n, seed=None, corr=("corr_dec", "corr_alloc"), replay=None):
    env = {"VERIF_SEED": str(seed)} if seed is not None else None
    out = c.harness("hostile", _args(c, "edf", n, replay), env=env, timeout=900)
    if not out:
        return
    out["monitor"] = out.get("monitor") or []
    imports = IMPORTS + out.get("extra", {}).get("prelude", "")
    c.cases(name, out, imports, "hcase", corr=list(corr), spec=["spec_alloc", "spec_idem"],
            premise=["premise_accept", "premise_idem"])


def _frames(c, name, n, seed=None, corr=("corr_frames",), replay=None):
    env = {"VERIF_SEED": str(seed)} if seed is not None else None
    out = c.harness("hostile", _args(c, "frames", n, replay), env=env, timeout=900)
    if not out:
        return
    out["monitor"] = out.get("monitor") or []
    c.cases(name, out, IMPORTS, "fcase", corr=list(corr), spec=["spec_frames"], premise=["premise_frames"])


def _hs(c, name, n, seed=None, replay=None):
    env = {"VERIF_SEED": str(seed)} if seed is not None else None
    out = c.harness("hostile", _args(c, "hs", n, replay), env=env, timeout=900)
    if not out:
        return
    out["monitor"] = out.get("monitor") or []
    c.monitor(name, out)


def _hsnode(c, name, replay=None):
    """a real node against a peer that knows the cookie and sends invalid MessageIntroduce / MessageAccept fields"""
    import os
    a = ["hsnode"]
    if replay:
        a += ["-replay", replay]
    else:
        a += ["-corpus", os.path.join(os.path.dirname(os.path.dirname(os.path.dirname(os.path.abspath(__file__)))), "corpus", "C16")]
    out = c.harness("hostile", a, timeout=600)
    if not out:
        return
    out["monitor"] = out.get("monitor") or []
    c.cases(name, out, IMPORTS, "ncase", corr=["corr_hsnode"], spec=["spec_hsnode"], premise=["premise_hsnode"])


def run(c):
    c.proofs("theories/Properties/C16.v", clean=(c.tier == "thorough"))
    c.translate(['TieProto', 'TieEdf'])  # T1: formulas / constants regenerated from the source, tie theorems re-checked
    import vlib
    ok, log = vlib.coq_make(["theories/Hostile/Cases.vo"])
    if not ok:
        c.broken.append({"kind": "proof", "what": "Coq build of theories/Hostile/Cases.v failed", "detail": log[-2500:]})
    quick = c.tier == "quick"
    n_edf, n_fr, n_hs = (1000, 300, 150) if quick else (12000, 2500, 1500)
    if c.replay:
        try:
            eng = json.load(open(c.replay)).get("engine", "")
        except Exception:
            eng = ""
        if eng.startswith("frames"):
            _frames(c, "frames", 1, replay=c.replay)
        elif eng.startswith("hsnode"):
            _hsnode(c, "hsnode", replay=c.replay)
        elif eng.startswith("hs"):
            _hs(c, "hs", 1, replay=c.replay)
        else:
            _edf(c, "edf", 1, replay=c.replay)
    else:
        _edf(c, "edf", n_edf)
        _frames(c, "frames", n_fr)
        _hs(c, "hs", n_hs)
        _hsnode(c, "hsnode")
        if c.broken and not c.violations:
            # something no longer checks: extra search budget on the property monitors only
            keep = list(c.broken)
            _edf(c, "edf-search", n_edf * (4 if quick else 2), seed=c.seed + 7919, corr=())
            _frames(c, "frames-search", n_fr * (3 if quick else 2), seed=c.seed + 7919, corr=())
            _hs(c, "hs-search", n_hs, seed=c.seed + 7919)
            c.broken = keep + [b for b in c.broken if b not in keep]
    c.cov["rule"] = ("distinct = different Coq case term (options, input bytes, observation); non-trivial (edf) = the model accepts "
                     "the input, the bound of C16_alloc_accepted_linear holds in the model and the guard of C16_idempotent holds on "
                     "the decoded value; non-trivial (frames) = at least one frame passed the header checks and the model predicts "
                     "survival; non-trivial (hsnode) = the handshake message is invalid (C16_hs_invalid_rejected applies)")
    c.assumptions += [
        "the real decoder / handshake / connection run in child processes under `ulimit -v` (3 GiB / 2 GiB) and a timeout: "
        "no crash, no hang and bounded memory of the Go runtime are OBSERVED per input, not proved",
        "allocation = runtime.MemStats.TotalAlloc delta of the call in a single-threaded child; the model counts the declared-size "
        "allocations (reflect.New / MakeSlice / MakeMapWithSize, copies of consumed bytes) with Go sizes on a 64-bit platform, "
        "struct padding, boxing of primitives, decoder closures and reflect type objects are covered by the constants AL_K, AL_K0",
        "inflate (compress/gzip, zlib, lzw of the Go standard library) is a parameter of the frame model; gzip / zlib header "
        "validation before the allocation is not modelled",
        "Go values reach the model through the harness' reflect-based printer (shared with the Edf engine)",
        "edf.Marshaler / encoding.BinaryMarshaler types and options.Cache are outside the decoder model (as in C11)",
        "hsnode: real nodes on localhost TCP; the hostile party knows the cookie (digests are correct), only the declared fields are hostile; "
        "the out-of-memory threshold of the pool-size model (2^22 queues) is the one observed under the 2 GiB limit",
        "frames: the fake gen.Core stands for the node; 'local process' and the unrelated connection live in the same child process",
    ]
