"""C19 pool dispatch: each request to exactly one live worker."""

IMPORTS = ("From Ergo Require Import Common.Base Pool.Model Pool.Cases.\n"
           "Local Open Scope Z_scope.\n")

CORR = ["corr_verdicts", "corr_handled", "corr_lens"]
SPEC = ["spec_one_worker", "spec_sender_kept", "spec_reply_reaches_caller", "spec_ring_size", "spec_drop_iff_full"]


def _run(c, name, n, seed=None, corr=CORR):
    args = ["run", "-n", str(n), "-par", "96"]
    if c.replay and seed is None:
        args = ["run", "-replay", c.replay]
    env = {"VERIF_SEED": str(seed)} if seed is not None else None
    out = c.harness("pool", args, env=env, timeout=400 if c.tier == "quick" else 1500)
    if not out:
        return
    c.cases(name, out, IMPORTS, "pcase", corr=list(corr), spec=SPEC, premise=["premise_ok"])
    for note in out.get("notes") or []:
        c.cov.setdefault("notes", []).append(note)


def run(c):
    c.proofs("theories/Properties/C19.v", clean=(c.tier == "thorough"))
    c.translate(['TiePool'])  # T1: formulas / constants regenerated from the source, tie theorems re-checked
    n = 140 if c.tier == "quick" else 3000
    _run(c, "pool", n)
    if c.broken and not c.violations and not c.replay:
        keep = list(c.broken)
        _run(c, "pool-search", n * 6 if c.tier == "quick" else n * 3, seed=c.seed + 7919, corr=[])
        c.broken = keep + [b for b in c.broken if b not in keep]
    c.cov["rule"] = ("distinct = different Coq case term (pool size, mailbox size, history, observations); non-trivial = some "
                     "message met a full or dead worker (skipped / respawned / dropped) or a worker crashed or was removed")
    c.assumptions += [
        "workers are act.Actor processes whose handlers are held and released by the harness; a worker takes its next message "
        "only at a harness action, so the history (order of dispatches, worker progress, crashes) is the harness' script",
        "a dispatch is complete when the pool's own counters (messages_forwarded + messages_unhandled, read through Inspect) "
        "account for the message; the verdict of a dispatch is read from the counter deltas",
        "Spawn failure of a worker = its Init returns an error (chosen by the harness); the fresh worker's Forward is assumed "
        "to succeed (its error is not looked at by the code either)",
        "RemoveWorkers: the removed worker is out of the ring at once; whether it still handles queued messages before the exit "
        "signal is not part of the model (lost messages are permitted by the property)",
        "reference kept: observed through the reply reaching the caller that waits for that reference (C07)",
    ]
