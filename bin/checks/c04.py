"""C04 links and monitors: exactly one notification when the target goes away."""

IMPORTS = "From Ergo Require Import Common.Base Rel.Amap Rel.Model Rel.Cases.\nLocal Open Scope N_scope."
IMPORTS_NODE = "From Ergo Require Import Common.Base Rel.Amap Rel.Model Rel.RaceGen Rel.RaceGenCases Rel.NodeRace Rel.NodeRaceCases.\nLocal Open Scope N_scope."
IMPORTS_ILV = "From Ergo Require Import Common.Base Rel.Amap Rel.Model Rel.RaceGen Rel.RaceGenCases.\nLocal Open Scope N_scope."


def _eval(c, sub, out, search=False):
    if sub == "tm":
        c.cases("tm" + ("-search" if search else ""), out, IMPORTS, "tmcase",
                corr=[] if search else ["corr_tm"], spec=["spec_tm"], premise=["premise_tm"])
    elif sub == "hist":
        c.cases("hist" + ("-search" if search else ""), out, IMPORTS, "hcase",
                corr=[] if search else ["corr_hist"], spec=["spec_hist_c04"], premise=["premise_hist"])
    elif sub == "ilv":
        # every interleaving of a link/monitor request with every remover of its target (real node,
        # threads parked at the target manager calls); the corpus is the exhaustive enumeration
        c.cases("ilv" + ("-search" if search else ""), out, IMPORTS_ILV, "rcase",
                corr=[] if search else ["corr_ilv"], spec=["spec_ilv"], premise=["premise_ilv"])
    elif sub == "ilvnode":
        # LinkNode / MonitorNode against the loss of the connection: every interleaving on two real nodes
        c.cases("ilvnode" + ("-search" if search else ""), out, IMPORTS_NODE, "ncase",
                corr=[] if search else ["corr_node"], spec=["spec_node"], premise=["premise_node"])
    elif sub == "race":
        # Go monitor only; failures not about link/monitor requests belong to C06
        out["monitor"] = [m for m in (out.get("monitor") or [])
                          if "link-vs-terminate" in (out["replays"][m["case"]].get("tags") or [])]
        c.monitor("race", out)


def run(c):
    c.proofs("theories/Properties/C04.v", clean=(c.tier == "thorough"))
    quick = c.tier == "quick"
    n = {"tm": 300 if quick else 4000, "hist": 250 if quick else 3000, "race": 1500 if quick else 30000, "ilv": 0, "ilvnode": 0}
    if c.replay:
        import json
        eng = (json.load(open(c.replay)).get("engine") or "tm")
        sub = eng.split("-")[0]
        out = c.harness("rel", [sub, "-replay", c.replay])
        if out:
            _eval(c, sub, out)
        return
    for sub in ("ilv", "ilvnode", "tm", "hist", "race"):
        out = c.harness("rel", [sub, "-n", str(n[sub])], timeout=900)
        if out:
            _eval(c, sub, out)
    if c.broken and not c.violations:
        # something no longer checks: spend the extra search budget looking for a failing input
        keep = list(c.broken)
        for sub in ("ilv", "ilvnode", "tm", "hist", "race"):
            out = c.harness("rel", [sub, "-n", str(n[sub] * (10 if quick else 3))], timeout=1500,
                            env={"VERIF_SEED": str(c.seed + 7919)})
            if out:
                _eval(c, sub, out, search=True)
            if c.violations:
                break
        c.broken = keep + [b for b in c.broken if b not in keep]
    c.cov["rule"] = ("distinct = different Coq case term (tm: method-call sequence with answers; hist: operation history with "
                     "observations); non-trivial = tm: some cleanup reported a relation, hist: a process terminated and some "
                     "actor handled an exit/down message; ilv: (remover kind, link/monitor, schedule) with the observed outcome, non-trivial = the "
                     "schedule is a true interleaving (neither thread ran to its end before the other started) and the remover takes "
                     "the requested target away; race runs are counted as evaluations only")
    c.assumptions += [
        "Go map iteration order is unspecified: lists returned by the target manager and the notifications one operation sends to one actor are compared as multisets",
        "observer actors are act.Actor with TrapExit: an exit signal of the parent terminates them (modelled: s_pending/OCascade, act/actor.go switch); what a dying actor still has in its mailbox is not observed",
        "histories are sequential: the harness waits for quiescence (ping round over all live actors, Terminate callbacks) after every operation",
        "race theorem: the requester is not the terminating process and stays alive; Go sync.Map / atomic operations are linearizable (each model step = one such operation or one critical section of the target manager mutex)",
        "race theorems for all removers (C04_race_any_remover, C04_race_exactly_one): two threads - one request, one remover (unregisterProcess, node.UnregisterName, process.DeleteAlias, unregisterEvent); nobody else writes the node tables meanwhile, so 'Load, owner check, Delete' / LoadAndDelete of a remover is one step; the drain (CleanupTarget + the sends) is one step: the snapshot is taken under the target manager mutex and the requester never reads mailboxes",
        "interleaving runs (ilv): the threads are parked inside a wrapper of the real target manager (before/after Add*, before Remove*, before/after CleanupTarget) installed through NodeOptions.TargetManager; kill scenarios start at the unreg.delete yield point (state word of the owner already Terminated); the code between two parking points is one model step",
        "node target (C04_node_race_exactly_one, ilvnode): a connection lookup that finds no entry fails (the harness removes the static route once the connection stands; network.GetNode would otherwise dial again and the request would refer to the new connection); two real nodes in one OS process over loopback TCP; the connection is dropped with RemoteNode.Disconnect on the requester's node and unregisterConnection runs in the serve goroutine of that connection; its sends are awaited by polling the requester's mailbox (up to 120 ms after the last release)",
        "remote targets: only the target manager (CleanupNode) is modelled here; network frames belong to C14; the remote branches of RouteLink*/RouteMonitor* (request answered by the peer, connection lost, relation inserted after CleanupNode) are not covered by the race theorems",
        "history-level theorems (C04_sequential_hist, C04_history_total): operations are atomic and the 64-bit process id counter does not wrap (nextpid + number of operations < 2^64); meta-process aliases and event consumer counters are outside the model",
    ]
