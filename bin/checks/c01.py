"""C01 serial execution (processes and meta-processes)."""
from checks import _sched


def run(c):
    _sched.run(c, "theories/Properties/C01.v", ["spec_c01"], meta_spec=["spec_meta_c01"])
