"""C01 serial execution (process part; meta-process part: see claims)."""
from checks import _sched


def run(c):
    _sched.run(c, "theories/Properties/C01.v", ["spec_c01"])
