"""C10 no orphans: supervisor part (Sup engine) + application / node part (App engine)."""
from checks import supmachine as sm
from checks import _c10_app


def run(c):
    c.proofs("theories/Properties/C10.v", clean=(c.tier == "thorough"))
    sm.machine(c, "machine", spec=["spec_no_orphans", "spec_noticed"], premise=["premise_terminated"],
               n_quick=1200, n_thorough=16000)
    sm.e2e(c, "c10", spec=["spec_e2e_no_orphans", "spec_e2e_prescribed"], premise=["premise_e2e_dead"], n_quick=30, n_thorough=500)
    _c10_app.run(c)
    # pools: every worker ever started (initial, added, replacement spawned by forward) dies with the pool
    is_pool_replay = False
    if c.replay:
        import json
        is_pool_replay = json.load(open(c.replay)).get("engine", "") == "pool-orphans"
    if not c.replay or is_pool_replay:
        args = ["orphans", "-replay", c.replay] if is_pool_replay else ["orphans", "-n", "60" if c.tier == "quick" else "600"]
        out = c.harness("pool", args, timeout=900)
        if out:
            c.monitor("pool-orphans", out)
    # start-up / restart failures and trees with exit-trapping children and nested supervisors
    is_sf_replay = False
    if c.replay:
        import json
        is_sf_replay = json.load(open(c.replay)).get("engine", "") == "sup-startfail"
    if not c.replay or is_sf_replay:
        args = ["startfail", "-replay", c.replay] if is_sf_replay else ["startfail", "-n", "90" if c.tier == "quick" else "900"]
        out = c.harness("sup", args, timeout=1200)
        if out:
            c.monitor("sup-startfail", out)
    c.assumptions += sm.ASSUMPTIONS + [
        "terminations that bypass the machine (Node.Kill of the supervisor, failed Spawn during a restart) rely on the "
        "LinkParent exit propagation of node/ - checked end to end on the real node only, not a theorem of this engine",
    ]
