"""C10 no orphans: supervisor part (Sup engine) + application / node part (App engine)."""
from checks import supmachine as sm
from checks import _c10_app


TREE_IMPORTS = "From Ergo Require Import Common.Base Tree.Model Tree.Cases."

TREE_ASSUMPTIONS = [
    "forest model (Tree/Model.v): a mailbox accepts every exit signal (a bounded Urgent queue that is full refuses it: "
    "sendExitMessage returns ErrProcessMailboxFull and nobody retries - outside the model)",
    "forest model: unregisterProcess sends its exit messages in one step; a process inside ProcessInit is treated like a "
    "registered one that is in no wait set; the spawner of a process whose start failed is sent nothing (it gets the error of Spawn; "
    "a supervisor then leaves handleAction with it - an environment terminate step read back from the run); "
    "every process eventually handles its mailbox (callbacks return)",
    "tree scenarios: the environment's choices (who ended without a fatal exit signal: killed, own error, a supervisor's own "
    "decision, failed init; which signals live processes sent) are read back from the observed run and handed to the model",
]


def run(c):
    c.proofs("theories/Properties/C10.v", clean=(c.tier == "thorough"))
    # T1: exit signals travel through the Urgent queue only; a process that goes to sleep looks at every queue again (tie_sleep_rechecks_every_queue)
    c.translate(['TieSched'])
    sm.machine(c, "machine", spec=["spec_no_orphans", "spec_noticed"], premise=["premise_terminated"],
               n_quick=1200, n_thorough=16000)
    sm.e2e(c, "c10", spec=["spec_e2e_no_orphans", "spec_e2e_prescribed"], premise=["premise_e2e_dead"], n_quick=30, n_thorough=500)
    _c10_app.run(c)
    # pools: every worker ever started (initial, added, replacement spawned by forward) dies with the pool
    is_pool_replay = False
    if c.replay:
        import json
        is_pool_replay = json.load(open(c.replay)).get("engine", "") == "pool-orphans"
    if not c.replay or is_pool_replay:
        args = ["orphans", "-replay", c.replay] if is_pool_replay else ["orphans", "-n", "60" if c.tier == "quick" else "600"]
        out = c.harness("pool", args, timeout=900)
        if out:
            c.monitor("pool-orphans", out)
    # start-up / restart failures and trees with exit-trapping children and nested supervisors
    is_sf_replay = False
    if c.replay:
        import json
        is_sf_replay = json.load(open(c.replay)).get("engine", "") == "sup-startfail"
    if not c.replay or is_sf_replay:
        args = ["startfail", "-replay", c.replay] if is_sf_replay else ["startfail", "-n", "90" if c.tier == "quick" else "900"]
        out = c.harness("sup", args, timeout=1200)
        if out:
            c.monitor("sup-startfail", out)
    # LinkParent closure over arbitrary trees: every scenario is also a Coq case (Tree/Cases.v)
    is_tree_replay = False
    if c.replay:
        import json
        is_tree_replay = json.load(open(c.replay)).get("engine", "") in ("sup-tree", "sup-tree-search")
    if not c.replay or is_tree_replay:
        n = 70 if c.tier == "quick" else 700
        args = ["tree", "-replay", c.replay] if is_tree_replay else ["tree", "-n", str(n)]
        out = c.harness("sup", args, timeout=1500)
        if out:
            c.cases("sup-tree", out, TREE_IMPORTS, "tcase", corr=["corr_survivors", "corr_signals"],
                    spec=["spec_no_orphans", "spec_model_no_orphans"], premise=["premise_owner_died"])
        if c.broken and not c.violations and not c.replay:
            keep = list(c.broken)
            out = c.harness("sup", ["tree", "-n", str(n * 4)], timeout=1800, env={"VERIF_SEED": str(c.seed + 7919)})
            if out:
                c.cases("sup-tree-search", out, TREE_IMPORTS, "tcase", corr=[], spec=["spec_no_orphans"], premise=["premise_owner_died"])
            c.broken = keep + [b for b in c.broken if b not in keep]
    # graceful Node.Stop() over random process trees (trapping actors spawned by other actors, supervisors, pools)
    is_ns_replay = False
    if c.replay:
        import json
        is_ns_replay = json.load(open(c.replay)).get("engine", "") == "sup-nodestop"
    if not c.replay or is_ns_replay:
        args = ["nodestop", "-replay", c.replay] if is_ns_replay else ["nodestop", "-n", "40" if c.tier == "quick" else "600"]
        out = c.harness("sup", args, timeout=1500)
        if out:
            c.monitor("sup-nodestop", out)
    c.assumptions += sm.ASSUMPTIONS + TREE_ASSUMPTIONS + [
        "terminations that bypass the machine (Node.Kill of the supervisor, failed Spawn during a restart) rely on the "
        "LinkParent exit propagation of node/: theorem over the forest model Tree/Model.v (C10_tree_*), tied to the real node by "
        "the tree scenarios (correspondence of survivors and of the exit signals sent at unregistration)",
    ]
