"""C17 application lifecycle and start modes."""

IMPORTS = "From Ergo Require Import Common.Base App.Seq App.Cases.\n"
SPEC = ["spec_clean", "spec_stop_truthful", "spec_mode_rule", "spec_term_once", "spec_start"]
TAGS = ["cause-race", "restart-race", "rollback-busy"]
HOLD_IMPORTS = "From Ergo Require Import Common.Base App.Seq App.Cases App.Hold App.HoldCases.\n"
HOLD_SPEC = ["spec_hold_start", "spec_hold_clean", "spec_hold_stop", "spec_hold_term"]


def known_tags(c, tags=TAGS):
    """Input classes of known findings are generated only when known_findings.json lists them."""
    out = []
    for e in c.kf:
        if e.get("status") != "known":
            continue
        for t in e.get("match", {}).get("tags_all", []):
            if t in tags and t not in out:
                out.append(t)
    return out


def _seq(c, name, n, seed=None, corr=("corr_seq",)):
    args = ["seq", "-n", str(n)]
    if c.replay and seed is None:
        args = ["seq", "-replay", c.replay]
    env = {"VERIF_SEED": str(seed)} if seed is not None else None
    out = c.harness("app", args, env=env, timeout=900)
    if out:
        c.cases(name, out, IMPORTS, "acase", corr=list(corr), spec=SPEC, premise=["premise_ok"])


def _conc(c, name, n, seed=None):
    args = ["conc", "-n", str(n)]
    kt = known_tags(c)
    if kt:
        args += ["-known", ",".join(kt)]
    if c.replay and seed is None:
        args = ["conc", "-replay", c.replay] + (["-known", ",".join(kt)] if kt else [])
    env = {"VERIF_SEED": str(seed)} if seed is not None else None
    out = c.harness("app", args, env=env, timeout=900)
    if out:
        c.monitor(name, out)


def _hold(c, name, n, seed=None, corr=("corr_hold",)):
    """histories with an application in state stopping (members held inside a handler): ApplicationStart of an
    application whose dependency is stopping, judged at the return of the call"""
    args = ["hold", "-n", str(n)]
    if c.replay and seed is None:
        args = ["hold", "-replay", c.replay]
    env = {"VERIF_SEED": str(seed)} if seed is not None else None
    out = c.harness("app", args, env=env, timeout=900)
    if out:
        c.cases(name, out, HOLD_IMPORTS, "hcase", corr=list(corr), spec=HOLD_SPEC, premise=["premise_hold"])


def replay_kind(c):
    if not c.replay:
        return ""
    import json
    try:
        case = json.load(open(c.replay)).get("case") or {}
    except Exception:
        return ""
    if case.get("hold"):
        return "hold"
    if "ops" in case:
        return "seq"
    if "kind" in case:
        return "conc"
    return "other"


def run(c):
    c.proofs("theories/Properties/C17.v", clean=(c.tier == "thorough"))
    kind = replay_kind(c)
    n = 150 if c.tier == "quick" else 2500
    m = 60 if c.tier == "quick" else 1500
    if kind in ("", "seq"):
        _seq(c, "seq", n)
    if kind in ("", "hold"):
        _hold(c, "hold", 40 if c.tier == "quick" else 800)
    if kind in ("", "conc"):
        _conc(c, "conc", m)
    if c.broken and not c.violations and not c.replay:
        # something no longer checks: spend the extra search budget on the property monitors only
        keep = list(c.broken)
        _seq(c, "seq-search", n * 6, seed=c.seed + 7919, corr=())
        _hold(c, "hold-search", 400 if c.tier == "quick" else 4000, seed=c.seed + 7919, corr=())
        _conc(c, "conc-search", m * 4, seed=c.seed + 7919)
        c.broken = keep + [b for b in c.broken if b not in keep]
    c.cov["rule"] = ("distinct = different Coq case term (application specs, operations, observations); non-trivial = some "
                     "application was started and some run ended with a Terminate callback")
    c.assumptions += [
        "sequential histories are observed at quiescence (bounded wait for the state the model predicts and for the Terminate callbacks of the runs that ended, then a stability window); "
        "ApplicationStopForce may report ErrApplicationStopping for an already stopped application (timeout 0): both results accepted",
        "the Terminate callback of a rolled-back start (timing dependent, Start never ran) is outside the comparison",
        "small-step model: one application; application.start is a thread program (CAS + initialisation one step, then one spawn "
        "step = node.spawnMember (Init, group.Store, processes.Store) and one check step per member, roll-back, Start callback, "
        "flag reset, final group check); Range/SendExit over the group is one step; Kill of a sleeping member runs "
        "application.terminate in the caller, modelled as an interleaving of a separate thread; the stopped channel is a flag "
        "(theorems guarded by: start/unload begin only when no terminate/stop/start call is in flight and no member is alive; "
        "loaded/stop theorems carry the ghost guard rbk = false: no killed member of a rolled-back start is left)",
        "concurrent scenarios park one goroutine at a lib.VerifPoint of node/application.go (terminate, stop, and the spawn loop of "
        "start with self-terminating members / a stop call meanwhile) and judge timing-independent end states; latecause scenarios "
        "(sequential deaths with different reasons, later ones from inside a handler) are deterministic",
        "hold histories (App/Hold.v): an application is observably 'stopping' only because members are held inside a message "
        "handler (they do not see the exit request until released); the stop request in progress is ApplicationStopWithTimeout "
        "with a short timeout or the mode rule; held members are not killed and do not die by themselves; member Init never "
        "fails there; the observation of an ApplicationStart is taken at the return of the call (nothing else is in flight, a "
        "Go monitor reports any later movement); the fuel of the dependency recursion is length specs + 1 as in App/Seq.v",
    ]
