"""C10, application / node part (App engine). The coordinator calls run(c) from bin/checks/c10.py."""

TAGS = ["app-member-children"]


def _known(c):
    out = []
    for e in c.kf:
        if e.get("status") != "known":
            continue
        for t in e.get("match", {}).get("tags_all", []):
            if t in TAGS and t not in out:
                out.append(t)
    return out


def _is_mine(c):
    """replay files of this part hold a node case (kind stop/force/busy/appkid with 'strays')"""
    if not c.replay:
        return True
    import json
    try:
        case = json.load(open(c.replay)).get("case") or {}
    except Exception:
        return False
    return "strays" in case


ORPHAN = ("live member", "member(s) were alive", "member(s) are alive", "member(s) alive", "were still alive")


def _is_conc(c):
    import json
    try:
        rp = json.load(open(c.replay))
    except Exception:
        return False
    return str(rp.get("engine", "")).startswith("app-startstop")


def _startstop(c, replay=None):
    """stop requests, member deaths and failing members DURING application.start (the goroutine inside ApplicationStart
    parked at the spawn loop): afterwards no member of a stopped / stopping application is left alive (the closure part
    of the concurrent scenarios of C17)"""
    args = ["conc", "-replay", replay] if replay else ["conc", "-n", "60" if c.tier == "quick" else "1500"]
    out = c.harness("app", args, timeout=900)
    if out:
        out["monitor"] = [m for m in (out.get("monitor") or []) if any(k in m["what"] for k in ORPHAN) and not m.get("tags")]
        c.monitor("app-startstop", out)


def run(c):
    if c.replay and _is_conc(c):
        c.proofs("theories/Properties/C10app.v", clean=False)
        _startstop(c, replay=c.replay)
        return
    c.proofs("theories/Properties/C10app.v", clean=(c.tier == "thorough"))
    if not _is_mine(c):
        return
    n = 25 if c.tier == "quick" else 400
    args = ["node", "-n", str(n)]
    if c.replay:
        args = ["node", "-replay", c.replay]
    kt = _known(c)
    if kt:
        args += ["-known", ",".join(kt)]
    out = c.harness("app", args, timeout=900)
    if out:
        c.monitor("app-node", out)
    if not c.replay:
        _startstop(c)
    if c.broken and not c.violations and not c.replay:
        keep = list(c.broken)
        out = c.harness("app", ["node", "-n", str(n * 6)] + (["-known", ",".join(kt)] if kt else []),
                        env={"VERIF_SEED": str(c.seed + 7919)}, timeout=900)
        if out:
            c.monitor("app-node-search", out)
        c.broken = keep + [b for b in c.broken if b not in keep]
    c.assumptions += [
        "C10 application/node part: 'terminated' is observed through the processes' own Terminate callbacks (which run after "
        "unregisterProcess); 'Stop returns only after' is tested with a process held inside a callback (Stop must still be waiting)",
        "children of application members that die with their parent are checked at quiescence by the sequential histories of C17 "
        "(harness app seq, Go monitor)",
    ]
