"""C05 termination once, right reason, final (processes and meta-processes)."""
from checks import _sched
from checks import supmachine as sm


def _sup(c):
    """the reason a supervisor terminates with: on the real supOFO / supARFO / supSOFO machines, a supervisor that is
    shutting down terminates with the recorded cause of the shutdown, whatever the last awaited child died with"""
    sm.machine(c, "machine", spec=["spec_reason_is_cause"], premise=["premise_ended_shutdown"], n_quick=700, n_thorough=8000)


def run(c):
    if c.replay and sm.replay_kind(c).startswith("machine"):
        c.proofs("theories/Properties/C05.v", clean=False)
        _sup(c)
        return
    _sched.run(c, "theories/Properties/C05.v", ["spec_c05", "spec_c01"], meta_spec=["spec_meta_c05", "spec_meta_c01"])
    if not c.replay:
        _sup(c)
        c.assumptions += sm.ASSUMPTIONS[:1]
