"""C05 termination once, right reason, final."""
from checks import _sched


def run(c):
    _sched.run(c, "theories/Properties/C05.v", ["spec_c05", "spec_c01"])
