"""C05 termination once, right reason, final (processes and meta-processes)."""
from checks import _sched


def run(c):
    _sched.run(c, "theories/Properties/C05.v", ["spec_c05", "spec_c01"], meta_spec=["spec_meta_c05", "spec_meta_c01"])
