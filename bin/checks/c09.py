"""C09 restart intensity limit."""
from checks import supmachine as sm


IMPORTS = "From Ergo Require Import Common.Base Sup.Intensity Sup.IntensityCases.\nLocal Open Scope Z_scope."


def run(c):
    c.proofs("theories/Properties/C09.v", clean=(c.tier == "thorough"))
    c.translate(['TieSup'])  # T1: formulas / constants regenerated from the source, tie theorems re-checked
    n = 400 if c.tier == "quick" else 6000
    kind = sm.replay_kind(c)
    if c.replay and (kind.startswith("machine") or kind.startswith("e2e")):
        out = None
    elif c.replay:
        out = c.harness("sup", ["intensity", "-replay", c.replay])
    else:
        out = c.harness("sup", ["intensity", "-n", str(n)])
    if out:
        c.cases("intensity", out, IMPORTS, "icase", corr=["corr_ok"], spec=["spec_ok"], premise=["premise_ok"])
    if c.broken and not c.violations and not c.replay:
        # something no longer checks: spend the extra search budget looking for a failing input
        out = c.harness("sup", ["intensity", "-n", str(n * 10)], env={"VERIF_SEED": str(c.seed + 7919)})
        if out:
            keep = list(c.broken)
            c.cases("intensity-search", out, IMPORTS, "icase", corr=[], spec=["spec_ok"], premise=["premise_ok"])
            c.broken = keep + [b for b in c.broken if b not in keep]
    # machine part: on "exceeded" all running children are stopped and the supervisor terminates with the
    # restarts-exceeded reason (real supOFO/supARFO/supSOFO vs Sup/Machine.v, and the real node)
    sm.machine(c, "machine", spec=["spec_gives_up", "spec_restart_counted"], premise=["premise_gave_up", "premise_restarted"], n_quick=1000, n_thorough=12000)
    sm.e2e(c, "c09", spec=["spec_e2e_exceeded", "spec_e2e_prescribed"], premise=["premise_e2e_exceeded"], n_quick=12, n_thorough=200)
    c.assumptions += sm.ASSUMPTIONS
    c.assumptions += [
        "wall clock (time.Now().UnixMilli) non-decreasing between successive restarts of one supervisor",
        "clock advance is simulated by shifting the recorded timestamps into the past (exactly equivalent for a function of differences; the model is nevertheless compared on the raw values)",
    ]
