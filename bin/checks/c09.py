"""C09 restart intensity limit."""

IMPORTS = "From Ergo Require Import Common.Base Sup.Intensity Sup.IntensityCases.\nLocal Open Scope Z_scope."


def run(c):
    c.proofs("theories/Properties/C09.v", clean=(c.tier == "thorough"))
    n = 400 if c.tier == "quick" else 6000
    if c.replay:
        out = c.harness("sup", ["intensity", "-replay", c.replay])
    else:
        out = c.harness("sup", ["intensity", "-n", str(n)])
    if out:
        c.cases("intensity", out, IMPORTS, "icase", corr=["corr_ok"], spec=["spec_ok"], premise=["premise_ok"])
    if c.broken and not c.violations and not c.replay:
        # something no longer checks: spend the extra search budget looking for a failing input
        out = c.harness("sup", ["intensity", "-n", str(n * 10)], env={"VERIF_SEED": str(c.seed + 7919)})
        if out:
            keep = list(c.broken)
            c.cases("intensity-search", out, IMPORTS, "icase", corr=[], spec=["spec_ok"], premise=["premise_ok"])
            c.broken = keep + [b for b in c.broken if b not in keep]
    c.assumptions += [
        "wall clock (time.Now().UnixMilli) non-decreasing between successive restarts of one supervisor",
        "clock advance is simulated by shifting the recorded timestamps into the past (exactly equivalent for a function of differences; the model is nevertheless compared on the raw values)",
    ]
