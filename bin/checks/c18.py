"""C18 Events: every subscriber sees every publication once, in order."""

IMPORTS = "From Ergo Require Import Common.Base Event.Model Event.Cases."

RIMPORTS = "From Ergo Require Import Common.Base Event.Model Event.Cases Event.Remote Event.RemoteCases."

BIMPORTS = "From Ergo Require Import Common.Base Event.Model Event.Cases Event.Bounded Event.BoundedCases."

TAGS = ["stale-record-notify", "remote-subscribe-race", "remote-unregister-overtakes"]

SEQ_CORR = ["corr_lts", "corr_seq"]
SEQ_SPEC = ["spec_once_in_order", "spec_token", "spec_lastN", "spec_unregister_once", "spec_start_stop"]
HK_CORR = ["corr_hooked"]
HK_SPEC = ["spec_hooked", "spec_hooked_notify"]
R_CORR = ["corr_remote"]
R_SPEC = ["spec_r_once_in_order", "spec_r_token", "spec_r_lastN", "spec_r_unregister_once", "spec_r_start_stop"]
B_CORR = ["corr_bounded"]
B_SPEC = ["spec_b_healthy", "spec_b_stuck", "spec_b_state", "spec_b_notify"]


def _known_tags(c):
    """Input classes of known findings are generated only when known_findings.json lists them
    (otherwise their failing cases would be plain violations)."""
    out = []
    for e in c.kf:
        if e.get("status") != "known":
            continue
        for t in e.get("match", {}).get("tags_all", []):
            if t in TAGS and t not in out:
                out.append(t)
    return out


def _replay_kind(c):
    import json
    try:
        return (json.load(open(c.replay)).get("case") or {}).get("kind", "")
    except Exception:
        return ""


def _seq(c, name, n, seed=None, corr=SEQ_CORR):
    args = ["seq", "-n", str(n)]
    if c.replay and seed is None:
        args = ["seq", "-replay", c.replay]
    out = c.harness("event", args, env=({"VERIF_SEED": str(seed)} if seed is not None else None))
    if out:
        c.cases(name, out, IMPORTS, "ecase", corr=list(corr), spec=SEQ_SPEC, premise=["premise_delivery"])


def _hooked(c, name, n, seed=None, corr=HK_CORR):
    args = ["hooked", "-n", str(n)]
    kt = _known_tags(c)
    if kt:
        args += ["-known", ",".join(kt)]
    if c.replay and seed is None:
        args = ["hooked", "-replay", c.replay]
    out = c.harness("event", args, env=({"VERIF_SEED": str(seed)} if seed is not None else None))
    if out:
        c.cases(name, out, IMPORTS, "hcase", corr=list(corr), spec=HK_SPEC, premise=["premise_hooked"])


def _remote(c, name, n, seed=None, corr=R_CORR):
    """two real nodes over loopback, quiescent histories with subscribers on the other node"""
    args = ["remote", "-n", str(n)]
    if c.replay and seed is None:
        args = ["remote", "-replay", c.replay]
    out = c.harness("event", args, env=({"VERIF_SEED": str(seed)} if seed is not None else None))
    if out:
        c.cases(name, out, RIMPORTS, "rcase", corr=list(corr), spec=R_SPEC, premise=["premise_remote"])


def _bounded(c, name, n, seed=None, corr=B_CORR):
    """one real node, sequential histories with 1-2 stuck subscribers (bounded mailbox, blocked handler) among
    2-5 healthy ones: the healthy ones must not notice"""
    args = ["bounded", "-n", str(n)]
    if c.replay and seed is None:
        args = ["bounded", "-replay", c.replay]
    out = c.harness("event", args, env=({"VERIF_SEED": str(seed)} if seed is not None else None))
    if out:
        c.cases(name, out, BIMPORTS, "bcase", corr=list(corr), spec=B_SPEC, premise=["premise_bounded"])


def _rstress(c, name, rounds, seed=None):
    """two real nodes, un-quiesced: per-publisher order / at-most-once of the live stream must hold; the lost and
    repeated publications of the known findings are reported only when known_findings.json lists their tags"""
    args = ["rstress", "-n", str(rounds)]
    kt = _known_tags(c)
    if kt:
        args += ["-known", ",".join(kt)]
    if c.replay and seed is None:
        args += ["-replay", c.replay]
    out = c.harness("event", args, env=({"VERIF_SEED": str(seed)} if seed is not None else None))
    if out:
        c.monitor(name, out)


def _stress(c, name, rounds, seed=None):
    out = c.harness("event", ["stress", "-n", str(rounds)], env=({"VERIF_SEED": str(seed)} if seed is not None else None))
    if out:
        c.monitor(name, out)


def run(c):
    c.proofs("theories/Properties/C18.v", clean=(c.tier == "thorough"))
    # the checker definitions are not in the cone of the property file: (re)build them after the cone
    import vlib
    ok, log = vlib.coq_make(["theories/Event/Cases.vo", "theories/Event/RemoteCases.vo", "theories/Event/BoundedCases.vo"])
    if not ok:
        c.broken.append({"kind": "proof", "what": "Coq build of theories/Event/Cases.v / RemoteCases.v / BoundedCases.v failed", "detail": log[-2500:]})
    quick = c.tier == "quick"
    nseq, nhk, nst = (240, 160, 100) if quick else (6000, 4000, 3000)
    nrem, nrs = (60, 25) if quick else (2500, 400)
    nbd = 80 if quick else 3000
    kind = _replay_kind(c) if c.replay else ""
    if c.replay:
        import json as _json
        if (_json.load(open(c.replay)).get("engine") or "").startswith("evfifo"):
            out = c.harness("mbox", ["evfifo", "-replay", c.replay])
            if out:
                c.monitor("evfifo", out)
            return
        if kind == "hooked":
            _hooked(c, "hooked", 1)
        elif kind == "stress":
            _stress(c, "stress", nst * 4)
        elif kind == "remote":
            _remote(c, "remote", 1)
        elif kind == "rstress":
            _rstress(c, "rstress", nrs * 4)
        elif kind == "bounded":
            _bounded(c, "bounded", 1)
        else:
            _seq(c, "seq", 1)
    else:
        _seq(c, "seq", nseq)
        _hooked(c, "hooked", nhk)
        _stress(c, "stress", nst)
        _bounded(c, "bounded", nbd)
        # large subscriber sets: one producer, 1..257 local subscribers, every subscriber sees every publication once, in order
        out = c.harness("mbox", ["evfifo", "-n", "13" if quick else "260"], timeout=900)
        if out:
            c.monitor("evfifo", out)
        _remote(c, "remote", nrem)
        _rstress(c, "rstress", nrs)
    if c.broken and not c.violations and not c.replay:
        # something no longer checks: spend the extra search budget on the property monitors only
        keep = list(c.broken)
        _seq(c, "seq-search", nseq * (10 if quick else 3), seed=c.seed + 7919, corr=())
        _hooked(c, "hooked-search", nhk * (6 if quick else 2), seed=c.seed + 7919, corr=())
        _stress(c, "stress-search", nst * 10, seed=c.seed + 7919)
        _bounded(c, "bounded-search", nbd * (8 if quick else 2), seed=c.seed + 7919, corr=())
        _remote(c, "remote-search", nrem * (8 if quick else 2), seed=c.seed + 7919, corr=())
        c.broken = keep + [b for b in c.broken if b not in keep]
    c.cov["rule"] = ("distinct = different Coq case term (history or programs+schedule, and observations); non-trivial = "
                     "at least one subscriber received a publication in the case")
    c.assumptions += [
        "mailbox: messages pushed by one sender into one queue of one receiver are handled in push order (C03 / Sched engine); "
        "the theorems speak about the order of pushes",
        "the target manager is abstracted as an atomic set of (consumer, kind) per event (gen/default_target_manager.go holds one RWMutex; Rel engine)",
        "MakeRef returns fresh references (C06); token 0 models the empty gen.Ref",
        "one event name is modelled; the harness projects every history on each of its event names",
        "bounded mailboxes: a subscriber with ProcessOptions.MailboxSize c whose handler is blocked keeps the first c+1 event messages (one held by the handler, c queued), the rest is refused (ErrProcessMailboxFull, ignored by RouteSendEvent) - proved for every set of such subscribers and every history (Event/Bounded*.v), tied for QUIESCENT sequential histories with 1-2 stuck subscribers (MailboxSize 1..2) that only subscribe, blocked from their first event message to the end of the history (the harness waits after every call until a stuck subscriber either sits in its handler or sleeps with an empty queue); a subscriber that consumes slowly (queue length going up and down) and bounded System/Urgent queues are not modelled; the other families use unbounded mailboxes",
        "a subscriber that is out of the process table while its relations still exist (unregisterProcess between processes.Delete and CleanupConsumer) is skipped and the loop goes on: covered by the theorems (any schedule: C18_exactly_once_in_order over log entries with e_ok = false; any state: C18_bounded_call_any_state, C18_call_exactly_once_any_state); the harness does not drive a publication into that window (no yield point there), it terminates subscribers between calls",
        "subscribers on another node: frames of one order byte (one publisher: from.ID%255+1, KeepNetworkOrder on) are handled by the receiving node in send order (C13 / Proto engine); terminate frames and answers use order byte 0 and are not ordered with them",
        "subscribers on another node, completeness (nothing lost, nothing twice, one notification): proved and tied for QUIESCENT histories (every call and what it causes on the other node completes before the next call; quiescence is observed by the harness through frame counters and receive-queue marks); without quiescence it is refuted (remote_subscribe_gap_refuted, remote_subscribe_dup_refuted, remote_unregister_overtakes_refuted) - known findings remote-subscribe-race, remote-unregister-overtakes",
        "two nodes, one connection, the event on the dialing node; node failure / connection loss with event subscribers is C14 (the consumer counter is not corrected by RouteNodeDown: not covered)",
        "controlled schedules: a goroutine performs no access to the event record / relation set between two event.* yield points other than those of the model steps in between (hook granularity; the theorems are proved for the finer step granularity)",
        "start/stop notifications are proved for sequential histories; under concurrency they are refuted (C18_start_stop_notify_refuted, C18_start_stop_order_refuted)",
    ]
