"""C20 cron: jobs run exactly at the minutes their spec denotes."""

IMPORTS = "From Ergo Require Import Common.Base Cron.Model Cron.Spec Cron.Grammar Cron.TickSpec Cron.Cases.\nLocal Open Scope Z_scope."

PARTS = [
    # sub-command, case type, corr checkers, spec checkers, premise checkers, quick n, thorough n
    ("parse", "pcase", ["corr_parse", "corr_lex", "corr_print", "corr_civil", "corr_run"], ["spec_parse_run"], ["premise_parse_run"], 1200, 20000),
    ("sched", "scase", ["corr_sched"], ["spec_sched"], ["premise_sched"], 80, 1200),
    ("tick", "tcase", ["corr_tick", "corr_tick_ast"], ["spec_tick"], ["premise_tick"], 300, 4000),
]


def run(c):
    c.proofs("theories/Properties/C20.v", clean=(c.tier == "thorough"))
    c.translate(['TieCron'])  # T1: formulas / constants regenerated from the source, tie theorems re-checked
    for sub, ctype, corr, spec, prem, nq, nt in PARTS:
        n = nq if c.tier == "quick" else nt
        if c.replay:
            out = c.harness("cron", [sub, "-replay", c.replay])
            if out and not out.get("cases"):
                continue
        else:
            out = c.harness("cron", [sub, "-n", str(n)])
        if out:
            c.cases(sub, out, IMPORTS, ctype, corr=corr, spec=spec, premise=prem)
    if c.broken and not c.violations and not c.replay:
        # something no longer checks: spend the extra search budget looking for a failing input
        keep = list(c.broken)
        for sub, ctype, corr, spec, prem, nq, nt in PARTS:
            out = c.harness("cron", [sub, "-n", str(nq * 10)], env={"VERIF_SEED": str(c.seed + 7919)})
            if out:
                c.cases(sub + "-search", out, IMPORTS, ctype, corr=[], spec=spec, premise=prem)
            if c.violations:
                break
        c.broken = keep + [b for b in c.broken if b not in keep]
    c.assumptions += [
        "specs are ASCII strings (strings.Fields also splits at Unicode white space; not modelled)",
        "the wall clock of an instant in a location is (unix seconds + the location's UTC offset at that instant) read on the "
        "proleptic Gregorian calendar; the harness passes the offset Go's time package reports (zone database and time package are "
        "not modelled) and the model's wall-clock fields are compared with Go's on every sample",
        "minute tick: the timer function is a closure and is not driven; its decisions (pop the spool, skip disabled entries, "
        "schedule(next minute)) are modelled and tied through the export (Drain = the pop loop, Schedule = cron.schedule); "
        "a punctual timer and a wall clock that stays within the minute during the tick are assumed",
        "C20_tick / C20_grammar are theorems about the Coq model (Model.step, Model.parse_spec); model = code is the differential "
        "check of every run (corr_parse, corr_lex, corr_print, corr_tick, corr_tick_ast). C20_tick speaks about sequential histories: "
        "API calls racing the pop loop of a tick are not modelled",
    ]
