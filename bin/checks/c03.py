"""C03 mailbox ordering: per-sender FIFO within a priority, strict priority classes."""

Q_IMPORTS = "From Ergo Require Import Common.Base Mbox.Queue.\nLocal Open Scope Z_scope."
P_IMPORTS = "From Ergo Require Import Common.Base Mbox.Order."


R_IMPORTS = ("From Coq Require Import Uint63.\n"
             "From Ergo Require Import Common.Base Proto.Model Proto.Cases Wire.Cases.\n"
             "Local Open Scope Z_scope.")


def _remote(c, n, replay=None):
    """the remote path: messages and requests of every priority, with and without the important-delivery flag, over
    a real connection; the priority the receiver's Route* call gets (= the queue it selects) is the sender's"""
    import resource
    try:
        resource.setrlimit(resource.RLIMIT_STACK, (resource.RLIM_INFINITY, resource.RLIM_INFINITY))
    except (ValueError, OSError):
        pass
    out = c.harness("proto", ["c12", "-replay", replay] if replay else ["c12", "-n", n], timeout=900)
    if out:
        c.cases("remote-priority", out, R_IMPORTS, "pcase", corr=[], spec=["spec_priority"], premise=["premise_c12"], shard=10)


def run(c):
    c.proofs("theories/Properties/C03.v", clean=(c.tier == "thorough"))
    c.translate(['TieMbox', 'TieRecvLock', 'TieOptions'])  # T1: every priority switch selects the queue of the model's class_of; Lock/Unlock are one swap each
    quick = c.tier == "quick"
    nq, npk = ("600", "250") if quick else ("20000", "4000")
    if c.replay:
        import json
        rp = json.load(open(c.replay))
        eng = rp.get("engine", "parked")
        if eng.startswith("remote-priority"):
            _remote(c, None, replay=c.replay)
            return
        if eng.startswith("evfifo"):
            out = c.harness("mbox", ["evfifo", "-replay", c.replay])
            if out:
                c.monitor("evfifo", out)
            return
        out = c.harness("mbox", ["queue" if eng.startswith("queue") else "parked", "-replay", c.replay])
        if out:
            if eng.startswith("queue"):
                c.cases("queue", out, Q_IMPORTS, "qcase", corr=["corr_queue"], spec=["spec_queue"], premise=["premise_queue"])
            else:
                c.cases("parked", out, P_IMPORTS, "pcase", corr=["corr_parked"], spec=["spec_parked"], premise=["premise_parked"])
    else:
        out = c.harness("mbox", ["queue", "-n", nq])
        if out:
            c.cases("queue", out, Q_IMPORTS, "qcase", corr=["corr_queue"], spec=["spec_queue"], premise=["premise_queue"])
        out = c.harness("mbox", ["parked", "-n", npk], timeout=900)
        if out:
            for n in out.get("notes") or []:
                c.broken.append({"kind": "harness-run", "what": n})
            c.cases("parked", out, P_IMPORTS, "pcase", corr=["corr_parked"], spec=["spec_parked"], premise=["premise_parked"])
        # the event addressing mode: one producer, 1..257 local subscribers, plain messages of the same priority in between
        out = c.harness("mbox", ["evfifo", "-n", "26" if quick else "520"], timeout=900)
        if out:
            c.monitor("evfifo", out)
        _remote(c, "70" if quick else "1200")
    if c.broken and not c.violations and not c.replay:
        keep = list(c.broken)
        out = c.harness("mbox", ["parked", "-n", "2500"], timeout=1800, env={"VERIF_SEED": str(c.seed + 7919)})
        if out:
            c.cases("parked-search", out, P_IMPORTS, "pcase", corr=[], spec=["spec_parked"], premise=["premise_parked"])
        out = c.harness("mbox", ["queue", "-n", "6000"], env={"VERIF_SEED": str(c.seed + 7919)})
        if out:
            c.cases("queue-search", out, Q_IMPORTS, "qcase", corr=[], spec=["spec_queue"], premise=["premise_queue"])
        c.broken = keep + [b for b in c.broken if b not in keep]
    c.assumptions += [
        "the concurrent two-step push of lib/mpsc.go and the pops of the actor loop are those of Sched/Model.v, which is tied to the runtime by the controlled-schedule check of C01/C02 (same model, same hooks)",
        "parked-receiver runs observe the real node without hooks: the receiver is blocked inside a callback until every sender returned and the mailbox holds the expected number of messages",
    ]
