"""C13 network FIFO between a pair of processes (Proto engine)."""

IMPORTS = ("From Coq Require Import Uint63.\n"
           "From Ergo Require Import Common.Base Proto.Model Proto.Cases.\n"
           "Local Open Scope Z_scope.")

SHARD = 40
CORR = ["corr_links", "corr_delivery"]
SPEC = ["spec_fifo", "spec_selection"]

# dialing side of a pool link: handshake tails, link drops, re-dials (harness sub-command `redial`)
RD_IMPORTS = ("From Coq Require Import Uint63.\n"
              "From Ergo Require Import Common.Base Proto.Model Proto.Cases Proto.Redial Proto.RedialCases.\n"
              "Local Open Scope Z_scope.")
RD_CORR = ["corr_rd_delivery", "corr_rd_loop"]
RD_SPEC = ["spec_rd_fifo"]
RD_MONITOR = ("order:", "dup:", "unknown:")   # lines of the Go monitor that state C13 (the others belong to C12)


def _replay_engine(path):
    import json
    try:
        return json.load(open(path)).get("engine") or ""
    except (OSError, ValueError):
        return ""


def _redial(c, n, name="redial", corr=RD_CORR, env=None, replay=None):
    args = ["redial", "-replay", replay] if replay else ["redial", "-n", str(n)]
    out = c.harness("proto", args, timeout=900, env=env)
    if out:
        out["monitor"] = [m for m in (out.get("monitor") or []) if m["what"].startswith(RD_MONITOR)]
        c.cases(name, out, RD_IMPORTS, "rcase", corr=corr, spec=RD_SPEC, premise=["premise_rd"])


def _prepare():
    """The cases carry the raw wire bytes: give coqc a deep stack and evaluate small shards in parallel
    (helpers local to this module; vlib is used as it is)."""
    import resource
    import vlib
    try:
        resource.setrlimit(resource.RLIMIT_STACK, (resource.RLIM_INFINITY, resource.RLIM_INFINITY))
    except (ValueError, OSError):
        pass
    if not getattr(vlib.coq_eval_cases, "_proto_small_shards", False):
        orig = vlib.coq_eval_cases

        def small_shards(tag, imports, ctype, cases, checkers, shard=SHARD, timeout=900):
            return orig(tag, imports, ctype, cases, checkers, shard=SHARD, timeout=timeout)
        small_shards._proto_small_shards = True
        vlib.coq_eval_cases = small_shards


def _lockrace(c, n, replay=None, name="lockrace"):
    args = ["lockrace", "-replay", replay] if replay else ["lockrace", "-n", str(n)]
    out = c.harness("proto", args, timeout=900)
    if out:
        c.monitor(name, out)


def run(c):
    _prepare()
    c.proofs("theories/Properties/C13.v", clean=(c.tier == "thorough"))
    c.translate(['TieProto', 'TieRecvLock', 'TieOptions'])  # T1: formulas / constants regenerated from the source, tie theorems re-checked
    n = 300 if c.tier == "quick" else 3000
    nrd = 200 if c.tier == "quick" else 3000
    out = None
    # the node side of the order switch: whatever API one process uses towards one remote process (Send, SendWithPriority,
    # SendAfter from its timer goroutine; by pid / name / alias) the messages keep the network order - two real nodes over
    # loopback, the first message slow to decode on the receiving node
    if c.replay and _replay_engine(c.replay).startswith("delayed-order"):
        out = c.harness("netfail", ["delayed", "-replay", c.replay], timeout=600)
        if out:
            c.monitor("delayed-order", out)
        return
    if not c.replay:
        out = c.harness("netfail", ["delayed", "-n", "16" if c.tier == "quick" else "300"], timeout=900)
        if out:
            c.monitor("delayed-order", out)
        out = None
    if c.replay and _replay_engine(c.replay).startswith("redial"):
        _redial(c, 1, replay=c.replay)
    elif c.replay:
        out = c.harness("proto", ["c13", "-replay", c.replay])
    else:
        out = c.harness("proto", ["c13", "-n", str(n)], timeout=900)
    if out:
        c.cases("order", out, IMPORTS, "ocase", corr=CORR, spec=SPEC, premise=["premise_c13"])
    if not c.replay:
        _redial(c, nrd)
    # one handler per receive queue under concurrent pushers (model: Proto/RecvLock.v): goroutine identities inside the
    # frame loop, per-sender order and exactly-once at the receiving core; Lock() callers are released pairwise at the
    # same instant so that a Lock() that is not one atomic swap is exercised
    # the write side of a link on its own: real lib.NewFlusher against a recording writer (model Proto/Flusher.v)
    if c.replay and _replay_engine(c.replay).startswith("flusher"):
        out = c.harness("proto", ["flusher", "-replay", c.replay], timeout=600)
        if out:
            c.monitor("flusher", out)
        return
    if not c.replay:
        out = c.harness("proto", ["flusher", "-n", "150" if c.tier == "quick" else "3000"], timeout=900)
        if out:
            c.monitor("flusher", out)
    if c.replay and _replay_engine(c.replay).startswith("lockrace"):
        _lockrace(c, 1, replay=c.replay)
    elif not c.replay:
        _lockrace(c, 80 if c.tier == "quick" else 2000)
    if c.broken and not c.violations and not c.replay:
        keep = list(c.broken)
        _lockrace(c, 1200, name="lockrace-search")
        c.broken = keep + [b for b in c.broken if b not in keep]
    if c.broken and not c.violations and not c.replay:
        out = c.harness("proto", ["c13", "-n", str(n * 6)], timeout=1500, env={"VERIF_SEED": str(c.seed + 7919)})
        if out:
            keep = list(c.broken)
            c.cases("order-search", out, IMPORTS, "ocase", corr=[], spec=SPEC, premise=["premise_c13"])
            c.broken = keep + [b for b in c.broken if b not in keep]
        if not c.violations:
            keep = list(c.broken)
            _redial(c, nrd * 3, name="redial-search", corr=[], env={"VERIF_SEED": str(c.seed + 7919)})
            c.broken = keep + [b for b in c.broken if b not in keep]
    c.cov["rule"] = ("distinct = different Coq case term (pairs, operations, observed links/order bytes/delivery order); "
                     "non-trivial = constant pool and at least one pair with order keeping on")
    c.assumptions += [
        "re-dial family: the peer of the dialing side is played by the harness (raw bytes of frames a real sending connection "
        "wrote; net.Pipe, so a successful write = bytes read by serve()); a link drop is the peer closing the socket (EOF); "
        "the frames a sender writes while its link is down never reach the wire and are outside the statement",
        "TCP delivers the bytes of each link in order (section hypothesis of C13_fifo; the relay holds whole links back, never reorders inside one)",
        "one worker per receive queue: theorem C13_single_handler_per_queue over the small-step model of serve() / handleRecvQueue / "
        "Lock / Unlock (Proto/RecvLock.v), tied by T1 (Lock and Unlock are each one atomic swap in lib/mpsc.go) and by the lockrace "
        "family (goroutine identities inside the frame loop on a real connection pair); the queue itself is an atomic FIFO there "
        "(its pointer-level refinement against a single popper is C03's Mbox/MpscProofs.v)",
        "one process sends sequentially; the local mailbox keeps per-sender order (C03)",
        "the pool of links is constant while the messages of a pair are in flight (guard of C13_fifo_partial; refuted without it)",
    ]
