#!/usr/bin/env python3
"""Regenerates MANIFEST.json from bin/claims.json (per-property texts) and /repo's hook commits."""
import json
import os
import subprocess

V = os.path.dirname(os.path.dirname(os.path.abspath(__file__)))
claims = json.load(open(os.path.join(V, "bin", "claims.json")))
import glob
for f in sorted(glob.glob(os.path.join(V, "bin", "claims.d", "*.json"))):
    claims[os.path.basename(f)[:-5]] = json.load(open(f))
props = [json.loads(l)["id"] for l in open(os.path.join(V, "properties.jsonl"))]
log = subprocess.run(["git", "-C", "/repo", "log", "--format=%H %s"], stdout=subprocess.PIPE, text=True).stdout.splitlines()
hook_commits = [l.split()[0] for l in log if l.split(" ", 1)[1].startswith("verif:")]
checks, na = [], []
for p in props:
    c = claims.get(p)
    if not c or c.get("not_applicable"):
        na.append({"property_id": p, "reason": (c or {}).get("not_applicable", "engine not built yet in this round (see DESIGN.md section 8); not claimed on a stub")})
        continue
    checks.append({
        "property_id": p,
        "quick_cmd": "python3 bin/check %s --tier quick" % p,
        "thorough_cmd": "python3 bin/check %s --tier thorough" % p,
        "evidence_file": "/verif/evidence/%s.json" % p,
        "replay_cmd_template": "python3 bin/check %s --replay {path}" % p,
        "engine": c["engine"],
        "level_claimed": {"category": "proof", "text": c["text"], "design_ref": "DESIGN.md section 6 / " + p},
        "level_note": c["note"],
        "technique": c["technique"],
    })
m = {
    "version": 1,
    "setup_cmd": "python3 bin/check setup",
    "hooks": {
        "guard": "verif",
        "enable": "go build -tags verif (bin/check builds go/harness against /repo's working tree with -tags verif)",
        "baseline_off_cmd": "cd /repo && go test -vet=off -count=1 -timeout 25m ./...",
        "source_commits": hook_commits,
        "add_only": True,
    },
    "engines": claims.get("_engines", []),
    "checks": checks,
    "notes": claims.get("_notes", ""),
    "not_applicable": na,
}
json.dump(m, open(os.path.join(V, "MANIFEST.json"), "w"), indent=1)
print("checks:", [c["property_id"] for c in checks], "not claimed:", [n["property_id"] for n in na])
