#!/usr/bin/env python3
"""seed_confirm.py <seed-id> <worktree> <check-ids...>
Confirms an independently produced property-breaking change (worktree with SEED_patch.diff, a
demonstration and SEED_meta.json): the demo fails with the change and passes without it, the
touched packages' tests pass; then runs the given checks against the worktree (VERIF_REPO) and
records everything under /verif/seeded/<seed-id>/."""
import json, os, shutil, subprocess, sys, glob

V = os.path.dirname(os.path.dirname(os.path.abspath(__file__)))
ENV = dict(os.environ, GOFLAGS="-mod=mod", GOPROXY="off", GOSUMDB="off", GOTOOLCHAIN="local")

def sh(cmd, cwd=None, timeout=1800, env=None):
    p = subprocess.run(cmd, shell=True, cwd=cwd, env=env or ENV, stdout=subprocess.PIPE, stderr=subprocess.STDOUT, text=True, timeout=timeout)
    return p.returncode, p.stdout

def recheck(sid, checks):
    """seed_confirm.py --recheck <seed-id> <checks...>: apply the saved patch on HEAD in a scratch worktree,
    run the checks again (after a check was strengthened) and merge the outcome into meta.json"""
    dst = os.path.join(V, "seeded", sid)
    wt = "/tmp/seedwt_" + sid
    sh("git -C /repo worktree remove --force %s" % wt)
    sh("git -C /repo worktree add -f --detach %s HEAD" % wt)
    rc, o = sh("git apply %s" % os.path.join(dst, "patch.diff"), cwd=wt)
    if rc != 0:
        print("PATCH DOES NOT APPLY on HEAD:", o)
        sh("git -C /repo worktree remove --force %s" % wt)
        sys.exit(2)
    meta = json.load(open(os.path.join(dst, "meta.json")))
    res = meta.get("checks_against_change", {})
    for c in checks:
        env = dict(os.environ, VERIF_REPO=wt)
        rc, o = sh("python3 bin/check %s --tier quick" % c, cwd=V, env=env, timeout=3000)
        lines = [l for l in o.splitlines() if l.startswith("VIOLATION") or l.startswith(c + " ")]
        if c in res and res[c]["rc"] == 0 and rc != 0:
            meta.setdefault("first_missed_by", [])
            if c not in meta["first_missed_by"]:
                meta["first_missed_by"].append(c)
        res[c] = {"rc": rc, "lines": lines}
        for l in lines:
            if l.startswith("VIOLATION"):
                rp = [t for t in l.split() if t.startswith("replay=")]
                if rp and os.path.exists(rp[0][7:]):
                    shutil.copy(rp[0][7:], os.path.join(dst, "replay_%s.json" % c))
        print(c, rc, lines)
    meta["checks_against_change"] = res
    meta["caught_by"] = [c for c, r in res.items() if r["rc"] != 0]
    meta["repo_head"] = sh("git -C /repo rev-parse --short HEAD")[1].strip()
    json.dump(meta, open(os.path.join(dst, "meta.json"), "w"), indent=1)
    sh("git -C /repo worktree remove --force %s" % wt)


def main():
    if sys.argv[1] == "--recheck":
        return recheck(sys.argv[2], sys.argv[3:])
    sid, src, checks = sys.argv[1], sys.argv[2], sys.argv[3:]
    # re-base the change on /repo's current HEAD in a fresh worktree (the author's worktree may be stale)
    wt = "/tmp/seedwt_" + sid
    sh("git -C /repo worktree remove --force %s" % wt)
    rc, o = sh("git -C /repo worktree add -f --detach %s HEAD" % wt)
    rc, o = sh("git apply %s" % os.path.join(src, "SEED_patch.diff"), cwd=wt)
    if rc != 0:
        print("PATCH DOES NOT APPLY on HEAD:", o)
        sys.exit(2)
    for f in glob.glob(os.path.join(src, "**", "SEED_*"), recursive=True):
        rel = os.path.relpath(f, src)
        if os.path.isfile(f):
            os.makedirs(os.path.dirname(os.path.join(wt, rel)) or wt, exist_ok=True)
            shutil.copy(f, os.path.join(wt, rel))
        elif os.path.isdir(f):
            shutil.copytree(f, os.path.join(wt, rel), dirs_exist_ok=True)
    meta = json.load(open(os.path.join(wt, "SEED_meta.json")))
    demo = meta.get("demo_cmd") or meta.get("demo")
    out = {"seed": sid, "property": meta.get("property"), "summary": meta.get("summary"), "needs": meta.get("needs"),
           "files": meta.get("files"), "demo": demo, "author_ran": meta.get("ran"), "confirmed": {}}
    dst = os.path.join(V, "seeded", sid)
    os.makedirs(dst, exist_ok=True)
    shutil.copy(os.path.join(wt, "SEED_patch.diff"), os.path.join(dst, "patch.diff"))
    for f in glob.glob(os.path.join(wt, "**", "SEED_demo*"), recursive=True):
        if os.path.isdir(f):
            shutil.copytree(f, os.path.join(dst, os.path.basename(f)), dirs_exist_ok=True)
        else:
            rel = os.path.relpath(f, wt).replace("/", "__")
            shutil.copy(f, os.path.join(dst, rel))
    democmd = os.environ.get("SEED_DEMO_CMD")
    if democmd:
        rc, o = sh(democmd, cwd=wt, timeout=600)
        out["confirmed"]["demo_with_change"] = {"cmd": democmd, "rc": rc, "tail": o[-600:]}
        sh("git apply -R SEED_patch.diff", cwd=wt)
        rc2, o2 = sh(democmd, cwd=wt, timeout=600)
        sh("git apply SEED_patch.diff", cwd=wt)
        out["confirmed"]["demo_without_change"] = {"rc": rc2, "tail": o2[-300:]}
        print("demo with change rc=%d, without rc=%d" % (rc, rc2))
    pk = os.environ.get("SEED_TEST_PKGS")
    if pk:
        rc, o = sh("go build ./... && go test -vet=off -count=1 -skip 'SEED|Seed' %s" % pk, cwd=wt, timeout=1500)
        out["confirmed"]["existing_tests_with_change"] = {"pkgs": pk, "rc": rc, "tail": o[-600:]}
        print("existing tests rc=%d" % rc)
    res = {}
    for c in checks:
        env = dict(os.environ, VERIF_REPO=wt)
        rc, o = sh("python3 bin/check %s --tier quick" % c, cwd=V, env=env, timeout=3000)
        lines = [l for l in o.splitlines() if l.startswith("VIOLATION") or l.startswith(c + " ")]
        res[c] = {"rc": rc, "lines": lines}
        for l in lines:
            if l.startswith("VIOLATION"):
                rp = [t for t in l.split() if t.startswith("replay=")]
                if rp and os.path.exists(rp[0][7:]):
                    shutil.copy(rp[0][7:], os.path.join(dst, "replay_%s.json" % c))
        print(c, rc, lines)
    out["checks_against_change"] = res
    out["caught_by"] = [c for c, r in res.items() if r["rc"] != 0]
    out["repo_head"] = sh("git -C /repo rev-parse --short HEAD")[1].strip()
    json.dump(out, open(os.path.join(dst, "meta.json"), "w"), indent=1)
    sh("git -C /repo worktree remove --force %s" % wt)

main()
